"""C11 -- every export format is a faithful image of the query results.

Tie: B.  The three exporters of src/gambit/results.py are run on result sets produced by real
queries (API and CLI) on generated reference databases and on hand-built result objects; the
extracted model (Entry/E11.v) writes the same three documents from structures the harness keeps
itself (its own taxon / genome tables, addressed by the keys found in the results object).

Per result set:
  csv      exporter output == model text byte for byte; csv.reader(newline='') of the output ==
           header + one row per query, cells computed here from the harness tables (property)
  json     exporter output == model text byte for byte; json.loads of the output carries label,
           reported / next taxon, closest genomes (property); agrees with the CSV cells
  archive  writer output == model text; ResultsArchiveReader(...) == original object, distances
           bit for bit, warnings, error, params (property); model reader agrees
Kind multiset: the archive clause "read back against the same database" over databases that hold SEVERAL genome
sets (versions of one key, or different keys) sharing Genome rows, each with its own taxonomy and genome
annotations.  Result sets (real queries, the same ones against every set or independent ones, and hand-built
objects) are produced against each set; each goes through the per-result checks above (the model reader is given
all genome set rows of the database and the taxon / genome rows of the results' own set), and then the archives
are read back by ResultsArchiveReader instances that are REUSED according to a generated schedule (one reader
over all archives in either order / shuffled / with repeats / alternating between the sets, one reader per set,
a fresh reader per archive, two interleaved readers): every loaded object must reconstruct its own original,
whatever the reader instance has read before.
The CPython csv / json behaviour the theorems rest on is sampled separately (kinds csvtext, rows,
jsonstr): exhaustive small alphabets + random.

State and aliasing.  Entry points the property is observed through, the mutable objects they receive or create that can
outlive one call, and the stream that (a) reuses the object across calls whose other arguments differ, in both orders,
(b) checks the caller's object afterwards, (c) interleaves calls that fail part-way, (d) repeats a call and wants the same
result, (e) calls from a second thread.  "script" / "cliseq" / "multiset" are the kinds below; "-" = not applicable.

  entry point                         object that outlives the call                     a          b        c        d        e
  CSVResultsExporter(**format_opts)   the instance: .format_opts (per instance; the     script     script   script   script   script(1)
    .export(file_or_path, results)    ** dict is a fresh dict, so the caller's keyword
    .get_header / .get_row            dict cannot be aliased); class-level COLUMNS      -          script   -        -        -
  JSONResultsExporter(pretty)         the instance (.pretty); class-level to_json       script     script   script   script   script(1)
    .export                           dispatch registry (filled at import only)
  ResultsArchiveWriter(pretty)        the instance (.pretty); class-level registry      script     script   script   script   script(1)
    .export
  (all three) argument `results`      QueryResults: .items list, QueryResultItem,       script     script   script   script   -
                                      QueryInput (shared between twins), ClassifierResult,
                                      GenomeMatch (.distance float32 / float), the
                                      QueryParams object (query() stores the CALLER'S
                                      object in .params; shared between twins), .extra
                                      dict (aliased into the JSON document by
                                      asdict(recurse=False)), SignaturesMeta, the ORM
                                      objects Taxon / AnnotatedGenome / ReferenceGenomeSet
                                      (session new / dirty / deleted must stay empty)
  (all three) argument `file_or_path` an open text stream of the caller (must stay      script     script   script   -        -
                                      open, earlier content untouched: target
                                      'append'), a path (str / PathLike) written twice
                                      with texts of different length (path0 / path1)
  ResultsArchiveReader(session)       the instance: ._converter (a COPY of the module-  multiset,  -        script   multiset -(2)
    .read(file_or_path)               level gambit.util.json.converter taken at          script                       script
    .results_from_json(data)          construction), ._current_genomeset (set for the
                                      duration of one call, reset in `finally`), the
                                      Session (identity map; several genome sets, a
                                      second database with its own session and reader)
    argument `data`                   the caller's parsed dict (via 'data': ONE dict    script     script   script   script   -
                                      per result set, handed to several calls)
    argument `file_or_path`           stream / path (path1 is shared with exports)      script     -        script   -        -
  gambit.util.json.converter          module-level cattrs converter behind to_json /    (every export and read goes through it; readers of two
    to_json / from_json / dump(s)     from_json and behind every reader's copy          sessions and all three exporters interleaved: script)
  query() / query_parse()             producer only (C09 / C10 judge it): params        script     script   -        -        -
                                      object, list of inputs, extra dict shared by
                                      the result sets of a case; list of inputs
                                      compared after the call
  gambit query -o OUT -f FMT          per invocation: CLIContext, exporter from         cli,       -        cliseq   cliseq   -
    [--strict] [-c N] FILES           get_exporter(), database session; across          cliseq
    | -l LISTFILE --ldir DIR          (list-file form: stream cli, pathform=listfile;
                                      no state of its own: the list is read once)
                                      invocations of one process: module state of
                                      gambit.cli / gambit.results, the OUT path
                                      (one path for all invocations of a case),
                                      omp_set_num_threads (-c)

  (1) nothing in results.py is advertised as thread-safe; exporters document no state, so a SEQUENTIAL export from a worker
      thread (started and joined inside the step) of a results object whose ORM attributes are already loaded is included.
  (2) a reader is bound to a SQLAlchemy Session, which is documented as not usable from several threads: no thread steps.
  Before this audit: fresh exporter instances for every result set and format (no reuse at all), readers reused by kind
  multiset only over successful reads of one session, no failing call anywhere, no check that an export leaves its argument
  alone except the == of the archive clause (last of the three exports), results_from_json never called directly.
Kind script: see k_script.  Kind cliseq: see k_cliseq.

Input dimensions of the CSV clause ("parses back correctly") and the stream that varies each one:

  dimension                              values                                                                    stream
  strings in the documented columns      NASTY pool (, " LF CR+other, non-ASCII, astral, tab ; \\ ' DEL, empty)       query built cli script dialect
  kind of result item                    no prediction / unreportable / failed strict / warnings / no file         query built
  exporter keyword options, no dialect   quoting, delimiter, quotechar, lineterminator (CSV_OPTS)                  script
  exporter given dialect=                registered name ('excel' 'excel-tab' 'unix'), the csv.Dialect class, an    dialect
                                         instance of it; harness dialects registered by keyword / registered as
                                         a class / passed as class / as instance: delimiter TAB ; | : ,  quoting
                                         NONE+escapechar / ALL / NONNUMERIC / MINIMAL (/ STRINGS / NOTNULL where the
                                         csv module has them), doublequote False + escapechar, quotechar ', escapechar
                                         \\ or !, lineterminator LF or CRLF; each ALONE and combined with keyword
                                         overrides (quoting, lineterminator, delimiter, quotechar, escapechar,
                                         doublequote, strict)
  how the file is read back              csv.reader AND csv.DictReader given EXACTLY the dialect object and the     dialect
                                         keyword options the exporter was constructed with (script: the reader is
                                         told delimiter / quotechar / dialect only)
  Before this row: the only dialects ever passed were 'unix' and 'excel-tab' (script), whose quoting / line terminator can be replaced by the
  exporter's no-dialect defaults without the file ceasing to parse; no dialect whose QUOTING or ESCAPING the reader depends on was exported.
Kind dialect: see k_dialect.

Input dimensions of the archive clause ("reconstructs a results object equal to the original") and of the query block of the JSON
export that are not CSV-visible, and the stream that varies each one:

  dimension                              values                                                                    stream
  source file of a query                 absent / present (format fasta genbank, compression None gzip)            query built multiset script dialect
  PATH of the source file                PATH_SHAPES: absolute, bare name, relative, './' and '/./', an up-level     query built (stream paths-enumerated:
                                         component '..' in the middle / at the start / several / above the root /   every shape on a real query and on a
                                         after a leading one, '//' at the start and inside, trailing '/', '~' and   hand-built object of database 0), and
                                         '~user', '$VAR' and '${VAR}', %XX, backslashes, '.hidden' and '...',       at random in every stream that draws
                                         outer spaces, upper case, NFD and NFC accents, 40 components; random       its files from _rand_files (query built
                                         component lists over '..' '.' '' '~' '$X'.  Expected value: the string     multiset script dialect)
                                         pathlib holds in the ORIGINAL object (abs_results), which the model
                                         writer copies into its archive / JSON text
  how the CLI is told the query files    positional absolute paths; positional paths with an interior '..';        cli (pathform), cliseq (absolute only)
                                         -l LISTFILE --ldir DIR with entries '../NAME' (source file = DIR/../NAME)
  Before this table: every source file path was '/data/NAME.fa' (API streams) or an absolute normal path of the scratch directory (CLI), on
  which every path-rewriting function (normpath, abspath, realpath, expanduser, expandvars, normcase) is the identity, and -l / --ldir was
  never used; a writer or reader that stores a REWRITTEN path could not be seen.

The unchanged exporter writes a lone carriage return unquoted (DESIGN.md 6-i).  The harness probes
once whether the implementation under test quotes it; if not, the designated case
(kind 'lonecr', label 'a\\rb') reports it and lone CRs are kept out of the random name pools so
that the one defect is reported once, on its concrete input.  Likewise for the second defect found
by this harness: QueryParams(chunksize=None) ("no chunking") cannot be read back from an archive by
the unchanged code (kind 'chunknone').  Both are repaired by repo_fixes/C11.diff."""
import csv
import io
import itertools
import json
import os
import random
import shutil

PROP = 'C11'
RULE = ('results: a result set (real query via API or CLI on a generated database, or hand-built) '
        'exported as csv + json + archive; non-trivial when a CSV-visible string contains one of '
        ', " LF CR or a non-ASCII character, or an item has no prediction / an unreportable predicted '
        'taxon / a failed strict result / warnings / no source file (counter paths:source-path-not-normal: some source file path holds '
        'an up-level component that is not leading, i.e. os.path.normpath would change it).  '
        'multiset: a generated database with 2-3 genome sets over shared genomes, 2-6 result sets against them, archives read back '
        'by reader instances reused according to a schedule [[reader, result set], ...]; every loaded object is compared with its '
        'original (==, distances bit for bit, genome annotation of the right set); non-trivial when some reader instance reads more '
        'than one archive (counter multiset:reader-crosses-genome-sets: a reader reads archives of different genome sets).  '
        'script: 2-4 result sets (real queries and hand-built objects; twins share labels, the QueryParams object, the QueryInput objects '
        'and the extra dict) against the genome sets of one database file and optionally a second database, and a script of 2-7 steps (corpus cases: longer) '
        '(export by one of 2-4 exporter instances with format options / pretty, to a fresh stream / a shared stream / one of two paths, '
        'possibly from a worker thread; read by one of two reader instances per session from text / pretty text / a shared parsed dict / '
        'a path; exports and reads that fail part-way); every good step judged by the predicate of its format, after every step all '
        'caller objects compared with snapshots, at the end fresh default exporters must reproduce the first texts; non-trivial when '
        'some exporter / reader / result set is used by two steps (counters script:good-call-after-failed-call-on-same-object, '
        'script:exporter-or-reader-crosses-genome-sets-or-databases).  '
        'dialect: one result set (real query or hand-built) exported by 1-14 CSVResultsExporter instances, each constructed with a csv dialect '
        '(standard name / class / instance, or a harness dialect registered by keyword / as class, or passed as class / instance) and / or keyword '
        'overrides; each output read back by csv.reader and csv.DictReader given exactly the same dialect and keywords and compared with the documented '
        'cells from the harness tables (a cell the reader converted to float under QUOTE_NONNUMERIC / QUOTE_STRINGS is compared as a number, None as the '
        'empty string); an export is judged when its configuration can represent every string (an escapechar when quoting is NONE or doublequote is '
        'False) and either quotes / escapes a carriage return (quoting ALL / NONNUMERIC / STRINGS / NOTNULL, or CR in the line terminator) or no expected '
        'cell holds one (known finding C11-csv-lone-cr); non-trivial when a judged export was given a dialect and some expected cell holds a character '
        'that is special under it (delimiter, quote, escape character, CR, LF) or a non-ASCII one (counters dialect:*).  '
        'cliseq: 3-6 CLI invocations in one process over two databases, one output path, formats / --strict / -c varying, failing '
        'invocations in between; non-trivial when two invocations succeed.  '
        'rows: rows of strings through the exporter\'s csv writer, non-trivial when a field needs '
        'quoting.  csvtext / jsonstr: CPython reader / json string behaviour vs the model')
TRUSTED = ['CPython csv / json modules (modelled in Model/C11Csv.v, C11Json.v; sampled by kinds csvtext, rows, jsonstr)',
           'float repr / str(np.float32) / int repr: numbers enter the model as the tokens Python produced',
           'cattrs structuring, SQLAlchemy queries (.one() by key within the genome set; sampled over databases with several genome sets '
           'sharing Genome rows by kind multiset), the session identity map (== of results compares ORM objects by identity), SQLite storage of text',
           'stream multiset: reader-instance state is explored by generated schedules (8 shapes), not proved absent: the model reader is a pure '
           'function of (database rows, archive text)',
           'json.loads on whole documents (only the string scanner and the document writer are modelled)',
           'stream dialect: CPython csv.writer / csv.reader round trip under ONE dialect other than the default one (QUOTE_NONE + escapechar, QUOTE_ALL, '
           'QUOTE_NONNUMERIC float conversion, doublequote False, other delimiters / quote characters) is trusted, not modelled (Model/C11Csv.v is the default '
           'dialect only): this stream has no model side, every export is judged by the property predicate alone (csv.reader / csv.DictReader with the '
           'exporter\'s own dialect and keywords against the harness tables); the dialect space is sampled (3 standard + a pool of harness dialects x 4-7 ways '
           'of passing them x single keyword overrides enumerated on two designated result sets, then random combinations), not proved',
           'streams script / cliseq: hidden state and aliasing (instance, class, module, thread level; caller objects written to; state left by a failed '
           'call) are explored by generated call sequences over shared objects, not proved absent: the model is a pure function of one result set, so '
           'it says what EVERY call of a sequence has to produce but not that the implementation has no memory.  Within a script only the first '
           'result set goes through the model; the other ones and all non-default exporter options (csv dialect parameters, pretty) are judged by '
           'the property predicates (csv.reader / json.loads / ResultsArchiveReader against the harness tables)',
           'stream script, outcome of the FAILING calls themselves (exception or not, partial output) is not judged; snapshots compare what the property '
           'can see of a results object (keys, labels, flags, texts, type and bits of distances, object identities, session new / dirty / deleted), '
           'not private attributes an implementation may add to its own instances']
ASSUMPTIONS = ['CSV read back with csv.reader on a text stream opened with newline="" (as the csv documentation requires)',
               'fields shorter than csv.field_size_limit() (131072 characters)',
               'strings are Unicode text: no (high surrogate, low surrogate) code point adjacency (C11_json_surrogate_pair_refuted)',
               'kinds query / built / cli: the database holds one genome set (ReferenceDatabase.load_from_dir / only_genomeset); kind multiset: '
               'several genome sets with distinct (key, version), every set queried through its own ReferenceDatabase on one shared session; '
               'taxon and genome keys are unique (schema)',
               'output files are written on a platform whose text mode does not translate LF',
               'kind script, CSV exporters with format options: the reader is told the delimiter / quote character / dialect the exporter was given '
               '(quoting style and line terminator need not be told); non-default options are chosen so that a carriage return is always quoted '
               '(known defect C11-csv-lone-cr is reported once, by kind lonecr)',
               'kind dialect: the reader of the file uses the same csv dialect and keyword options as the exporter; dialects that cannot represent every '
               'string (QUOTE_NONE or doublequote=False without escapechar: csv.writer raises), skipinitialspace=True (csv.reader strips what the writer '
               'wrote) and dialects that leave a carriage return unquoted on files that hold one (C11-csv-lone-cr) are outside the judged domain',
               'kinds script / cliseq: no entry point of results.py is advertised as thread-safe or fork-safe; calls are sequential (a worker-thread '
               'export is started and joined inside its step), one reader per (number, session)']
BATCH = 400

NASTY = ['plain', 'Genus species', 'com,ma', 'quo"te', '"quoted"', 'new\nline', 'cr\r\nlf', 'mixed\r,x', 'q"\rx',
         'été', '漢字', '\U0001f600 emoji', ' lead', 'trail ', '', 'tab\there', 'a\\b', 'semi;colon',
         '"', ',', '\n', '""', ',,', 'x y', 'del\x7f', "apo'strophe", '\n\r', 'é,"\n\U0001f600']
LONE_CR = ['a\rb', '\r', 'x\ry é', 'end\r']
STATE = {}


def S(s):
	return [ord(c) for c in s]


def U(l):
	return ''.join(chr(c) for c in l)


def opt(x, f=lambda v: v):
	return [] if x is None else [f(x)]


def enc_jv(o):
	if o is None:
		return [0]
	if isinstance(o, bool):
		return [1, int(o)]
	if isinstance(o, (int, float)):
		return [2, S(repr(o))]
	if isinstance(o, str):
		return [3, S(o)]
	if isinstance(o, (list, tuple)):
		return [4, [enc_jv(x) for x in o]]
	if isinstance(o, dict):
		return [5, [[S(k), enc_jv(v)] for k, v in o.items()]]
	raise TypeError(type(o))


# ---- generated databases --------------------------------------------------------------------

def _mutate(rng, seq, rate):
	b = bytearray(seq)
	for i in range(len(b)):
		if rng.random() < rate:
			b[i] = rng.choice(b'ACGT')
	return bytes(b)


class _Tables:
	"""harness-side views of one genome set: self.gset, self.taxa, self.genomes (own tables)"""

	def lineage(self, tkey):
		out = []
		while tkey is not None:
			out.append(tkey)
			tkey = self.taxa[tkey]['parent']
		return out

	def enc_taxon(self, tkey):
		t = self.taxa[tkey]
		return [S(str(t['id'])), S(t['key']), S(t['name']), opt(t['ncbi_id'], lambda v: S(str(v))),
		        opt(t['rank'], S), opt(t['thr'], lambda v: S(repr(v)))]

	def enc_genome(self, gkey):
		g = self.genomes[gkey]
		return [S(g['key']), S(g['description']), opt(g['organism'], S), opt(g['ncbi_db'], S),
		        opt(g['ncbi_id'], lambda v: S(str(v))), opt(g['genbank_acc'], S), opt(g['refseq_acc'], S),
		        S(str(g['id'])), [self.enc_taxon(k) for k in self.lineage(g['taxon'])]]

	def enc_gset(self):
		g = self.gset
		return [S(str(g['id'])), S(g['key']), opt(g['version'], S), S(g['name']), opt(g['description'], S)]

	def all_gsets(self):
		"""every genome set row of the database this set lives in"""
		return [self]

	def enc_refdb(self):
		# the model reader selects the genome set by (key, version) among all sets of the database; taxa and
		# genomes are the rows of this set (the implementation is to look them up within the set)
		return [[v.enc_gset() for v in self.all_gsets()], [self.enc_taxon(k) for k in self.taxa], [self.enc_genome(k) for k in self.genomes]]


class GenDB(_Tables):
	"""A generated reference database together with the harness's own tables."""

	def __init__(self, seed, lone_cr):
		import numpy as np
		from sqlalchemy import create_engine
		from sqlalchemy.orm import sessionmaker
		from gambit.db import models as M
		from gambit.db import ReferenceDatabase
		from gambit.sigs import SignaturesMeta, SignatureList, AnnotatedSignatures, dump_signatures
		from gambit.sigs.calc import calc_signature
		from gambit.kmers import KmerSpec
		rng = random.Random(f'C11-db-{seed}')
		self.seed = seed
		self.dir = os.path.join(STATE['scratch'], f'db{seed}-{int(lone_cr)}')
		os.makedirs(self.dir)
		pool = NASTY + (LONE_CR if lone_cr else [])

		def name():
			r = rng.random()
			if r < 0.6:
				return rng.choice(pool)
			if r < 0.8:
				return rng.choice(pool) + ' ' + rng.choice(pool)
			return ''.join(rng.choice('ab ,"\né漢\U0001f600' + ('\r' if lone_cr else '')) for _ in range(rng.randint(1, 6)))

		self.kspec = KmerSpec(6, 'AT')
		self.gset = dict(id=1, key=name() or 'k', version=rng.choice(['1.0', None, name()]), name=name(),
		                 description=rng.choice([None, name()]))
		self.taxa = {}      # key -> dict
		self.genomes = {}   # key -> dict
		self.seqs = {}      # genome key -> sequence
		order = []
		n_roots = rng.choice([1, 2, 2, 3])
		for r in range(n_roots):
			rk = f't{len(order)}'
			order.append(rk)
			self.taxa[rk] = dict(key=rk, name=name(), rank=rng.choice(['genus', None, name()]),
			                     thr=rng.choice([0.8, 0.995, 0.9, None]), report=rng.random() < 0.8,
			                     ncbi_id=rng.choice([None, 0, rng.randrange(1, 10 ** 6)]), parent=None)
			for s in range(rng.randint(1, 3)):
				sk = f't{len(order)}'
				order.append(sk)
				self.taxa[sk] = dict(key=sk, name=name(), rank=rng.choice(['species', 'species', None]),
				                     thr=rng.choice([0.3, 0.45, round(rng.uniform(0.05, 0.7), 4), None]),
				                     report=rng.random() < 0.7, ncbi_id=rng.choice([None, rng.randrange(1, 10 ** 6)]), parent=rk)
				base = bytes(rng.choice(b'ACGT') for _ in range(3000))
				leaves = [sk]
				if rng.random() < 0.5:
					uk = f't{len(order)}'
					order.append(uk)
					self.taxa[uk] = dict(key=uk, name=name(), rank=rng.choice(['subspecies', name()]),
					                     thr=rng.choice([None, 0.1, 0.2]), report=rng.random() < 0.5,
					                     ncbi_id=None, parent=sk)
					leaves.append(uk)
				for g in range(rng.randint(1, 3)):
					gk = f'g{len(self.genomes)}/{rng.choice(["x", "é", "k,"])}'
					self.genomes[gk] = dict(key=gk, description=name(), organism=rng.choice([None, name()]),
					                        ncbi_db=rng.choice([None, 'assembly']), ncbi_id=rng.choice([None, rng.randrange(10 ** 7)]),
					                        genbank_acc=rng.choice([None, f'GCA_{len(self.genomes)}.1']),
					                        refseq_acc=rng.choice([None, f'GCF_{len(self.genomes)} {name()}']),
					                        taxon=rng.choice(leaves))
					self.seqs[gk] = _mutate(rng, base, rng.choice([0.0, 0.01, 0.03]))
		for i, k in enumerate(order):
			self.taxa[k]['id'] = i + 1
		for i, k in enumerate(self.genomes):
			self.genomes[k]['id'] = i + 1

		eng = create_engine('sqlite:///' + os.path.join(self.dir, 'db.gdb'))
		M.Base.metadata.create_all(eng)
		ses = sessionmaker(eng)()
		gs = M.ReferenceGenomeSet(key=self.gset['key'], version=self.gset['version'], name=self.gset['name'],
		                          description=self.gset['description'])
		ses.add(gs)
		objs = {}
		for k in order:
			t = self.taxa[k]
			objs[k] = M.Taxon(key=k, name=t['name'], rank=t['rank'], distance_threshold=t['thr'], report=t['report'],
			                  ncbi_id=t['ncbi_id'], genome_set=gs, parent=objs.get(t['parent']))
			ses.add(objs[k])
			ses.flush()
		sigs = []
		for k, g in self.genomes.items():
			go = M.Genome(key=k, description=g['description'], ncbi_db=g['ncbi_db'], ncbi_id=g['ncbi_id'],
			              genbank_acc=g['genbank_acc'], refseq_acc=g['refseq_acc'])
			ses.add(M.AnnotatedGenome(genome=go, genome_set=gs, taxon=objs[g['taxon']], organism=g['organism']))
			ses.flush()
			sigs.append(calc_signature(self.kspec, self.seqs[k]))
		ses.commit()
		for k in order:
			assert objs[k].id == self.taxa[k]['id']
		ses.close()
		self.sigmeta = dict(id=name(), name=name(), version='1', id_attr='key', description=rng.choice([None, name()]),
		                    extra=rng.choice([{}, {'n': 1, 'x': [name(), 0.5, None, True]}]))
		meta = SignaturesMeta(**self.sigmeta)
		asig = AnnotatedSignatures(SignatureList(sigs, self.kspec, dtype=np.uint16), list(self.genomes), meta)
		dump_signatures(os.path.join(self.dir, 'db.gs'), asig, 'hdf5')
		self.db = ReferenceDatabase.load_from_dir(self.dir)


def get_db(seed, lone_cr=None):
	lone_cr = STATE['lone_cr_ok'] if lone_cr is None else lone_cr
	key = (seed, lone_cr)
	if key not in STATE['dbs']:
		if len(STATE['dbs']) > 12:
			k0, old = next(iter(STATE['dbs'].items()))
			old.db.session.close()
			shutil.rmtree(old.dir, ignore_errors=True)
			del STATE['dbs'][k0]
		STATE['dbs'][key] = GenDB(seed, lone_cr)
	else:
		STATE['dbs'][key] = STATE['dbs'].pop(key)       # most recently used last: a case that takes two databases keeps both
	return STATE['dbs'][key]


class SetView(_Tables):
	"""one genome set of a MultiDB: the same interface as GenDB (own tables + a ReferenceDatabase)"""

	def __init__(self, parent):
		self.parent = parent
		self.dir = parent.dir
		self.kspec = parent.kspec
		self.seqs = parent.seqs
		self.taxa = {}
		self.genomes = {}

	def all_gsets(self):
		return self.parent.sets


class MultiDB:
	"""A generated database file holding SEVERAL genome sets (versions of one key and/or different keys)
	over shared Genome rows.  Every set has its own taxonomy (own Taxon rows, thresholds, report flags),
	annotates all or most of the genomes (own AnnotatedGenome rows: taxon + organism) and is queried through
	its own ReferenceDatabase; all of them share one SQLAlchemy session and one signature file."""

	def __init__(self, seed, lone_cr):
		import numpy as np
		from sqlalchemy import create_engine
		from sqlalchemy.orm import sessionmaker
		from gambit.db import models as M
		from gambit.db import ReferenceDatabase
		from gambit.sigs import SignaturesMeta, SignatureList, AnnotatedSignatures, dump_signatures, load_signatures
		from gambit.sigs.calc import calc_signature
		from gambit.kmers import KmerSpec
		rng = random.Random(f'C11-mdb-{seed}')
		self.seed = seed
		self.dir = os.path.join(STATE['scratch'], f'mdb{seed}-{int(lone_cr)}')
		os.makedirs(self.dir)
		pool = NASTY + (LONE_CR if lone_cr else [])

		def name():
			r = rng.random()
			if r < 0.6:
				return rng.choice(pool)
			if r < 0.8:
				return rng.choice(pool) + ' ' + rng.choice(pool)
			return ''.join(rng.choice('ab ,"\né漢\U0001f600' + ('\r' if lone_cr else '')) for _ in range(rng.randint(1, 6)))

		self.kspec = KmerSpec(6, 'AT')
		# -- shared Genome rows, in clusters of related sequences
		shared = {}
		self.seqs = {}
		clusters = []
		for c in range(rng.randint(2, 4)):
			base = bytes(rng.choice(b'ACGT') for _ in range(3000))
			cl = []
			for _ in range(rng.randint(1, 3)):
				gk = f'g{len(shared)}/{rng.choice(["x", "é", "k,"])}'
				shared[gk] = dict(key=gk, description=name(), ncbi_db=rng.choice([None, 'assembly']), ncbi_id=rng.choice([None, rng.randrange(10 ** 7)]),
				                  genbank_acc=rng.choice([None, f'GCA_{len(shared)}.1']),
				                  refseq_acc=rng.choice([None, f'GCF_{len(shared)} {name()}']), id=len(shared) + 1)
				self.seqs[gk] = _mutate(rng, base, rng.choice([0.0, 0.01, 0.03]))
				cl.append(gk)
			clusters.append(cl)
		allkeys = list(shared)
		if len(allkeys) < 3:
			gk = f'g{len(shared)}/x'
			shared[gk] = dict(key=gk, description=name(), ncbi_db=None, ncbi_id=None, genbank_acc=None, refseq_acc=None, id=len(shared) + 1)
			self.seqs[gk] = _mutate(rng, self.seqs[allkeys[0]], 0.02)
			clusters[0].append(gk)
			allkeys.append(gk)

		# -- the genome sets: (key, version) pairs are distinct (schema), nothing else is
		nsets = rng.choice([2, 2, 2, 3])
		style = rng.choice(['versions', 'versions', 'keys', 'mixed'])
		k0 = name() or 'k'
		idents = []
		while len(idents) < nsets:
			if style == 'versions':
				ident = (k0, rng.choice(['1.0', '2.0', '1.0.1', None, name()]))
			elif style == 'keys':
				ident = ((name() or 'k') + str(len(idents)), idents[0][1] if idents else rng.choice(['1.0', None]))
			else:
				ident = (rng.choice([k0, k0 + "'", name() or 'k']), rng.choice(['1.0', '2.0', None]))
			if ident not in idents:
				idents.append(ident)
		self.sets = []
		ntax = 0
		for si, (gk_, gv_) in enumerate(idents):
			v = SetView(self)
			v.gset = dict(id=si + 1, key=gk_, version=gv_, name=name(), description=rng.choice([None, name()]))
			n = len(allkeys)
			if rng.random() < 0.6:
				members = set(allkeys)
			else:       # more than half of the genomes: any two sets share Genome rows
				members = set(allkeys) - set(rng.sample(allkeys, rng.randint(1, max(1, (n - 1) // 2))))
			roots = []
			for r in range(rng.choice([1, 1, 2])):
				rk = f's{si}t{ntax}'
				ntax += 1
				v.taxa[rk] = dict(key=rk, name=name(), rank=rng.choice(['genus', None, name()]),
				                  thr=rng.choice([0.8, 0.995, 0.9, None]), report=rng.random() < 0.8,
				                  ncbi_id=rng.choice([None, 0, rng.randrange(1, 10 ** 6)]), parent=None, id=ntax)
				roots.append(rk)
			leaves = None
			for cl in clusters:
				mem = [k for k in cl if k in members]
				if not mem:
					continue
				if leaves is None or rng.random() < 0.75:       # else: this version lumps the cluster into the previous species
					sk = f's{si}t{ntax}'
					ntax += 1
					v.taxa[sk] = dict(key=sk, name=name(), rank=rng.choice(['species', 'species', None]),
					                  thr=rng.choice([0.3, 0.45, round(rng.uniform(0.05, 0.7), 4), None]),
					                  report=rng.random() < 0.7, ncbi_id=rng.choice([None, rng.randrange(1, 10 ** 6)]),
					                  parent=rng.choice(roots), id=ntax)
					leaves = [sk]
					if rng.random() < 0.4:
						uk = f's{si}t{ntax}'
						ntax += 1
						v.taxa[uk] = dict(key=uk, name=name(), rank=rng.choice(['subspecies', name()]), thr=rng.choice([None, 0.1, 0.2]),
						                  report=rng.random() < 0.5, ncbi_id=None, parent=sk, id=ntax)
						leaves.append(uk)
				for k in mem:
					v.genomes[k] = dict(shared[k], organism=rng.choice([None, name(), f'{name()} (set {si})']), taxon=rng.choice(leaves))
			self.sets.append(v)

		eng = create_engine('sqlite:///' + os.path.join(self.dir, 'db.gdb'))
		M.Base.metadata.create_all(eng)
		ses = sessionmaker(eng)()
		gobjs = {}
		for k, g in shared.items():
			gobjs[k] = M.Genome(key=k, description=g['description'], ncbi_db=g['ncbi_db'], ncbi_id=g['ncbi_id'],
			                    genbank_acc=g['genbank_acc'], refseq_acc=g['refseq_acc'])
			ses.add(gobjs[k])
			ses.flush()
			assert gobjs[k].id == g['id']
		gsobjs = []
		for v in self.sets:
			gs = M.ReferenceGenomeSet(key=v.gset['key'], version=v.gset['version'], name=v.gset['name'], description=v.gset['description'])
			ses.add(gs)
			ses.flush()
			assert gs.id == v.gset['id']
			gsobjs.append(gs)
		# taxon ids follow the global creation order above (sets one after the other)
		tobjs = {}
		for v, gs in zip(self.sets, gsobjs):
			for k, t in v.taxa.items():
				tobjs[k] = M.Taxon(key=k, name=t['name'], rank=t['rank'], distance_threshold=t['thr'], report=t['report'],
				                   ncbi_id=t['ncbi_id'], genome_set=gs, parent=tobjs.get(t['parent']))
				ses.add(tobjs[k])
				ses.flush()
				assert tobjs[k].id == t['id']
		# annotations: interleave the sets so that AnnotatedGenome rows of different sets are mixed in the table
		todo = [(v, gs, k) for v, gs in zip(self.sets, gsobjs) for k in v.genomes]
		rng.shuffle(todo)
		for v, gs, k in todo:
			ses.add(M.AnnotatedGenome(genome=gobjs[k], genome_set=gs, taxon=tobjs[v.genomes[k]['taxon']], organism=v.genomes[k]['organism']))
		ses.commit()
		self.session = ses
		self.sigmeta = dict(id=name(), name=name(), version='1', id_attr='key', description=rng.choice([None, name()]),
		                    extra=rng.choice([{}, {'n': 1, 'x': [name(), 0.5, None, True]}]))
		sigs = [calc_signature(self.kspec, self.seqs[k]) for k in allkeys]
		asig = AnnotatedSignatures(SignatureList(sigs, self.kspec, dtype=np.uint16), allkeys, SignaturesMeta(**self.sigmeta))
		dump_signatures(os.path.join(self.dir, 'db.gs'), asig, 'hdf5')
		self.sigs = load_signatures(os.path.join(self.dir, 'db.gs'))
		for v, gs in zip(self.sets, gsobjs):
			v.sigmeta = self.sigmeta
			v.db = ReferenceDatabase(gs, self.sigs)
			assert v.db.session is ses and sorted(a.genome.key for a in v.db.genomes) == sorted(v.genomes)


def get_mdb(seed, lone_cr=None):
	lone_cr = STATE['lone_cr_ok'] if lone_cr is None else lone_cr
	key = (seed, lone_cr)
	cache = STATE.setdefault('mdbs', {})
	if key not in cache:
		if len(cache) > 16:
			k0, old = next(iter(cache.items()))
			old.session.close()
			shutil.rmtree(old.dir, ignore_errors=True)
			del cache[k0]
		cache[key] = MultiDB(seed, lone_cr)
	else:
		cache[key] = cache.pop(key)
	return cache[key]


# ---- abstraction of a results object (keys + numbers only come from the object) --------------

def _dtok_csv(d):
	return repr(d) if type(d) is float else str(d)


def abs_match(m):
	"""GenomeMatch -> (genome key, distance object, matched taxon key)"""
	return (m.genome.genome.key, m.distance, None if m.matched_taxon is None else m.matched_taxon.key)


def abs_results(results):
	items = []
	for it in results.items:
		cr = it.classifier_result
		k = lambda t: None if t is None else t.key
		items.append(dict(
			label=it.input.label,
			file=None if it.input.file is None else (str(it.input.file.path), it.input.file.format, it.input.file.compression),
			success=cr.success, pred=k(cr.predicted_taxon),
			primary=None if cr.primary_match is None else abs_match(cr.primary_match),
			closest=abs_match(cr.closest_match), next=k(cr.next_taxon), warnings=list(cr.warnings), error=cr.error,
			report=k(it.report_taxon), closest_genomes=[abs_match(m) for m in it.closest_genomes]))
	p = results.params
	return dict(items=items,
	            params=None if p is None else (p.classify_strict, p.chunksize, p.report_closest),
	            version=results.gambit_version, timestamp=results.timestamp.isoformat(), extra=results.extra)


def enc_match(g, m):
	return [g.enc_genome(m[0]), S(repr(float(m[1]))), opt(m[2], g.enc_taxon)]


def enc_item(g, a):
	cr = [int(a['success']), opt(a['pred'], g.enc_taxon), opt(a['primary'], lambda m: enc_match(g, m)),
	      enc_match(g, a['closest']), opt(a['next'], g.enc_taxon), [S(w) for w in a['warnings']], opt(a['error'], S)]
	return [S(a['label']), opt(a['file'], lambda f: [S(f[0]), S(f[1]), opt(f[2], S)]), cr,
	        opt(a['report'], g.enc_taxon), [enc_match(g, m) for m in a['closest_genomes']]]


def enc_results(g, a):
	return [[enc_item(g, it) for it in a['items']],
	        opt(a['params'], lambda p: [int(p[0]), opt(p[1], lambda c: S(repr(c))), S(repr(p[2]))]),
	        g.enc_gset(), enc_jv(g.sigmeta), S(a['version']), S(a['timestamp']), enc_jv(a['extra'])]


def expected_cells(g, a):
	"""the documented CSV columns of one item, from the harness tables"""
	def tx(k):
		if k is None:
			return ['', '', '', '']
		t = g.taxa[k]
		return [t['name'], t['rank'] or '', '' if t['ncbi_id'] is None else str(t['ncbi_id']),
		        '' if t['thr'] is None else repr(t['thr'])]
	return [a['label']] + tx(a['report']) + [_dtok_csv(a['closest'][1]), g.genomes[a['closest'][0]]['description']] + tx(a['next'])


HEADER = ['query', 'predicted.name', 'predicted.rank', 'predicted.ncbi_id', 'predicted.threshold', 'closest.distance',
          'closest.description', 'next.name', 'next.rank', 'next.ncbi_id', 'next.threshold']


def _export(exporter, results):
	b = io.StringIO()
	exporter.export(b, results)
	return b.getvalue()


def _parse_csv(text):
	return list(csv.reader(io.StringIO(text, newline='')))


def _f32bits(x):
	import numpy as np
	return int(np.float32(x).view(np.uint32))


def _interesting(g, a):
	def nasty(s):
		return s is not None and (any(c in s for c in ',"\n\r') or any(ord(c) > 126 for c in s))
	for it in a['items']:
		cells = expected_cells(g, it)
		if any(nasty(c) for c in cells) or it['pred'] is None or it['report'] != it['pred'] or not it['success'] \
				or it['warnings'] or it['file'] is None:
			return True
	return False


def _matches(it):
	return [it['closest']] + [it['primary']] * (it['primary'] is not None) + it['closest_genomes']


def compare_loaded(g, a, results, r2, a2, own):
	"""property predicate of the archive clause: `r2` (read back against the database of `g`, abstraction `a2`)
	reconstructs `results` (abstraction `a`).  `own`: `results` is the very object that was exported (else it
	is an equivalent one computed by the harness, e.g. for CLI output).  Returns the first problem or None."""
	bad = None
	for i1, i2 in zip(a['items'], a2['items']):
		ms1, ms2 = _matches(i1), _matches(i2)
		if [(m[0], _f32bits(m[1]), float(m[1]), m[2]) for m in ms1] != [(m[0], _f32bits(m[1]), float(m[1]), m[2]) for m in ms2]:
			bad = bad or f'archive read back: matches / distances of query {i1["label"]!r} differ: {ms1} -> {ms2}'
		for f in ('label', 'file', 'success', 'pred', 'next', 'warnings', 'error', 'report'):
			if i1[f] != i2[f]:
				bad = bad or f'archive read back: {f} of query {i1["label"]!r}: {i1[f]!r} -> {i2[f]!r}'
	if len(a['items']) != len(a2['items']) or a['params'] != a2['params'] or a['extra'] != a2['extra'] or a['version'] != a2['version'] \
			or a['timestamp'] != a2['timestamp'] or r2.genomeset.key != g.gset['key'] or r2.signaturesmeta != results.signaturesmeta:
		bad = bad or 'archive read back: item count / params / extra / version / timestamp / genome set / signatures metadata differ'
	# the loaded objects are those of the results' own genome set: "closest-genome data" is the annotation of the
	# genome within that set (harness tables), not that of another set sharing the Genome row
	if not bad:
		gs2 = r2.genomeset
		if (gs2.id, gs2.key, gs2.version, gs2.name) != (g.gset['id'], g.gset['key'], g.gset['version'], g.gset['name']):
			bad = (f'archive read back: genome set is id {gs2.id} key {gs2.key!r} version {gs2.version!r}, the results were for '
			       f'id {g.gset["id"]} key {g.gset["key"]!r} version {g.gset["version"]!r}')
		for it in r2.items:
			cr = it.classifier_result
			for m in [cr.closest_match] + [cr.primary_match] * (cr.primary_match is not None) + list(it.closest_genomes):
				ag = m.genome
				want = g.genomes.get(ag.genome.key)
				got = (ag.genome_set_id, ag.organism, ag.taxon.key)
				if not bad and want is not None and got != (g.gset['id'], want['organism'], want['taxon']):
					bad = (f'archive read back: query {it.input.label!r}: genome {ag.genome.key!r} was loaded with the annotation (genome set id, '
					       f'organism, taxon) = {got}; in the genome set of the results it is {(g.gset["id"], want["organism"], want["taxon"])}')
	if own and not bad and not (r2 == results):
		bad = 'archive read back against the same database is not equal to the original results object'
	return bad


def check_results(ctx, kind, case, g, results, texts=None, cli_read=None, register=True, where='', model=True):
	"""compare the three exports of `results` with model and property.  `texts` (CLI): already
	produced outputs {'csv':..., 'json':..., 'archive':...} (any subset).  `where`: prefix of violation
	texts (which result set of a multi-result case).  `model=False`: property predicates only (kind script uses the model
	for one result set per case).  Returns the abstraction, the texts, the model documents and the expected CSV rows."""
	import numpy as np
	from gambit.results import CSVResultsExporter, JSONResultsExporter, ResultsArchiveWriter, ResultsArchiveReader
	if STATE.get('script_violation') and not ctx.replaying:
		# a sequence stream (script / cliseq) has reported a violation in this process: it may have left state behind at
		# module / class / thread level, and a single-call failure seen from now on would not replay in a fresh process
		ctx.count('skipped:result-set-after-a-sequence-violation')
		if register:
			ctx.case(case, nontrivial=False)
		return None
	a = abs_results(results)
	if register:
		ctx.case(case, nontrivial=_interesting(g, a))
	if any(it['file'] is not None and os.path.normpath(it['file'][0]) != it['file'][0] for it in a['items']):
		ctx.count('paths:source-path-not-normal')
	er = enc_results(g, a)
	xitems = [[enc_item(g, it), S(_dtok_csv(it['closest'][1]))] for it in a['items']]
	exp_rows = [HEADER] + [expected_cells(g, it) for it in a['items']]
	own = texts is None
	if own:
		texts = {}
		for fmt, ex in (('csv', CSVResultsExporter()), ('json', JSONResultsExporter()), ('archive', ResultsArchiveWriter())):
			try:
				texts[fmt] = _export(ex, results)
			except Exception as e:
				ctx.violation(kind, case, where + f'{fmt} export of the result set raised {type(e).__name__}: {e}')
	mod = None
	if ctx.model_ok and model:
		ans = ctx.model([(1107, xitems), (1108, er), (1109, er), (1110, [g.enc_refdb(), er]), (1111, xitems)])
		mod = dict(csv=U(ans[0]), json=U(ans[1]), archive=U(ans[2]), read=ans[3], rows=[[U(f) for f in r] for r in ans[4]])
		if mod['rows'] != exp_rows:
			ctx.broke('correspondence csv (model column table vs documented columns)', f'case {case}: model {mod["rows"]} expected {exp_rows}')

	# ---- csv
	if 'csv' in texts:
		t = texts['csv']
		try:
			back = _parse_csv(t)
		except csv.Error as e:
			back = f'csv.Error: {e}'
		if back != exp_rows:
			ctx.violation(kind, case, where + f'CSV export does not parse back to header + one row per query with the documented cells: '
			              f'got {back!r}, expected {exp_rows!r} (output {t!r})', impl=t, spec=exp_rows, model=mod and mod['csv'])
		elif mod and t != mod['csv']:
			ctx.broke('correspondence csv (byte-for-byte)', f'case {case}: impl {t!r} model {mod["csv"]!r}')

	# ---- json
	if 'json' in texts:
		t = texts['json']
		bad = None
		try:
			d = json.loads(t)
		except ValueError as e:
			d = None
			bad = f'not valid JSON: {e}'
		if d is not None:
			bad = _check_json(g, a, d, exp_rows)
		if bad:
			ctx.violation(kind, case, where + f'JSON export: {bad}', impl=t[:2000], model=mod and mod['json'][:2000])
		elif mod and t != mod['json']:
			i = next((i for i, (x, y) in enumerate(zip(t, mod['json'])) if x != y), min(len(t), len(mod['json'])))
			ctx.broke('correspondence json (byte-for-byte)', f'case {case}: first difference at {i}: impl ...{t[max(0, i - 60):i + 60]!r} model ...{mod["json"][max(0, i - 60):i + 60]!r}')

	# ---- archive
	if 'archive' in texts:
		t = texts['archive']
		bad = None
		try:
			r2 = ResultsArchiveReader(g.db.session).read(io.StringIO(t))
		except Exception as e:
			r2 = None
			bad = f'archive cannot be read back: {type(e).__name__}: {e}'
		if r2 is not None:
			if cli_read is not None:
				cli_read(r2)
			a2 = abs_results(r2)
			bad = compare_loaded(g, a, results, r2, a2, own)
			if not bad and mod:
				er2 = enc_results(g, a2)
				if mod['read'] != [0, er2]:
					ctx.broke('correspondence archive (model reader vs ResultsArchiveReader)', f'case {case}: model {str(mod["read"])[:300]}')
		if bad:
			ctx.violation(kind, case, where + bad, impl=t[:2000], model=mod and mod['archive'][:2000])
		elif mod and t != mod['archive']:
			i = next((i for i, (x, y) in enumerate(zip(t, mod['archive'])) if x != y), min(len(t), len(mod['archive'])))
			ctx.broke('correspondence archive (byte-for-byte)', f'case {case}: first difference at {i}: impl ...{t[max(0, i - 60):i + 60]!r} model ...{mod["archive"][max(0, i - 60):i + 60]!r}')
	return dict(a=a, texts=texts, mod=mod, exp_rows=exp_rows)


def _check_json(g, a, d, exp_rows):
	"""property predicate for the JSON export; returns a description of the first problem"""
	try:
		if len(d['items']) != len(a['items']):
			return f'{len(d["items"])} items for {len(a["items"])} queries'
		gs = d['genomeset']
		if (gs['key'], gs['version'], gs['name'], gs['description']) != (g.gset['key'], g.gset['version'], g.gset['name'], g.gset['description']):
			return f'genome set {gs}'

		def tx(j, k, what):
			if k is None:
				return None if j is None else f'{what} should be null, is {j}'
			t = g.taxa[k]
			if j is None:
				return f'{what} is null, should be {k}'
			got = (j['id'], j['key'], j['name'], j['ncbi_id'], j['rank'], j['distance_threshold'])
			want = (t['id'], t['key'], t['name'], t['ncbi_id'], t['rank'], t['thr'])
			return None if got == want else f'{what}: {got} should be {want}'
		for it, j, row in zip(a['items'], d['items'], exp_rows[1:]):
			q = j['query']
			want = (it['label'], None if it['file'] is None else it['file'][0], None if it['file'] is None else it['file'][1])
			if (q['name'], q['path'], q['format']) != want:
				return f'query {q} should be {want}'
			bad = tx(j['predicted_taxon'], it['report'], 'predicted_taxon') or tx(j['next_taxon'], it['next'], 'next_taxon')
			if bad:
				return f'query {it["label"]!r}: {bad}'
			if len(j['closest_genomes']) != len(it['closest_genomes']):
				return f'query {it["label"]!r}: {len(j["closest_genomes"])} closest genomes, should be {len(it["closest_genomes"])}'
			for jm, m in zip(j['closest_genomes'], it['closest_genomes']):
				ge = g.genomes[m[0]]
				jg = jm['genome']
				got = (jg['key'], jg['description'], jg['organism'], jg['ncbi_db'], jg['ncbi_id'], jg['genbank_acc'], jg['refseq_acc'], jg['id'])
				want = (ge['key'], ge['description'], ge['organism'], ge['ncbi_db'], ge['ncbi_id'], ge['genbank_acc'], ge['refseq_acc'], ge['id'])
				if got != want:
					return f'query {it["label"]!r}: closest genome {got} should be {want}'
				if not isinstance(jm['distance'], float) or _f32bits(jm['distance']) != _f32bits(m[1]):
					return f'query {it["label"]!r}: distance {jm["distance"]!r} should be {float(m[1])!r}'
				bad = tx(jm['matched_taxon'], m[2], 'matched_taxon')
				lin = g.lineage(ge['taxon'])
				if not bad and len(jg['taxonomy']) != len(lin):
					bad = f'taxonomy {jg["taxonomy"]} should be {lin}'
				for jt, k in zip(jg['taxonomy'], lin):
					bad = bad or tx(jt, k, 'taxonomy entry')
				if bad:
					return f'query {it["label"]!r}: {bad}'
			# cross-format agreement with the CSV cells
			pj = j['predicted_taxon']
			if (pj['name'] if pj else '') != row[1] or (j['next_taxon']['name'] if j['next_taxon'] else '') != row[7]:
				return f'query {it["label"]!r}: JSON and CSV disagree on the reported / next taxon'
	except (KeyError, TypeError, IndexError) as e:
		return f'missing or malformed field: {type(e).__name__}: {e}'
	return None


# ---- building result objects ---------------------------------------------------------------

def _query_sigs(g, spec):
	"""spec: list of [genome key or None, mutation rate, seed] -> signatures"""
	from gambit.sigs.calc import calc_signature
	out = []
	for gk, rate, sd in spec:
		rng = random.Random(f'C11-q-{sd}')
		base = g.seqs[gk] if gk is not None else bytes(rng.choice(b'ACGT') for _ in range(3000))
		out.append(calc_signature(g.kspec, _mutate(rng, base, rate)))
	return out


def _inputs(case):
	from gambit.query import QueryInput
	from gambit.seq import SequenceFile
	out = []
	for lab, f in zip(case['labels'], case['files']):
		out.append(QueryInput(lab, None if f is None else SequenceFile(f[0], f[1], f[2])))
	return out


def run_query(g, case, params=None, inputs=None, extra=None):
	"""real API query described by `case` (strict, report_closest, chunksize, queries, labels, files, extra)
	against the genome set / database `g`.  `params`, `inputs`, `extra` (kind script): caller-owned objects that are
	shared between several queries instead of fresh ones"""
	from gambit.query import query, QueryParams
	gkeys = list(g.genomes)
	spec = [[None if q[0] is None else gkeys[q[0] % len(gkeys)], q[1], q[2]] for q in case['queries']]
	if params is None:
		params = QueryParams(classify_strict=case['strict'], report_closest=case['report_closest'], chunksize=case['chunksize'])
	res = query(g.db, _query_sigs(g, spec), params, inputs=_inputs(case) if inputs is None else inputs)
	res.extra = case.get('extra', {}) if extra is None else extra
	return res


def build_results(g, case):
	"""hand-built results object described by `case` (items, labels, files, params, extra) over the taxa and
	annotated genomes of the genome set `g`"""
	import numpy as np
	from gambit.query import QueryResults, QueryResultItem, QueryParams
	from gambit.classify import ClassifierResult, GenomeMatch
	from gambit.sigs import SignaturesMeta
	from gambit.db import Taxon, AnnotatedGenome, Genome
	ses = g.db.session
	tkeys, gkeys = list(g.taxa), list(g.genomes)

	def T(i):
		return None if i is None else ses.query(Taxon).filter_by(key=tkeys[i % len(tkeys)]).one()

	def M_(m):
		if m is None:
			return None
		ge = ses.query(AnnotatedGenome).join(Genome).filter(AnnotatedGenome.genome_set_id == g.gset['id'],
		                                                    Genome.key == gkeys[m[0] % len(gkeys)]).one()
		d = np.uint32(m[1]).view(np.float32) if m[3] else float(np.uint32(m[1]).view(np.float32))
		return GenomeMatch(genome=ge, distance=d, matched_taxon=T(m[2]))
	items = []
	for it, inp in zip(case['items'], _inputs(case)):
		cr = ClassifierResult(success=it['success'], predicted_taxon=T(it['pred']), primary_match=M_(it['primary']),
		                      closest_match=M_(it['closest']), next_taxon=T(it['next']), warnings=list(it['warnings']), error=it['error'])
		items.append(QueryResultItem(input=inp, classifier_result=cr, report_taxon=T(it['report']),
		                             closest_genomes=[M_(m) for m in it['closest_genomes']]))
	p = case['params']
	return QueryResults(items=items, params=None if p is None else QueryParams(classify_strict=p[0], chunksize=p[1], report_closest=p[2]),
	                    genomeset=g.db.genomeset, signaturesmeta=SignaturesMeta(**g.sigmeta), extra=case.get('extra', {}))


def k_query(ctx, cases):
	"""real API query on a generated database"""
	for case in cases:
		g = get_db(case['db_seed'], case.get('lone_cr'))
		check_results(ctx, 'query', case, g, run_query(g, case))


def k_built(ctx, cases):
	"""hand-built results object (as tests/test_results.py does), arbitrary combinations"""
	for case in cases:
		g = get_db(case['db_seed'], case.get('lone_cr'))
		check_results(ctx, 'built', case, g, build_results(g, case))


def k_multiset(ctx, cases):
	"""a database with several genome sets over shared Genome rows; several result sets (real queries and
	hand-built objects) against them; every result set goes through the per-result checks (three exports, model,
	fresh reader); then the archives are read back by ResultsArchiveReader instances according to `schedule` =
	[[reader number, result set number], ...] (one reader instance per reader number, kept for the whole case)
	and EVERY loaded object must reconstruct its original."""
	from gambit.results import ResultsArchiveWriter, ResultsArchiveReader
	for case in cases:
		mdb = get_mdb(case['db_seed'], case.get('lone_cr'))
		R = []
		for spec in case['results']:
			g = mdb.sets[spec['set'] % len(mdb.sets)]
			R.append((g, run_query(g, spec) if spec['how'] == 'query' else build_results(g, spec)))
		sched = [(r, i % len(R)) for r, i in case['schedule']] if R else []
		sets_of = {}
		for r, i in sched:
			sets_of.setdefault(r, []).append(R[i][0].gset['id'])
		# non-trivial: some reader instance is used for more than one archive
		ctx.case(case, nontrivial=any(len(v) > 1 for v in sets_of.values()))
		if any(len(set(v)) > 1 for v in sets_of.values()):
			ctx.count('multiset:reader-crosses-genome-sets')
		nv = len(ctx.violations)

		def tag(i):
			gs = R[i][0].gset
			return f'result set {i} ({case["results"][i]["how"]}, genome set id {gs["id"]} key {gs["key"]!r} version {gs["version"]!r})'
		texts = []
		for i, (g, res) in enumerate(R):
			check_results(ctx, 'multiset', case, g, res, register=False, where=tag(i) + ': ')
			try:
				texts.append(_export(ResultsArchiveWriter(), res))
			except Exception:
				texts.append(None)       # reported by check_results
		if len(ctx.violations) > nv:
			continue
		readers, hist = {}, {}
		for step, (r, i) in enumerate(sched):
			if texts[i] is None:
				continue
			g, res = R[i]
			if r not in readers:
				readers[r] = ResultsArchiveReader(mdb.session)
				hist[r] = []
			try:
				r2 = readers[r].read(io.StringIO(texts[i]))
			except Exception as e:
				r2 = None
				bad = f'archive cannot be read back: {type(e).__name__}: {e}'
			if r2 is not None:
				bad = compare_loaded(g, abs_results(res), res, r2, abs_results(r2), True)
			if bad:
				ctx.violation('multiset', case, f'schedule step {step}: reader instance {r}, which had read the archives of result sets {hist[r]} before, '
				              f'reads the archive of {tag(i)}: {bad}', impl=texts[i][:2000])
				break
			hist[r].append(i)


def k_lonecr(ctx, cases):
	"""the designated input of DESIGN.md 6-i: one real query whose label contains a lone CR"""
	from gambit.query import query, QueryParams
	for case in cases:
		g = get_db(0, False)
		gk = list(g.genomes)[0]
		res = query(g.db, _query_sigs(g, [[gk, 0.01, 1]]), QueryParams(), inputs=[case['label']])
		check_results(ctx, 'lonecr', case, g, res)


def k_chunknone(ctx, cases):
	"""the designated input of the second defect: parameters with chunksize=None (documented as
	"no chunking") written to an archive and read back"""
	from gambit.query import query, QueryParams
	for case in cases:
		g = get_db(0, False)
		gk = list(g.genomes)[0]
		res = query(g.db, _query_sigs(g, [[gk, 0.01, 1]]), QueryParams(chunksize=case['chunksize']), inputs=[case['label']])
		check_results(ctx, 'chunknone', case, g, res)


def k_cli(ctx, cases):
	"""gambit -d DB query -o FILE -f FMT [--strict] FILES: outputs vs an API query on the same files.
	case['pathform'] (default 'abs') is the way the query files are NAMED on the command line; the files themselves always
	sit in the case's scratch directory Q:
	  abs       positional arguments Q/<label>.fasta
	  dotdot    positional arguments Q/sub/../<label>.fasta (an up-level component in the middle; Q/sub exists)
	  listfile  -l LIST --ldir Q/sub with the lines ../<label>.fasta: the documented meaning of --ldir ("parent directory of
	            paths in LISTFILE") makes the source file of each query Q/sub/../<label>.fasta
	In every form the source file the exports must carry is the path as named (pathlib keeps an interior '..': collapsing it
	changes the file that is meant when the component before it is a symbolic link)."""
	import click.testing
	import gambit.cli
	from gambit.query import query_parse, QueryParams
	from gambit.seq import SequenceFile
	for case in cases:
		g = get_db(case['db_seed'], case.get('lone_cr'))
		gkeys = list(g.genomes)
		qdir = os.path.join(STATE['scratch'], f'q{len(os.listdir(STATE["scratch"]))}')
		os.makedirs(qdir)
		form = case.get('pathform', 'abs')
		sub = os.path.join(qdir, 'sub')
		if form != 'abs':
			os.makedirs(sub)
			ctx.count('cli:pathform-' + form)
		paths, lines = [], []
		for (gi, rate, sd), lab in zip(case['queries'], case['labels']):
			rng = random.Random(f'C11-q-{sd}')
			base = g.seqs[gkeys[gi % len(gkeys)]] if gi is not None else bytes(rng.choice(b'ACGT') for _ in range(3000))
			p = os.path.join(qdir, lab + '.fasta')
			with open(p, 'wb') as f:
				f.write(b'>s1 x\n' + _mutate(rng, base, rate) + b'\n')
			if form != 'abs':
				lines.append('../' + lab + '.fasta')
				p = sub + '/../' + lab + '.fasta'
			paths.append(p)
		file_args = paths
		if form == 'listfile':
			listpath = os.path.join(qdir, 'list.txt')
			with open(listpath, 'w') as f:         # default encoding, as click.File('r') reads it
				f.write(''.join(ln + '\n' for ln in lines))
			file_args = ['-l', listpath, '--ldir', sub]
		files = [SequenceFile(p, 'fasta', 'auto') for p in paths]
		ref = query_parse(g.db, files, QueryParams(classify_strict=case['strict']), file_labels=case['labels'])
		texts = {}
		for fmt in ('csv', 'json', 'archive'):
			out = os.path.join(qdir, 'out.' + fmt)
			args = ['-d', g.dir, 'query', '-o', out, '-f', fmt, '--no-progress'] + (['--strict'] if case['strict'] else []) + file_args
			r = click.testing.CliRunner().invoke(gambit.cli.cli, args)
			if r.exit_code != 0:
				ctx.violation('cli', case, f'gambit query -f {fmt} failed: exit {r.exit_code} {r.output[-300:]!r} {r.exception!r}')
				texts = None
				break
			with open(out, newline='') as f:
				texts[fmt] = f.read()
		shutil.rmtree(qdir, ignore_errors=True)
		if texts is None:
			ctx.case(case, nontrivial=False)
			continue
		# the three runs have their own timestamps: take each from its output, check one format at a time
		import datetime
		for fmt in ('csv', 'json', 'archive'):
			t = texts[fmt]
			if fmt != 'csv':
				try:
					ref.timestamp = datetime.datetime.fromisoformat(json.loads(t)['timestamp'])
				except Exception:
					pass
			check_results(ctx, 'cli', case, g, ref, texts={fmt: t})


# ---- CPython csv / json vs the model -------------------------------------------------------

class _RowsResults:
	def __init__(self, rows):
		self.items = rows


def _rows_exporter():
	from gambit.results import CSVResultsExporter

	class RowsExporter(CSVResultsExporter):
		"""the exporter's own writer configuration and export loop on arbitrary rows"""
		def __init__(self, header):
			super().__init__()
			self._header = header

		def get_header(self):
			return self._header

		def get_row(self, item):
			return item
	return RowsExporter


def k_rows(ctx, cases):
	"""rows of strings through CSVResultsExporter.export (first row plays the header)"""
	RowsExporter = _rows_exporter()
	if STATE.get('script_violation') and not ctx.replaying:
		ctx.count('skipped:rows-after-a-sequence-violation', len(cases))        # see check_results
		return
	reqs = []
	for case in cases:
		rows = [[S(f) for f in r] for r in case['rows']]
		reqs += [(1102, rows), (1101, rows), (1112, rows)]
	ans = ctx.model(reqs) if ctx.model_ok else None
	for i, case in enumerate(cases):
		rows = case['rows']
		t = _export(RowsExporter(rows[0]), _RowsResults(rows[1:]))
		ctx.case(case, nontrivial=any(any(c in f for c in ',"\n\r') for r in rows for f in r))
		try:
			back = _parse_csv(t)
		except csv.Error as e:
			back = f'csv.Error: {e}'
		fixed = old = crok = None
		if ans:
			fixed, old, crok = U(ans[3 * i]), U(ans[3 * i + 1]), bool(ans[3 * i + 2])
		if back != rows:
			ctx.violation('rows', case, f'rows {rows!r} are written as {t!r} and read back as {back!r}', impl=t, spec=rows, model=fixed)
			continue
		if ans is None:
			continue
		if t != fixed:
			ctx.broke('correspondence cpython-csv (writer, byte-for-byte)', f'rows {rows!r}: impl {t!r} model {fixed!r}')
		if crok and old != fixed:
			ctx.broke('correspondence cpython-csv (old and repaired writer agree when no lone CR)', f'rows {rows!r}')
		if crok != all((('\r' not in f) or any(c in f for c in ',"\n')) for r in rows for f in r):
			ctx.broke('correspondence cpython-csv (side condition)', f'rows {rows!r}')


def k_csvtext(ctx, cases):
	"""arbitrary text through csv.reader(newline='') vs the model reader"""
	ans = ctx.model([(1103, S(c['text'])) for c in cases]) if ctx.model_ok else None
	for i, case in enumerate(cases):
		t = case['text']
		ctx.case(case, nontrivial=len(t) >= 2 and any(c in t for c in '"\r\n'))
		try:
			py = _parse_csv(t)
		except csv.Error as e:
			py = f'csv.Error: {e}'
		if ans is not None:
			m = [[U(f) for f in r] for r in ans[i]]
			if m != py:
				ctx.broke('correspondence cpython-csv (reader)', f'text {t!r}: csv.reader {py!r} model {m!r}')


def k_jsonstr(ctx, cases):
	"""json.dumps / json.loads of one string vs the model; strings are lists of code points"""
	dec = json.JSONDecoder()
	reqs = []
	for case in cases:
		reqs += [(1104, case['s']), (1113, case['s'])]
	ans = ctx.model(reqs) if ctx.model_ok else None
	lits = []
	for i, case in enumerate(cases):
		s = U(case['s'])
		lit = json.dumps(s)
		lits.append(lit + case.get('tail', ''))
		ctx.case(case, nontrivial=any(c > 126 or c < 32 or c in (34, 92) for c in case['s']))
		ok = json.loads(lit) == s
		if ans is None:
			continue
		if U(ans[2 * i]) != lit:
			ctx.broke('correspondence cpython-json (string writer)', f'{case["s"]}: json.dumps {lit!r} model {U(ans[2 * i])!r}')
		if bool(ans[2 * i + 1]) != ok:
			ctx.broke('correspondence cpython-json (round trip condition)', f'{case["s"]}: json round trip {ok}, str_ok {ans[2 * i + 1]}')
	if ans is not None:
		back = ctx.model([(1105, S(l)) for l in lits])
		for case, l, b in zip(cases, lits, back):
			try:
				v, end = dec.raw_decode(l)
				py = [0, [S(v), S(l[end:])]]
			except ValueError:
				py = 'error'
			if (b if b[0] == 0 else 'error') != py:
				ctx.broke('correspondence cpython-json (string scanner)', f'{l!r}: json {py} model {b}')


def k_jsontext(ctx, cases):
	"""arbitrary text after an opening quote through the scanner"""
	dec = json.JSONDecoder()
	ans = ctx.model([(1105, S(c['text'])) for c in cases]) if ctx.model_ok else None
	for i, case in enumerate(cases):
		l = case['text']
		ctx.case(case, nontrivial='\\' in l)
		try:
			v, end = dec.raw_decode(l)
			py = [0, [S(v), S(l[end:])]] if isinstance(v, str) else 'error'
		except ValueError:
			py = 'error'
		if ans is not None and (ans[i] if ans[i][0] == 0 else 'error') != py:
			ctx.broke('correspondence cpython-json (string scanner)', f'{l!r}: json {py} model {ans[i]}')


# ---- sequences of calls over shared objects (state and aliasing) ----------------------------

# exporter options of the script stream.  Every non-default entry quotes a carriage return whatever else the field holds
# (QUOTE_ALL / QUOTE_NONNUMERIC, or CR is part of the line terminator), so that the known lone-CR defect (DESIGN.md 6-i:
# 'mixed\r,x' is only quoted by the default dialect because of its comma) is not re-reported through other delimiters
CSV_OPTS = [{}, {}, {}, {'quoting': 'all'}, {'delimiter': ';', 'lineterminator': '\r\n'}, {'lineterminator': '\r\n'},
            {'quotechar': "'", 'delimiter': '\t', 'lineterminator': '\r\n'}, {'quoting': 'nonnumeric'}, {'dialect': 'unix'}, {'dialect': 'excel-tab'}]
_QUOTING = {'minimal': csv.QUOTE_MINIMAL, 'all': csv.QUOTE_ALL, 'nonnumeric': csv.QUOTE_NONNUMERIC}


def _csv_kwargs(opts):
	kw = dict(opts)
	if 'quoting' in kw:
		kw['quoting'] = _QUOTING[kw['quoting']]
	return kw


def _csv_reader_kwargs(opts):
	"""what a reader of the file has to be told: the delimiter / quote character / dialect the exporter was
	constructed with (quoting style and line terminator are transparent to csv.reader on a newline='' stream)"""
	return {k: v for k, v in opts.items() if k in ('dialect', 'delimiter', 'quotechar')}


def _make_exporter(fmt, opts):
	from gambit.results import CSVResultsExporter, JSONResultsExporter, ResultsArchiveWriter
	if fmt == 'csv':
		return CSVResultsExporter(**_csv_kwargs(opts))
	return (JSONResultsExporter if fmt == 'json' else ResultsArchiveWriter)(pretty=bool(opts.get('pretty', False)))


def _exporter_config(ex):
	"""the public, documented configuration of an exporter instance"""
	import copy
	return copy.deepcopy(getattr(ex, 'format_opts', None)), getattr(ex, 'pretty', None)


class _FailingStream(io.StringIO):
	"""a caller-supplied text stream whose write() raises OSError once `limit` characters have been accepted"""

	def __init__(self, limit):
		super().__init__()
		self.limit = limit

	def write(self, s):
		room = self.limit - self.tell()
		if len(s) > room:
			super().write(s[:max(0, room)])
			raise OSError(f'harness: the output stream failed after {self.limit} characters')
		return super().write(s)


class _BoomList(list):
	"""a caller-supplied container of result items whose iteration raises after `limit` items"""

	def __init__(self, items, limit):
		super().__init__(items)
		self.limit = limit

	def __iter__(self):
		for n, x in enumerate(list.__iter__(self)):
			if n >= self.limit:
				raise RuntimeError(f'harness: the items container failed after {self.limit} items')
			yield x


class _Unserialisable:
	pass


def _call(fn, thread):
	"""fn() in this thread, or in a worker thread that is joined at once (a sequential call from a second thread)"""
	if not thread:
		return fn()
	import threading
	box = {}

	def run():
		try:
			box['v'] = fn()
		except BaseException as e:
			box['e'] = e
	t = threading.Thread(target=run)
	t.start()
	t.join()
	if 'e' in box:
		raise box['e']
	return box['v']


def _dist_token(d):
	import numpy as np
	return (type(d).__name__, _f32bits(d) if isinstance(d, np.floating) else float(d).hex())


def _snapshot(res):
	"""everything observable of a caller-owned results object that the exports / the equality of the archive clause
	depend on: the abstraction (keys, labels, files, flags, warnings, errors, params, version, timestamp, extra),
	the type and bits of every distance, the identity of the item / params / genome set / metadata objects"""
	import copy
	try:
		a = abs_results(res)
		for it in a['items']:
			it['closest'] = it['closest'][:1] + (_dist_token(it['closest'][1]),) + it['closest'][2:]
			if it['primary'] is not None:
				it['primary'] = it['primary'][:1] + (_dist_token(it['primary'][1]),) + it['primary'][2:]
			it['closest_genomes'] = [m[:1] + (_dist_token(m[1]),) + m[2:] for m in it['closest_genomes']]
		a['extra'] = copy.deepcopy(a['extra'])
		ids = ([id(it) for it in res.items], [id(it.input) for it in res.items], [id(it.classifier_result) for it in res.items],
		       id(res.items), id(res.params), id(res.genomeset), id(res.signaturesmeta), id(res.extra))
		meta = res.signaturesmeta
		return dict(a=a, ids=ids, attrs=sorted(vars(res)), meta=None if meta is None else copy.deepcopy(vars(meta)))
	except Exception as e:
		return dict(error=f'{type(e).__name__}: {e}')


def _snap_diff(s0, s1):
	if 'error' in s1:
		return f'it can no longer be inspected ({s1["error"]})'
	for k in ('attrs', 'ids', 'meta'):
		if s0[k] != s1[k]:
			return {'attrs': f'its attributes are now {s1["attrs"]} (were {s0["attrs"]})',
			        'ids': 'the item list / an item / input / classifier result / params / genome set / metadata / extra OBJECT was replaced by another one',
			        'meta': f'signatures metadata {s0["meta"]} -> {s1["meta"]}'}[k]
	a0, a1 = s0['a'], s1['a']
	for k in a0:
		if k != 'items' and a0[k] != a1[k]:
			return f'{k}: {a0[k]!r} -> {a1[k]!r}'
	if len(a0['items']) != len(a1['items']):
		return f'{len(a0["items"])} items -> {len(a1["items"])} items'
	for n, (i0, i1) in enumerate(zip(a0['items'], a1['items'])):
		for k in i0:
			if i0[k] != i1[k]:
				return f'item {n} ({i0["label"]!r}): {k}: {i0[k]!r} -> {i1[k]!r}'
	return None


def _session_state(ses):
	return (len(ses.new), len(ses.dirty), len(ses.deleted))


def _judge_export(ctx, g, res, base, fmt, opts, text):
	"""property predicate for the text an export step produced (exporter options `opts`) for the result set `res`
	whose single-call baseline (check_results) is `base`.  Returns (violation text or None, tie text or None)."""
	from gambit.results import ResultsArchiveReader
	a, exp_rows = base['a'], base['exp_rows']
	plain = not opts
	ref = base['texts'].get(fmt)
	if fmt == 'csv':
		try:
			back = list(csv.reader(io.StringIO(text, newline=''), **_csv_reader_kwargs(opts)))
		except csv.Error as e:
			back = f'csv.Error: {e}'
		if back != exp_rows:
			return (f'CSV export (exporter options {opts}) does not parse back to header + one row per query with the documented cells: '
			        f'got {back!r}, expected {exp_rows!r} (output {text!r})'), None
		return None, ('plain CSV export differs from the first export of the same result set' if plain and ref is not None and text != ref else None)
	try:
		d = json.loads(text)
	except ValueError as e:
		return f'{fmt} export (exporter options {opts}): not valid JSON: {e} (output {text[:300]!r})', None
	tie = None
	if ref is not None:
		if plain and text != ref:
			tie = f'plain {fmt} export differs from the first export of the same result set'
		elif not plain and d != json.loads(ref):
			tie = f'pretty {fmt} export does not carry the same data as the compact one'
	if fmt == 'json':
		bad = _check_json(g, a, d, exp_rows)
		return (f'JSON export (exporter options {opts}): {bad}' if bad else None), tie
	if plain and ref is not None and text == ref:
		return None, None       # this very text was read back and compared by the baseline
	try:
		r2 = ResultsArchiveReader(g.db.session).read(io.StringIO(text))
	except Exception as e:
		return f'archive (exporter options {opts}) cannot be read back: {type(e).__name__}: {e}', tie
	bad = compare_loaded(g, a, res, r2, abs_results(r2), True)
	return (f'archive (exporter options {opts}): {bad}' if bad else None), tie


def _bad_archive(how, text, foreign):
	"""an archive that cannot be read: ('text', str) or ('data', dict) or None when this result set offers no such corruption"""
	if how == 'truncated':
		return 'text', text[:max(1, (2 * len(text)) // 3)]
	if how == 'foreign':
		return None if foreign is None else ('text', foreign)
	d = json.loads(text)
	if how == 'unknown-genomeset':
		d['genomeset']['key'] = d['genomeset']['key'] + ' (no such set)'
	elif how == 'unknown-genome-last':
		d['items'][-1]['classifier_result']['closest_match']['genome']['key'] = 'no such genome'
	elif how == 'unknown-genome-first':
		d['items'][0]['classifier_result']['closest_match']['genome']['key'] = 'no such genome'
	elif how == 'unknown-taxon-last':
		m = d['items'][-1]['classifier_result']['closest_match']
		m['matched_taxon'] = {'key': 'no such taxon'}
	elif how == 'bad-timestamp':
		d['timestamp'] = 'not a date'
	else:
		raise ValueError(how)
	return 'data', d


def k_script(ctx, cases):
	"""a short script of export / read calls over a small pool of SHARED caller objects: result sets against the genome
	sets of one database file and (optionally) a second database of another size (twins share labels, the QueryParams
	object, the list of QueryInput objects and the extra dict), exporter instances created lazily in step order (CSV ones
	with various format options, JSON / archive ones compact or pretty), two reader instances per session, one shared
	output stream, two output paths, one parsed archive dict per result set.  Steps:
	  export     exporter e writes result set i to a fresh stream / appended to the shared stream / to path 0 or 1
	             (possibly from a worker thread); the text is judged by the property predicate for its format
	  read       reader r reads the archive of result set i (text, pretty text, the shared parsed dict through
	             results_from_json, or a path); the object must reconstruct the original
	  badexport  an export that fails part-way (stream raising after n characters, items container raising after n
	             items, an unserialisable extra value) on objects shared with the other steps; outcome not judged
	  badread    a read that fails (truncated text, unknown genome set, unknown genome in the first / last item,
	             unknown taxon, bad timestamp, an archive of the other database); outcome not judged
	After EVERY step: all result sets, the shared parameter / input / extra objects, the parsed dicts, the exporters'
	public configuration and CSVResultsExporter.COLUMNS are unchanged (snapshots taken before the first call) and no
	session has new / dirty / deleted objects.  Finally each result set is exported once more with fresh default
	exporters and must give the baseline texts."""
	import copy
	import pathlib
	import attr
	from gambit.query import QueryParams
	from gambit.results import CSVResultsExporter, JSONResultsExporter, ResultsArchiveWriter, ResultsArchiveReader
	# the runner shrinks a failing case in THIS process, after the campaign: a change that keeps state at module / class / thread
	# level has polluted the process by then, and a shrunk variant that only fails its single calls on fresh objects would not
	# reproduce in a fresh process.  While shrinking, a variant that already fails there is therefore inconclusive (not failing).
	shrinking = ctx.replaying and STATE.get('campaign')
	for case in cases:
		if STATE.get('script_violation') and not ctx.replaying:
			ctx.count('script:skipped-after-first-script-violation')      # later cases may only see the state the first one left
			continue
		nv0 = len(ctx.violations)
		_k_script_case(ctx, case, shrinking)
		if len(ctx.violations) > nv0 and not ctx.replaying:
			STATE['script_violation'] = True


def _k_script_case(ctx, case, shrinking):
	import copy
	import pathlib
	import attr
	from gambit.query import QueryParams
	from gambit.results import CSVResultsExporter, JSONResultsExporter, ResultsArchiveWriter, ResultsArchiveReader
	for case in [case]:     # (a loop of one, so that `continue` leaves the case)
		mdb = get_mdb(case['db_seed'], case.get('lone_cr'))
		pools = list(mdb.sets)
		if case.get('db2') is not None:
			pools.append(get_db(case['db2'], case.get('lone_cr')))
		specs = case.get('results') or []
		exporters = [e for e in (case.get('exporters') or []) if isinstance(e, list) and len(e) == 2 and e[0] in ('csv', 'json', 'archive')]
		steps = case.get('steps') or []
		if not specs:
			ctx.case(case, nontrivial=False)
			continue
		# ---- the shared caller objects
		P, I, E, R = {}, {}, {}, []
		for spec in specs:
			g = pools[spec['set'] % len(pools)]
			if spec['how'] == 'query':
				pk = (spec['strict'], spec['chunksize'], spec['report_closest'])
				if pk not in P:
					P[pk] = QueryParams(classify_strict=pk[0], chunksize=pk[1], report_closest=pk[2])
				ik = json.dumps([spec['labels'], spec['files']])
				if ik not in I:
					I[ik] = _inputs(spec)
				ek = json.dumps(spec.get('extra', {}), sort_keys=True)
				if ek not in E:
					E[ek] = copy.deepcopy(spec.get('extra', {}))
				inputs0 = list(I[ik])
				res = run_query(g, spec, params=P[pk], inputs=I[ik], extra=E[ek])
				if len(I[ik]) != len(inputs0) or any(x is not y for x, y in zip(I[ik], inputs0)):
					ctx.violation('script', case, f'query() modified the list of inputs it was given: {inputs0} -> {I[ik]}')
			else:
				res = build_results(g, copy.deepcopy(spec))
			R.append((g, res))
		sessions = []
		for g, _ in R:
			if not any(g.db.session is s for s in sessions):
				sessions.append(g.db.session)
		ses0 = [_session_state(s) for s in sessions]
		snaps = [_snapshot(res) for _, res in R]
		params0 = {pk: attr.astuple(p) for pk, p in P.items()}
		columns0 = copy.deepcopy(CSVResultsExporter.COLUMNS)

		# ---- non-triviality: some exporter / reader / result set is shared by two steps
		use = {}
		follow = False
		prev_bad = None
		for st in steps:
			keys = [('rs', st['rs'] % len(R))]
			if st['op'] in ('export', 'badexport') and exporters:
				keys.append(('ex', st['ex'] % len(exporters)))
			if st['op'] in ('read', 'badread'):
				keys.append(('rd', st['rd'] % 2, id(R[st['rs'] % len(R)][0].db.session)))
			for k in keys:
				use.setdefault(k, []).append(st['rs'] % len(R))
			if st['op'] in ('export', 'read') and prev_bad is not None and prev_bad in keys[1:]:
				follow = True
			prev_bad = keys[-1] if st['op'] in ('badexport', 'badread') and len(keys) > 1 else None
		ctx.case(case, nontrivial=any(len(v) > 1 for v in use.values()))
		if follow:
			ctx.count('script:good-call-after-failed-call-on-same-object')
		if any(k[0] in ('ex', 'rd') and len({id(R[i][0]) for i in v}) > 1 for k, v in use.items()):
			ctx.count('script:exporter-or-reader-crosses-genome-sets-or-databases')

		# ---- single-call baseline of every result set (fresh exporters, model, fresh reader)
		nv = len(ctx.violations)
		B = []
		for i, (g, res) in enumerate(R):
			B.append(check_results(ctx, 'script', case, g, res, register=False, where=f'result set {i} (single calls on fresh objects): ', model=i == 0))
		if len(ctx.violations) > nv or any(not all(f in b['texts'] for f in ('csv', 'json', 'archive')) for b in B):
			if shrinking:
				del ctx.violations[nv:]
			continue

		EX, EX0, RD, D, D0, first = {}, {}, {}, {}, {}, {}
		shared = io.StringIO()
		STATE['ndir'] = STATE.get('ndir', 0) + 1
		cdir = os.path.join(STATE['scratch'], f'script{STATE["ndir"]}')
		os.makedirs(cdir)
		paths = [os.path.join(cdir, 'out é0.txt'), pathlib.Path(cdir) / 'out1.txt']

		def invariants():
			for i, (g, res) in enumerate(R):
				d = _snap_diff(snaps[i], _snapshot(res))
				if d:
					return f'the results object of result set {i} was modified: {d}'
			for pk, p in P.items():
				if attr.astuple(p) != params0[pk]:
					return f'the shared QueryParams object {params0[pk]} was modified: now {attr.astuple(p)}'
			for s, s0 in zip(sessions, ses0):
				if _session_state(s) != s0:
					return (f'the database session now holds new / dirty / deleted objects {_session_state(s)} (before: {s0}): '
					        f'{[repr(o)[:80] for o in list(s.new) + list(s.dirty) + list(s.deleted)][:4]}')
			for k, ex in EX.items():
				if _exporter_config(ex) != EX0[k]:
					return f'the configuration of exporter {k} {exporters[k]} changed: {EX0[k]} -> {_exporter_config(ex)}'
			for i in D:
				if D[i] != D0[i]:
					return f'the parsed archive dict of result set {i} that was handed to results_from_json was modified'
			if CSVResultsExporter.COLUMNS != columns0:
				return f'CSVResultsExporter.COLUMNS was modified: {CSVResultsExporter.COLUMNS}'
			return None

		bad = invariants()
		if bad:
			ctx.violation('script', case, f'after the single calls on fresh objects (three exports by fresh exporters, one read by a fresh reader): {bad}')
			continue

		failed = False
		for n, st in enumerate(steps):
			i = st['rs'] % len(R)
			g, res = R[i]
			base = B[i]
			op = st['op']
			what = None
			if op in ('export', 'badexport'):
				if not exporters:
					continue
				k = st['ex'] % len(exporters)
				fmt, opts = exporters[k]
				if k not in EX:
					EX[k] = _make_exporter(fmt, opts)
					EX0[k] = _exporter_config(EX[k])
				ex = EX[k]
				desc = f'step {n}: {op} of result set {i} by exporter {k} {fmt} {opts}'
				if op == 'export':
					to = st.get('to', 'mem')
					try:
						if to == 'append':
							before = shared.getvalue()
							_call(lambda: ex.export(shared, res), st.get('thread'))
							text = shared.getvalue()
							if not text.startswith(before):
								what = 'the export changed what the shared output stream already held'
							text = text[len(before):]
						elif to in ('path0', 'path1'):
							p = paths[to == 'path1']
							_call(lambda: ex.export(p, res), st.get('thread'))
							with open(p, newline='') as f:
								text = f.read()
						else:
							buf = io.StringIO()
							_call(lambda: ex.export(buf, res), st.get('thread'))
							text = buf.getvalue()
					except Exception as e:
						what = f'raised {type(e).__name__}: {e}'
					if what is None:
						what, tie = _judge_export(ctx, g, res, base, fmt, opts, text)
						fk = (fmt, json.dumps(opts, sort_keys=True), i)
						if what is None and first.setdefault(fk, text) != text:
							tie = tie or 'the same export with the same options gave two different texts'
						if what is None and tie:
							ctx.broke('script: same call, same result', f'case {case}: {desc} (to {to}): {tie}')
					desc += f' (to {to}{", worker thread" if st.get("thread") else ""})'
				else:
					how = st.get('how')
					lim = st.get('limit', 0)
					try:
						if how == 'stream':
							ex.export(_FailingStream(lim % (len(base['texts'][fmt]) + 1)), res)
						elif how == 'items':
							ex.export(io.StringIO(), attr.evolve(res, items=_BoomList(res.items, lim % (len(res.items) + 1))))
						else:
							ex.export(io.StringIO(), attr.evolve(res, extra={'x': _Unserialisable()}))
						ctx.count('script:bad-export-did-not-raise')
					except Exception:
						ctx.count('script:bad-export-raised')
					desc += f' ({how}, limit {lim})'
			elif op in ('read', 'badread'):
				rk = (st['rd'] % 2, id(g.db.session))
				if rk not in RD:
					RD[rk] = ResultsArchiveReader(g.db.session)
				rd = RD[rk]
				desc = f'step {n}: {op} of the archive of result set {i} by reader {st["rd"] % 2} of its session'
				text = base['texts']['archive']
				if op == 'read':
					via = st.get('via', 'text')
					r2 = None
					try:
						if via == 'data':
							if i not in D:
								D[i] = json.loads(text)
								D0[i] = copy.deepcopy(D[i])
							r2 = rd.results_from_json(D[i])
						elif via == 'path':
							p = paths[1]
							with open(p, 'w') as f:
								f.write(text)
							r2 = rd.read(p)
						elif via == 'pretty':
							r2 = rd.read(io.StringIO(_export(ResultsArchiveWriter(pretty=True), res)))
						else:
							r2 = rd.read(io.StringIO(text))
					except Exception as e:
						what = f'archive cannot be read back: {type(e).__name__}: {e}'
					if r2 is not None:
						what = compare_loaded(g, base['a'], res, r2, abs_results(r2), True)
					desc += f' (via {via})'
				else:
					how = st.get('how')
					foreign = next((b['texts']['archive'] for (g2, _), b in zip(R, B) if g2.db.session is not g.db.session), None)
					try:
						ba = _bad_archive(how, text, foreign)
					except (KeyError, IndexError, TypeError, ValueError):
						ba = None
					if ba is None:
						continue
					try:
						rd.read(io.StringIO(ba[1])) if ba[0] == 'text' else rd.results_from_json(ba[1])
						ctx.count('script:bad-read-did-not-raise')
					except Exception:
						ctx.count('script:bad-read-raised')
					desc += f' ({how})'
			else:
				continue
			if what is None:
				inv = invariants()
				if inv:
					what = f'afterwards {inv}'
			if what:
				ctx.violation('script', case, f'{desc}: {what}')
				failed = True
				break
		if not failed:
			# every result set once more through fresh default exporters: nothing observable has drifted
			for i, (g, res) in enumerate(R):
				for fmt, ex in (('csv', CSVResultsExporter()), ('json', JSONResultsExporter()), ('archive', ResultsArchiveWriter())):
					try:
						text = _export(ex, res)
						what, tie = (None, None) if text == B[i]['texts'][fmt] else _judge_export(ctx, g, res, B[i], fmt, {}, text)
					except Exception as e:
						what, tie = f'raised {type(e).__name__}: {e}', None
					if what:
						ctx.violation('script', case, f'after all {len(steps)} steps, {fmt} export of result set {i} by a fresh default exporter: {what}')
						failed = True
					elif tie:
						ctx.broke('script: same call, same result', f'case {case}: after all steps, fresh default {fmt} export of result set {i}: {tie}')
				if failed:
					break
		shutil.rmtree(cdir, ignore_errors=True)


def k_cliseq(ctx, cases):
	"""several `gambit -d DB query -o OUT -f FMT [--strict] FILES` invocations in ONE process: the same query files against two
	databases of different size in an order given by the case (A, B, A ...), formats and --strict varying, every invocation
	writing to the SAME output path, and invocations that fail part-way in between (a missing file / a file that is no
	sequence file in the middle of the file list: the database is loaded and the output file is already opened by then).  Every
	successful invocation is judged exactly like kind cli (against an API query on the same files); failing ones are not judged."""
	import datetime
	import click.testing
	import gambit.cli
	from gambit.query import query_parse, QueryParams
	from gambit.seq import SequenceFile
	for case in cases:
		if STATE.get('script_violation') and not ctx.replaying:
			ctx.count('cliseq:skipped-after-first-sequence-violation')
			continue
		gs = [get_db(sd, case.get('lone_cr')) for sd in case['dbs']]
		if not gs or not case['labels']:
			ctx.case(case, nontrivial=False)
			continue
		STATE['ndir'] = STATE.get('ndir', 0) + 1
		qdir = os.path.join(STATE['scratch'], f'qs{STATE["ndir"]}')
		os.makedirs(qdir)
		g0 = gs[0]
		gkeys = list(g0.genomes)
		paths = []
		for (gi, rate, sd), lab in zip(case['queries'], case['labels']):
			rng = random.Random(f'C11-q-{sd}')
			base = g0.seqs[gkeys[gi % len(gkeys)]] if gi is not None else bytes(rng.choice(b'ACGT') for _ in range(3000))
			p = os.path.join(qdir, lab + '.fasta')
			with open(p, 'wb') as f:
				f.write(b'>s1 x\n' + _mutate(rng, base, rate) + b'\n')
			paths.append(p)
		garbage = os.path.join(qdir, 'garbage.fasta')
		with open(garbage, 'wb') as f:
			f.write(b'this is no sequence file\n\x00\x01')
		out = os.path.join(qdir, 'out.txt')
		good = [st for st in case['steps'] if not st.get('fail')]
		ctx.case(case, nontrivial=len(good) >= 2)
		if len({st['db'] % len(gs) for st in good}) > 1:
			ctx.count('cliseq:two-databases-in-one-process')
		refs = {}
		seen_fail = False
		for n, st in enumerate(case['steps']):
			g = gs[st['db'] % len(gs)]
			sel = [i % len(paths) for i in st['files']]
			sel = [i for k, i in enumerate(sel) if i not in sel[:k]]
			if not sel:
				continue
			fpaths = [paths[i] for i in sel]
			labels = [case['labels'][i] for i in sel]
			fail = st.get('fail')
			if fail:
				fpaths = fpaths[:1] + [os.path.join(qdir, 'missing.fasta') if fail == 'missing' else garbage] + fpaths[1:]
			fmt = st['fmt']
			args = ['-d', g.dir, 'query', '-o', out, '-f', fmt, '--no-progress'] + (['--strict'] if st['strict'] else []) \
				+ (['-c', str(st['cores'])] if st.get('cores') else []) + fpaths
			r = click.testing.CliRunner().invoke(gambit.cli.cli, args)
			if fail:
				ctx.count('cliseq:failing-invocation-exit-nonzero' if r.exit_code != 0 else 'cliseq:failing-invocation-exit-zero')
				seen_fail = True
				continue
			if seen_fail:
				ctx.count('cliseq:good-invocation-after-failed-one')
			where = f'invocation {n} ({fmt}{", --strict" if st["strict"] else ""}, database {st["db"] % len(gs)}, files {sel}): '
			if r.exit_code != 0:
				ctx.violation('cliseq', case, where + f'gambit query failed: exit {r.exit_code} {r.output[-300:]!r} {r.exception!r}')
				if not ctx.replaying:
					STATE['script_violation'] = True
				break
			with open(out, newline='') as f:
				t = f.read()
			rk = (st['db'] % len(gs), bool(st['strict']), tuple(sel))
			if rk not in refs:
				refs[rk] = query_parse(g.db, [SequenceFile(p, 'fasta', 'auto') for p in fpaths], QueryParams(classify_strict=bool(st['strict'])), file_labels=labels,
				                       parse_kw=dict(concurrency=None))
			ref = refs[rk]
			if fmt != 'csv':
				try:
					ref.timestamp = datetime.datetime.fromisoformat(json.loads(t)['timestamp'])
				except Exception:
					pass
			nv = len(ctx.violations)
			check_results(ctx, 'cliseq', case, g, ref, texts={fmt: t}, register=False, where=where)
			if len(ctx.violations) > nv:
				if not ctx.replaying:
					STATE['script_violation'] = True
				break
		shutil.rmtree(qdir, ignore_errors=True)


# ---- the DIALECT dimension of the CSV export ------------------------------------------------

_QUOTING_D = {'minimal': csv.QUOTE_MINIMAL, 'all': csv.QUOTE_ALL, 'nonnumeric': csv.QUOTE_NONNUMERIC, 'none': csv.QUOTE_NONE}
for _n in ('strings', 'notnull'):       # Python >= 3.12
	if hasattr(csv, 'QUOTE_' + _n.upper()):
		_QUOTING_D[_n] = getattr(csv, 'QUOTE_' + _n.upper())
_QUOTING_NAME = {v: k for k, v in _QUOTING_D.items()}
STD_DIALECTS = {'excel': csv.excel, 'excel-tab': csv.excel_tab, 'unix': csv.unix_dialect}
_EXCEL = dict(delimiter=',', quotechar='"', escapechar=None, doublequote=True, skipinitialspace=False, lineterminator='\r\n', quoting='minimal')
# harness dialects (attributes not named are those of 'excel'); every one can represent every string
HARNESS_DIALECTS = [
	dict(delimiter='\t', quoting='none', escapechar='\\', lineterminator='\n'),                          # escape-based TSV
	dict(delimiter='\t', quoting='none', escapechar='\\', quotechar=None, lineterminator='\r\n'),
	dict(delimiter='|', quoting='none', escapechar='!', lineterminator='\r\n'),
	dict(delimiter=';', quoting='all', lineterminator='\r\n'),
	dict(delimiter='\t', quoting='all', quotechar="'", lineterminator='\n'),
	dict(delimiter='|', quoting='nonnumeric', lineterminator='\n'),
	dict(delimiter=';', quoting='nonnumeric', quotechar="'", doublequote=False, escapechar='\\', lineterminator='\r\n'),
	dict(delimiter=',', quoting='minimal', doublequote=False, escapechar='\\', lineterminator='\r\n'),
	dict(delimiter=';', quoting='minimal', quotechar="'", lineterminator='\r\n'),
	dict(delimiter=':', quoting='minimal', escapechar='!', lineterminator='\n'),
	dict(delimiter='\t', quoting='minimal', lineterminator='\n'),
	dict(delimiter='|', quoting='minimal', doublequote=False, escapechar='!', quotechar="'", lineterminator='\n'),
] + ([dict(delimiter='\t', quoting='strings', lineterminator='\n')] if 'strings' in _QUOTING_D else []) \
  + ([dict(delimiter=',', quoting='notnull', lineterminator='\r\n')] if 'notnull' in _QUOTING_D else [])
# keyword arguments given to the exporter next to (overriding) the dialect
DIALECT_OVERRIDES = [{'quoting': 'all'}, {'quoting': 'minimal'}, {'quoting': 'nonnumeric'}, {'quoting': 'none', 'escapechar': '\\'},
                     {'lineterminator': '\r\n'}, {'lineterminator': '\n'}, {'delimiter': ';'}, {'delimiter': '\t'}, {'quotechar': "'"},
                     {'escapechar': '\\'}, {'doublequote': False, 'escapechar': '\\'}, {'strict': True},
                     {'delimiter': '|', 'quoting': 'all', 'lineterminator': '\r\n'}, {'quoting': 'nonnumeric', 'lineterminator': '\r\n'}]
STD_FORMS = ['name', 'stdclass', 'stdinstance']
HARNESS_FORMS = ['registered', 'registered-class', 'class', 'instance']
NUMERIC_COLUMNS = (3, 4, 5, 9, 10)        # ncbi_id, threshold, distance, ncbi_id, threshold


def _dialect_effective(desc, opts):
	"""the csv parameters a writer / reader constructed with dialect `desc` and keywords `opts` works with (harness's own
	reading of the csv documentation: keywords override the dialect; a harness dialect names its attributes over those of
	'excel'; without a dialect the exporter's own defaults are LF and QUOTE_MINIMAL).  None: malformed description"""
	try:
		if desc is None:
			eff = dict(_EXCEL, lineterminator='\n')
		elif desc['form'] in STD_FORMS:
			d = STD_DIALECTS[desc['name']]
			eff = {k: getattr(d, k) for k in _EXCEL}
			eff['quoting'] = _QUOTING_NAME[eff['quoting']]
		elif desc['form'] in HARNESS_FORMS:
			eff = dict(_EXCEL, **desc['params'])
		else:
			return None
		eff.update({k: v for k, v in opts.items() if k != 'strict'})
		if set(eff) != set(_EXCEL) or eff['quoting'] not in _QUOTING_D or set(opts) - set(_EXCEL) - {'strict'}:
			return None
		return eff
	except (KeyError, TypeError, AttributeError):
		return None


def _dialect_in_domain(eff):
	"""can this configuration represent every string, and does csv.reader hand back what csv.writer was given?"""
	if eff is None or eff['skipinitialspace']:
		return False
	d, q, e = eff['delimiter'], eff['quotechar'], eff['escapechar']
	if not isinstance(d, str) or len(d) != 1 or d in '\r\n 0123456789.+-einfa' or eff['lineterminator'] not in ('\n', '\r\n'):
		return False
	if eff['quoting'] != 'none' and (not isinstance(q, str) or len(q) != 1):
		return False
	if (eff['quoting'] == 'none' or not eff['doublequote']) and e is None:
		return False
	specials = [c for c in (d, q, e) if c is not None]
	return len(set(specials)) == len(specials) and not any(c in '\r\n' for c in specials)


def _dialect_cr_safe(eff):
	"""a carriage return in a field is quoted / escaped by CPython <= 3.12 (known finding C11-csv-lone-cr otherwise)"""
	return eff['quoting'] in ('all', 'nonnumeric', 'strings', 'notnull') or '\r' in eff['lineterminator']


def _dialect_kwargs(desc, opts, registered):
	"""keyword arguments for CSVResultsExporter / csv.reader / csv.DictReader: the SAME dialect object and options for all"""
	kw = dict(opts)
	if 'quoting' in kw:
		kw['quoting'] = _QUOTING_D[kw['quoting']]
	if desc is None:
		return kw
	form = desc['form']
	if form == 'name':
		kw['dialect'] = desc['name']
	elif form == 'stdclass':
		kw['dialect'] = STD_DIALECTS[desc['name']]
	elif form == 'stdinstance':
		kw['dialect'] = STD_DIALECTS[desc['name']]()
	else:
		params = dict(_EXCEL, **desc['params'])
		params['quoting'] = _QUOTING_D[params['quoting']]
		name = f'c11-harness-dialect-{len(registered)}'
		if form == 'registered':
			csv.register_dialect(name, **{k: params[k] for k in desc['params']})       # the other attributes: csv's defaults (= 'excel')
			registered.append(name)
			kw['dialect'] = name
		else:
			cls = type('C11HarnessDialect', (csv.Dialect,), params)
			if form == 'registered-class':
				csv.register_dialect(name, cls)
				registered.append(name)
				kw['dialect'] = name
			else:
				kw['dialect'] = cls if form == 'class' else cls()
	return kw


def _cells_differ(got, exp_rows):
	"""`got`: rows a csv reader produced; the first difference from the expected cells, or None.  A reader told
	QUOTE_NONNUMERIC / QUOTE_STRINGS converts unquoted cells to float and may give None for an unquoted empty cell: a float is
	accepted in a numeric column when it is the number the expected token denotes, None stands for the empty cell"""
	if not isinstance(got, list):
		return str(got)
	if len(got) != len(exp_rows):
		return f'{len(got)} rows (header included) for {len(exp_rows) - 1} queries'
	for n, (gr, er) in enumerate(zip(got, exp_rows)):
		if len(gr) != len(er):
			return f'row {n} has {len(gr)} cells: {gr!r}, expected {er!r}'
		for c, (x, y) in enumerate(zip(gr, er)):
			if x is None:
				x = ''
			if isinstance(x, float) and n > 0 and c in NUMERIC_COLUMNS and y != '':
				try:
					if float(y) == x:
						continue
				except ValueError:
					pass
			if x != y:
				return f'row {n} column {HEADER[c]!r} reads {x!r}, expected {y!r}'
	return None


def k_dialect(ctx, cases):
	"""one result set (case['result']: a real query or a hand-built object on a generated database) exported by
	CSVResultsExporter instances constructed with a csv DIALECT and / or keyword options (case['exports'] = [{dialect, opts,
	to}, ...]).  Every output is read back by csv.reader and by csv.DictReader given exactly the same dialect object and
	options, and must be header + one row per query, in order, with the documented cells (harness tables)."""
	from gambit.results import CSVResultsExporter
	for case in cases:
		if STATE.get('script_violation') and not ctx.replaying:
			ctx.count('skipped:result-set-after-a-sequence-violation')
			ctx.case(case, nontrivial=False)
			continue
		g = get_db(case['db_seed'], case.get('lone_cr'))
		spec = case['result']
		results = run_query(g, spec) if spec['how'] == 'query' else build_results(g, spec)
		a = abs_results(results)
		exp_rows = [HEADER] + [expected_cells(g, it) for it in a['items']]
		cells = [c for r in exp_rows[1:] for c in r]
		has_cr = any('\r' in c for c in cells)
		nontrivial = False
		for n, ex in enumerate(case.get('exports') or []):
			desc, opts = ex.get('dialect'), ex.get('opts') or {}
			eff = _dialect_effective(desc, opts)
			if not _dialect_in_domain(eff):
				ctx.count('dialect:skipped-configuration-outside-the-judged-domain')
				continue
			if has_cr and not _dialect_cr_safe(eff):
				ctx.count('dialect:skipped-cr-in-a-cell-and-dialect-leaves-cr-unquoted')
				continue
			registered = []
			what = text = None
			try:
				kw = _dialect_kwargs(desc, opts, registered)
				try:
					exporter = CSVResultsExporter(**kw)
					if ex.get('to') == 'path':
						STATE['ndir'] = STATE.get('ndir', 0) + 1
						p = os.path.join(STATE['scratch'], f'dialect{STATE["ndir"]}.csv')
						exporter.export(p, results)
						with open(p, newline='') as f:
							text = f.read()
						os.unlink(p)
					else:
						text = _export(exporter, results)
				except Exception as e:
					what = f'raised {type(e).__name__}: {e}'
				if what is None:
					try:
						back = [list(r) for r in csv.reader(io.StringIO(text, newline=''), **kw)]
					except Exception as e:
						back = f'csv.reader raised {type(e).__name__}: {e}'
					bad = _cells_differ(back, exp_rows)
					if bad:
						what = f'does not parse back (csv.reader with the same dialect and options) to header + one row per query with the documented cells: {bad}'
				if what is None:
					try:
						rd = csv.DictReader(io.StringIO(text, newline=''), **kw)
						rows = list(rd)
						back = [list(rd.fieldnames or [])] + [[r[h] for h in HEADER] if set(r) == set(HEADER) else list(r.items()) for r in rows]
					except Exception as e:
						back = f'csv.DictReader raised {type(e).__name__}: {e}'
					bad = _cells_differ(back, exp_rows)
					if bad:
						what = f'does not parse back (csv.DictReader with the same dialect and options) to one record per query with the documented columns: {bad}'
			finally:
				for name in registered:
					csv.unregister_dialect(name)
			ctx.count('dialect:exports-judged')
			ctx.count('dialect:form-' + ('none' if desc is None else desc['form']) + ('+keywords' if opts else ''))
			ctx.count('dialect:quoting-' + eff['quoting'])
			sp = {c for c in (eff['delimiter'], eff['quotechar'], eff['escapechar'], '\r', '\n') if c}
			if desc is not None and any(ch in sp or ord(ch) > 126 for c in cells for ch in c):
				nontrivial = True
			if what:
				ctx.violation('dialect', case, f'export {n}: CSVResultsExporter(dialect={desc}, keywords {opts}) [effective csv parameters {eff}], written to '
				              f'{"a path" if ex.get("to") == "path" else "a stream"}: {what}; expected rows {exp_rows!r}, output {text!r}', impl=text, spec=exp_rows)
				break
		ctx.case(case, nontrivial=nontrivial)


KINDS = {'query': k_query, 'built': k_built, 'multiset': k_multiset, 'script': k_script, 'cli': k_cli, 'cliseq': k_cliseq, 'lonecr': k_lonecr, 'chunknone': k_chunknone, 'rows': k_rows, 'csvtext': k_csvtext,
         'jsonstr': k_jsonstr, 'jsontext': k_jsontext, 'dialect': k_dialect}


# ---- campaign ------------------------------------------------------------------------------

def setup(ctx):
	from vf import impl
	impl.check_import()
	STATE['scratch'] = impl.scratch_dir('gambit-verif-c11-')
	STATE['dbs'] = {}
	STATE['mdbs'] = {}
	STATE['campaign'] = False
	STATE['script_violation'] = False
	# does the implementation under test quote a lone carriage return?
	RowsExporter = _rows_exporter()
	t = _export(RowsExporter(['h']), _RowsResults([['a\rb', 'c']]))
	try:
		STATE['lone_cr_ok'] = _parse_csv(t) == [['h'], ['a\rb', 'c']]
	except csv.Error:
		STATE['lone_cr_ok'] = False
	ctx.extra['lone_cr_quoted_by_implementation'] = STATE['lone_cr_ok']
	# can the implementation under test read back parameters with chunksize=None?
	import gambit.util.json as gjson
	from gambit.query import QueryParams
	try:
		STATE['chunk_none_ok'] = gjson.from_json(gjson.to_json(QueryParams(chunksize=None)), QueryParams) == QueryParams(chunksize=None)
	except Exception:
		STATE['chunk_none_ok'] = False
	ctx.extra['chunksize_none_read_back_by_implementation'] = STATE['chunk_none_ok']


def teardown(ctx):
	# the runner shrinks a failing case AFTER teardown, through the same kinds: the caches are emptied (and the
	# directories removed) so that a later get_db / get_mdb builds the database again instead of handing out a
	# ReferenceDatabase whose session was closed (its cached genomes would be detached from the identity map and no
	# loaded results object could be == to the original any more)
	for g in STATE.get('dbs', {}).values():
		try:
			g.db.session.close()
		except Exception:
			pass
		shutil.rmtree(g.dir, ignore_errors=True)
	for m in STATE.get('mdbs', {}).values():
		try:
			m.session.close()
		except Exception:
			pass
		shutil.rmtree(m.dir, ignore_errors=True)
	STATE['dbs'] = {}
	STATE['mdbs'] = {}


def _rand_label(rng, pool):
	r = rng.random()
	if r < 0.5:
		return rng.choice(pool)
	if r < 0.7:
		return rng.choice(pool) + rng.choice(pool)
	return ''.join(rng.choice('ab ,"\né漢\U0001f600;\t') for _ in range(rng.randint(1, 8)))


# Shapes of the PATH of a query's source file ({} = a file name).  A path is a value of the results object like any other
# ("missing source file" is one element of the quantifier, a present one with an arbitrary path the other): whatever pathlib
# makes of the string when the QueryInput is built is what the archive has to give back and the JSON export has to carry.
# The shapes are those on which a path-rewriting function is NOT the identity (os.path.normpath / abspath / realpath /
# expanduser / expandvars / normcase / basename, Path.resolve / absolute, unicodedata.normalize, URL quoting) next to the
# plain ones on which all of them are.
PATH_SHAPES = [
	('abs', '/data/{}'), ('bare', '{}'), ('rel', 'runs/2021/{}'), ('rel-dot', './{}'), ('dot-mid', 'runs/./{}'),
	('updir-mid', 'runs/../genomes/{}'), ('updir-mid-abs', '/data/runs/../genomes/{}'), ('updir-lead', '../genomes/{}'),
	('updir-lead2', '../../{}'), ('updir-multi', 'a/b/../../c/{}'), ('updir-root', '/../{}'), ('updir-above', 'a/../../{}'),
	('updir-after-lead', '../a/../{}'), ('dslash-lead', '//server/share/{}'), ('dslash-mid', 'runs//{}'), ('tslash', 'runs/{}/'),
	('tilde', '~/genomes/{}'), ('tilde-user', '~nobody/{}'), ('envvar', '$HOME/${{TMPDIR}}/{}'), ('percent', 'a%20b/%7E/{}'),
	('backslash', 'dir\\sub\\..\\{}'), ('dots-name', '.hidden/.../{}'), ('space', ' lead dir /{} '), ('upper', '/Data/GENOMES/{}'),
	('nfd', 'e\u0301te\u0301/{}'), ('nfc', '\u00e9t\u00e9/{}'), ('deep', 'd/' * 40 + '{}'), ('updir-deep', 'd/../' * 12 + '{}'),
]


def _shape_path(shape, name):
	return dict(PATH_SHAPES)[shape].format(name)


def _rand_path(rng, pool):
	r = rng.random()
	name = rng.choice(pool).replace('\x00', '') + '.fa'
	if r < 0.45:
		return '/data/' + name
	if r < 0.85:
		return _shape_path(rng.choice(PATH_SHAPES)[0], name if rng.random() < 0.5 else rng.choice(['a.fasta', 'x y.fa', 'g\u00e9nome.fna.gz']))
	# free combination of components
	comps = [rng.choice(['..', '..', '.', '', 'a', 'b c', '~', '$X', '\u00e9', '...', 'A']) for _ in range(rng.randint(1, 6))]
	return rng.choice(['', '/', '//', '///']) + '/'.join(comps) + '/' + name


def _rand_files(rng, labels, pool):
	out = []
	for lab in labels:
		if rng.random() < 0.4:
			out.append(None)
		else:
			out.append([_rand_path(rng, pool), rng.choice(['fasta', 'genbank']), rng.choice([None, 'gzip'])])
	return out


def _gen_query(rng, pool, chunks):
	"""description of one real query (see run_query)"""
	k = rng.randint(1, 5)
	queries = []
	for _ in range(k):
		r = rng.random()
		if r < 0.25:
			queries.append([None, 0.0, rng.randrange(10 ** 6)])          # unrelated: no prediction
		else:
			queries.append([rng.randrange(100), rng.choice([0.0, 0.005, 0.02, 0.05, 0.12]), rng.randrange(10 ** 6)])
	labels = [_rand_label(rng, pool) for _ in range(k)]
	return dict(strict=rng.random() < 0.5, report_closest=rng.choice([1, 3, 10]),
	            chunksize=rng.choice(chunks), queries=queries, labels=labels,
	            files=_rand_files(rng, labels, pool), extra=rng.choice([{}, {'foo': 1, 'bar': [_rand_label(rng, pool), None]}]))


def _gen_built(rng, pool, chunks):
	"""description of one hand-built results object (see build_results)"""
	import numpy as np
	k = rng.randint(1, 4)
	items = []

	def rm():
		d = rng.choice([0.0, 1.0, rng.random(), rng.choice([0.1, 0.3, 0.24242425, 1e-8, 0.99999994])])
		return [rng.randrange(100), int(np.float32(d).view(np.uint32)), rng.choice([None, rng.randrange(100)]), rng.random() < 0.8]
	for _ in range(k):
		pred = rng.choice([None, rng.randrange(100)])
		items.append(dict(success=rng.random() < 0.7, pred=pred, primary=rng.choice([None, rm()]), closest=rm(),
		                  next=rng.choice([None, rng.randrange(100)]),
		                  warnings=[_rand_label(rng, pool) for _ in range(rng.choice([0, 0, 1, 3]))],
		                  error=rng.choice([None, None, _rand_label(rng, pool)]),
		                  report=rng.choice([None, pred, rng.randrange(100)]),
		                  closest_genomes=[rm() for _ in range(rng.choice([0, 1, 4]))]))
	labels = [_rand_label(rng, pool) for _ in range(k)]
	return dict(items=items, labels=labels, files=_rand_files(rng, labels, pool),
	            params=rng.choice([None, [True, 1234, 10], [False, chunks[2], 3]]),
	            extra=rng.choice([{}, {'k': [1, 2.5, 'xé', None, {'y': False}]}]))


def _gen_schedule(rng, sets):
	"""`sets`: genome set number of each result set -> list of [reader number, result set number].  Shapes: one
	reader over everything (in order, reversed, shuffled, with repeats), one reader alternating between the
	genome sets, one reader per genome set, a fresh reader per archive, two readers interleaved."""
	n = len(sets)
	idx = list(range(n))
	shape = rng.choice(['one-fwd', 'one-rev', 'one-shuffled', 'one-repeat', 'alternate', 'per-set', 'fresh', 'two-readers'])
	if shape == 'one-fwd':
		return [[0, i] for i in idx]
	if shape == 'one-rev':
		return [[0, i] for i in reversed(idx)]
	if shape == 'one-shuffled':
		rng.shuffle(idx)
		return [[0, i] for i in idx]
	if shape == 'one-repeat':
		return [[0, rng.choice(idx)] for _ in range(rng.randint(n, 2 * n + 1))]
	if shape == 'alternate':
		by = {}
		for i in idx:
			by.setdefault(sets[i], []).append(i)
		groups = list(by.values())
		rng.shuffle(groups)
		out = []
		while any(groups):
			for g in groups:
				if g:
					out.append([0, g.pop(0)])
		return out + [[0, out[0][1]]]
	if shape == 'per-set':
		rng.shuffle(idx)
		return [[sets[i], i] for i in idx]
	if shape == 'fresh':
		return [[k, i] for k, i in enumerate(idx)]
	rng.shuffle(idx)
	return [[rng.randrange(2), i] for i in idx + idx[:rng.randint(0, n)]]


BAD_READS = ['truncated', 'unknown-genomeset', 'unknown-genome-last', 'unknown-genome-first', 'unknown-taxon-last', 'bad-timestamp', 'foreign']
BAD_EXPORTS = ['stream', 'stream', 'items', 'extra']


def _gen_script(rng, pool, chunks, nsets, db2):
	"""description of one script case (see k_script): result sets over `nsets` genome sets of one database file plus,
	when `db2` is not None, the single genome set of a second database (pool number nsets).  Every case has a FOCUS
	object (one exporter instance or one reader number) that most steps go through, with result sets that change from
	one use to the next; the remaining steps are drawn freely."""
	npools = nsets + (db2 is not None)
	results = []
	base = None
	nres = rng.randint(2, 4)
	# the first two result sets are against different genome sets / databases; with a second database one of them is against it
	first = rng.sample(range(npools), 2)
	if db2 is not None and rng.random() < 0.6 and nsets not in first:
		first[rng.randrange(2)] = nsets
	for n in range(nres):
		st = first[n] if n < 2 else rng.randrange(npools)
		r = rng.random()
		if base is not None and r < 0.45:       # a twin: same queries, labels, parameters against another set / database
			results.append(dict(base, set=st))
		elif r < 0.8:
			base = dict(_gen_query(rng, pool, chunks), how='query')
			results.append(dict(base, set=st))
		else:
			results.append(dict(_gen_built(rng, pool, chunks), set=st, how='built'))
	side = [r['set'] >= nsets for r in results]       # which session a result set lives in
	focus = rng.choice(['exporter', 'exporter', 'reader'])
	exporters = []
	for n in range(rng.randint(2, 4)):
		fmt = rng.choice(['csv', 'json', 'archive']) if n == 0 else rng.choice(['csv', 'csv', 'csv', 'json', 'archive', 'archive'])
		exporters.append([fmt, dict(rng.choice(CSV_OPTS)) if fmt == 'csv' else rng.choice([{}, {}, {'pretty': True}])])
	rng.shuffle(exporters)
	fe = rng.randrange(len(exporters))
	frd = rng.randrange(2)
	fside = rng.choice(side)
	frs = [j for j in range(nres) if side[j] == fside]      # the focus reader reads archives of one session
	steps = []
	last = [None]

	def other(cands):
		"""a result set among `cands`, preferably not the one the focus object saw last"""
		c = [j for j in cands if j != last[0]] or list(cands)
		last[0] = rng.choice(c)
		return last[0]
	target = rng.randint(2, 6)
	while len(steps) < target:
		r = rng.random()
		on_focus = rng.random() < 0.65
		if r < 0.72:
			if (focus == 'exporter') if on_focus else (rng.random() < 0.6):
				steps.append(dict(op='export', ex=fe if on_focus else rng.randrange(len(exporters)), rs=other(range(nres)) if on_focus else rng.randrange(nres),
				                  to=rng.choice(['mem', 'mem', 'append', 'path0', 'path1']), thread=rng.random() < 0.15))
			else:
				steps.append(dict(op='read', rd=frd if on_focus else rng.randrange(2), rs=other(frs) if on_focus else rng.randrange(nres),
				                  via=rng.choice(['text', 'text', 'data', 'data', 'path', 'pretty'])))
		elif (focus == 'exporter') if on_focus else (rng.random() < 0.5):
			e = fe if on_focus else rng.randrange(len(exporters))
			steps.append(dict(op='badexport', ex=e, rs=rng.randrange(nres), how=rng.choice(BAD_EXPORTS), limit=rng.choice([0, 1, 2, 40, rng.randrange(4000)])))
			if rng.random() < 0.85:     # then a good call on the same exporter instance
				steps.append(dict(op='export', ex=e, rs=other(range(nres)) if on_focus else rng.randrange(nres), to=rng.choice(['mem', 'append', 'path0']), thread=False))
		else:
			rd = frd if on_focus else rng.randrange(2)
			rs = rng.choice(frs) if on_focus else rng.randrange(nres)
			steps.append(dict(op='badread', rd=rd, rs=rs, how=rng.choice(BAD_READS)))
			if rng.random() < 0.85:     # then a good call on the same reader instance (same session), mostly for another result set
				same = [j for j in range(nres) if side[j] == side[rs]]
				steps.append(dict(op='read', rd=rd, rs=other(same) if on_focus else rng.choice(same), via=rng.choice(['text', 'data', 'path'])))
	return dict(db2=db2, results=results, exporters=exporters, steps=steps)


def _cr_free_built(rng, g, spec):
	"""steer a hand-built result description (see build_results) to taxa / genomes of the harness tables of `g` whose CSV-visible
	strings hold no carriage return, and its labels likewise (so that dialects with an LF-only terminator are judged on it)"""
	tk = [i for i, t in enumerate(g.taxa.values()) if '\r' not in t['name'] + (t['rank'] or '')]
	gk = [i for i, x in enumerate(g.genomes.values()) if '\r' not in x['description']]
	if not tk or not gk:
		return spec
	for it in spec['items']:
		it['report'] = None if it['report'] is None else rng.choice(tk)
		it['next'] = None if it['next'] is None else rng.choice(tk)
		it['closest'] = [rng.choice(gk)] + it['closest'][1:]
	spec['labels'] = [lab.replace('\r', '') for lab in spec['labels']]
	return spec


def _gen_dialect_exports(rng, n):
	"""`n` exporter configurations inside the judged domain: dialect (standard / harness pool / random harness parameters, in
	every way of passing it) alone or with keyword overrides; sometimes keywords only"""
	out = []
	while len(out) < n:
		r = rng.random()
		if r < 0.25:
			desc = dict(form=rng.choice(STD_FORMS), name=rng.choice(list(STD_DIALECTS)))
		elif r < 0.75:
			desc = dict(form=rng.choice(HARNESS_FORMS), params=dict(rng.choice(HARNESS_DIALECTS)))
		elif r < 0.93:
			params = dict(delimiter=rng.choice([',', '\t', ';', '|', ':']), quoting=rng.choice(list(_QUOTING_D)), lineterminator=rng.choice(['\n', '\r\n']))
			if rng.random() < 0.5:
				params['escapechar'] = rng.choice(['\\', '!'])
			if rng.random() < 0.3:
				params['doublequote'] = False
			if rng.random() < 0.3:
				params['quotechar'] = "'"
			desc = dict(form=rng.choice(HARNESS_FORMS), params=params)
		else:
			desc = None
		opts = dict(rng.choice(DIALECT_OVERRIDES)) if desc is None or rng.random() < 0.4 else {}
		if _dialect_in_domain(_dialect_effective(desc, opts)):
			out.append(dict(dialect=desc, opts=opts, to=rng.choice(['mem', 'mem', 'mem', 'path'])))
	return out


def generate(ctx):
	rng = ctx.rng
	STATE['campaign'] = True
	ctx.rule(RULE)
	lone = STATE['lone_cr_ok']
	pool = NASTY + (LONE_CR if lone else [])

	# the designated lone-CR input (reported once when the implementation does not quote it)
	yield 'lonecr', dict(label='a\rb')
	# the designated chunksize=None input (likewise)
	yield 'chunknone', dict(label='q1', chunksize=None)
	chunks = [1000, 2, None] if STATE['chunk_none_ok'] else [1000, 2, 7]

	# -- CPython csv reader: exhaustive small scope
	n = ctx.pick(6, 7)
	alpha = 'a,"\r\n'
	for ln in range(n + 1):
		for t in itertools.product(alpha, repeat=ln):
			yield 'csvtext', dict(text=''.join(t))
	ctx.count('stream:csvtext-exhaustive', sum(5 ** i for i in range(n + 1)))
	ctx.exhaustive = True
	ctx.extra['exhaustive_scope'] = (f'csv reader: all texts of length <= {n} over the alphabet a , " CR LF; '
	                                 f'csv writer: all rows of <= 2 fields of length <= 2 over the same alphabet'
	                                 + ('' if lone else ' (fields with a lone CR excluded: known defect, reported by the designated case)'))
	for _ in range(ctx.pick(2000, 20000)):
		yield 'csvtext', dict(text=''.join(rng.choice('ab ,"\r\né\U0001f600\x00') for _ in range(rng.randint(0, 14))))
	ctx.count('stream:csvtext-random', ctx.pick(2000, 20000))

	# -- exporter's csv writer: exhaustive small rows, then random
	def cr_ok(f):
		return lone or ('\r' not in f) or any(c in f for c in ',"\n')
	fields = [''.join(t) for ln in range(3) for t in itertools.product(alpha, repeat=ln)]
	fields = [f for f in fields if cr_ok(f)]
	for a in fields:
		yield 'rows', dict(rows=[['h'], [a]])
		for b in fields:
			yield 'rows', dict(rows=[[a, b]])
	ctx.count('stream:rows-exhaustive', len(fields) * (len(fields) + 1))
	for _ in range(ctx.pick(1500, 15000)):
		rows = [[''.join(rng.choice('ab ,"\r\né漢\U0001f600') for _ in range(rng.randint(0, 5))) for _ in range(rng.randint(0, 4))]
		        for _ in range(rng.randint(1, 4))]
		rows = [[f if cr_ok(f) else f.replace('\r', '\r\n') for f in r] for r in rows]
		yield 'rows', dict(rows=rows)
	ctx.count('stream:rows-random', ctx.pick(1500, 15000))

	# -- json strings
	for c in list(range(0, 0x100)) + [0x7ff, 0x800, 0xd7ff, 0xd800, 0xdbff, 0xdc00, 0xdfff, 0xe000, 0xffff, 0x10000, 0x10ffff, 0x1f600, 0x6f22]:
		yield 'jsonstr', dict(s=[c])
		yield 'jsonstr', dict(s=[0xd83d, c], tail=', "x"')
	for _ in range(ctx.pick(3000, 30000)):
		s = [rng.choice([rng.randrange(0, 0x80), rng.randrange(0, 0x11000), rng.randrange(0xd7f0, 0xe010),
		                 rng.randrange(0x10000, 0x110000), 0x22, 0x5c, 0x2f, 0xd83d, 0xde00]) for _ in range(rng.randint(0, 6))]
		yield 'jsonstr', dict(s=s, tail=rng.choice(['', ', ', '"', '\\u']))
	for _ in range(ctx.pick(3000, 30000)):
		yield 'jsontext', dict(text='"' + ''.join(rng.choice(['a', '\\', 'u', 'd', '8', 'c', '0', '"', 'n', '\x01', 'é', '/', 'D', 'F', 'e', 'b'])
		                                       for _ in range(rng.randint(0, 14))))
	ctx.count('stream:json-strings', 2 * ctx.pick(3000, 30000) + 2 * 269)

	# -- real queries on generated databases
	ndb = ctx.pick(5, 16)
	nq = ctx.pick(14, 40)
	for dbi in range(ndb):
		for j in range(nq):
			yield 'query', dict(db_seed=dbi, lone_cr=lone, **_gen_query(rng, pool, chunks))
		ctx.count('stream:query', nq)

	# -- hand-built result objects: every combination the classifier cannot be steered into
	for dbi in range(ndb):
		for j in range(ctx.pick(12, 40)):
			yield 'built', dict(db_seed=dbi, lone_cr=lone, **_gen_built(rng, pool, chunks))
		ctx.count('stream:built', ctx.pick(12, 40))

	# -- the path of the source file: every shape of PATH_SHAPES on one real query and one hand-built object per shape (database 0),
	#    each result set mixing the shape with a plain absolute path and a query without source file
	npath = 0
	for shape, _ in PATH_SHAPES:
		for how in ('query', 'built'):
			names = [rng.choice(['a.fasta', 'x y.fa', 'g\u00e9nome.fna.gz', rng.choice(pool).replace('\x00', '') + '.fa']) for _ in range(2)]
			files = [[_shape_path(shape, names[0]), 'fasta', None], None, ['/data/' + names[1], 'fasta', 'gzip'], [_shape_path(shape, names[1]), 'genbank', 'gzip']]
			if how == 'query':
				spec = _gen_query(rng, pool, chunks)
				k = len(spec['labels'])
				spec['files'] = (files * 2)[:k]
			else:
				spec = _gen_built(rng, pool, chunks)
				k = len(spec['labels'])
				spec['files'] = (files * 2)[:k]
			yield how, dict(db_seed=0, lone_cr=lone, **spec)
			npath += 1
	ctx.count('stream:paths-enumerated', npath)

	# -- the CSV export under a csv DIALECT: every way of passing one, alone and with keyword overrides; read back with the same
	#    (a) small scope, enumerated: every standard and harness dialect x every way of passing it x (alone + each override of the
	#        pool), on two designated hand-built result sets per database 0: A without carriage returns, B with them
	g0 = get_db(0, lone)
	nt0, ng0 = len(g0.taxa), len(g0.genomes)
	import numpy as np
	def designated(labels):
		d = int(np.float32(0.24242425).view(np.uint32))
		items = [dict(success=True, pred=j % nt0, primary=None, closest=[j % ng0, d + j, None, j % 2 == 0], next=None if j % 3 == 0 else (j + 1) % nt0,
		              warnings=[], error=None, report=None if j % 4 == 3 else j % nt0, closest_genomes=[]) for j in range(len(labels))]
		return dict(how='built', items=items, labels=labels, files=[None] * len(labels), params=None, extra={})
	set_a = _cr_free_built(rng, g0, designated(['plain', 'tab\there;semi|pipe:colon', 'say "cheese", please', "two\nlines 'apo'", 'na\u00efve \u03a9 \u83cc \U0001f600',
	                                            'back\\slash!bang', '', ' lead and trail ']))
	set_b = designated(['cr\r\nlf', 'mixed\r,x', 'q"\rx\t;|:', "\n\r'!\\"] + (LONE_CR if lone else []))
	ndial = 0
	for desc in [dict(form=f, name=nm) for nm in STD_DIALECTS for f in STD_FORMS] + [dict(form=f, params=dict(p)) for p in HARNESS_DIALECTS for f in HARNESS_FORMS]:
		exports = [dict(dialect=desc, opts=dict(o), to='mem') for o in [{}] + DIALECT_OVERRIDES if _dialect_in_domain(_dialect_effective(desc, o))]
		for rs in (set_a, set_b):
			yield 'dialect', dict(db_seed=0, lone_cr=lone, result=rs, exports=exports)
			ndial += 1
	ctx.count('stream:dialect-enumerated', ndial)
	ctx.extra['exhaustive_scope'] += (f'; csv dialects: each of {len(STD_DIALECTS)} standard dialects x {len(STD_FORMS)} ways of passing it and {len(HARNESS_DIALECTS)} harness dialects x '
	                                  f'{len(HARNESS_FORMS)} ways, alone and with each of {len(DIALECT_OVERRIDES)} keyword overrides, on two designated result sets')
	#    (b) random: real queries and hand-built objects on every database x random dialect configurations
	for dbi in range(ndb):
		g = get_db(dbi, lone)
		for j in range(ctx.pick(14, 60)):
			if rng.random() < 0.5:
				rs = dict(_gen_query(rng, pool, chunks), how='query')
			else:
				rs = dict(_gen_built(rng, pool, chunks), how='built')
				if rng.random() < 0.6:
					rs = _cr_free_built(rng, g, rs)
			yield 'dialect', dict(db_seed=dbi, lone_cr=lone, result=rs, exports=_gen_dialect_exports(rng, rng.randint(1, 5)))
		ctx.count('stream:dialect', ctx.pick(14, 60))

	# -- CLI
	fn_pool = [x for x in pool if '/' not in x and '\x00' not in x and x not in ('', '.', '..') and '.' not in x]
	for dbi in range(ctx.pick(2, 6)):
		for strict in (False, True):
			k = rng.randint(2, 4)
			labels = []
			while len(labels) < k:
				lab = rng.choice(fn_pool) + rng.choice(['', '1', ' é'])
				if lab not in labels and len(lab.encode()) < 100:
					labels.append(lab)
			yield 'cli', dict(db_seed=dbi, lone_cr=lone, strict=strict, labels=labels,
			                  queries=[[rng.choice([None, rng.randrange(100)]), rng.choice([0.0, 0.01, 0.05]), rng.randrange(10 ** 6)] for _ in range(k)])
			ctx.count('stream:cli')
	# the same command with the query files NAMED differently (see k_cli): an up-level component inside a positional argument, and
	# a list file whose entries are relative to --ldir.  List-file lines are stripped and split at line ends by the command, so
	# the names of that form hold no line end and no outer white space
	lf_pool = [x for x in fn_pool if x == x.strip() and not any(c in x for c in '\n\r\x0b\x0c\x1c\x1d\x1e\x85\u2028\u2029')]
	for dbi in range(ctx.pick(2, 6)):
		for form in ('dotdot', 'listfile'):
			k = rng.randint(2, 3)
			labels = []
			while len(labels) < k:
				lab = rng.choice(lf_pool if form == 'listfile' else fn_pool) + rng.choice(['', '1', ' \u00e9'])
				if lab not in labels and len(lab.encode()) < 100 and lab not in ('sub', 'list', 'out'):
					labels.append(lab)
			yield 'cli', dict(db_seed=dbi, lone_cr=lone, strict=rng.random() < 0.5, labels=labels, pathform=form,
			                  queries=[[rng.choice([None, rng.randrange(100)]), rng.choice([0.0, 0.01, 0.05]), rng.randrange(10 ** 6)] for _ in range(k)])
			ctx.count('stream:cli-pathforms')

	# -- several genome sets in one database over shared genomes; archives read back by reused reader instances
	for dbi in range(ctx.pick(4, 14)):
		for j in range(ctx.pick(3, 12)):
			nsets = len(get_mdb(dbi, lone).sets)       # 2 or 3 (the kind takes set numbers modulo this)
			shape = rng.choice(['twins', 'twins', 'mixed', 'same-set'])
			results = []
			if shape == 'twins':        # the same queries against every genome set (versions) of the database
				for _ in range(rng.randint(1, 2)):
					q = _gen_query(rng, pool, chunks)
					order = rng.sample(range(nsets), nsets)
					results += [dict(q, set=si, how='query') for si in order]
			elif shape == 'mixed':      # independent real queries and hand-built objects against random sets
				for _ in range(rng.randint(2, 5)):
					if rng.random() < 0.6:
						results.append(dict(_gen_query(rng, pool, chunks), set=rng.randrange(nsets), how='query'))
					else:
						results.append(dict(_gen_built(rng, pool, chunks), set=rng.randrange(nsets), how='built'))
			else:                       # several result sets against ONE of the genome sets (the others only sit in the database)
				si = rng.randrange(nsets)
				for _ in range(rng.randint(2, 4)):
					if rng.random() < 0.7:
						results.append(dict(_gen_query(rng, pool, chunks), set=si, how='query'))
					else:
						results.append(dict(_gen_built(rng, pool, chunks), set=si, how='built'))
			yield 'multiset', dict(db_seed=dbi, lone_cr=lone, results=results, schedule=_gen_schedule(rng, [r['set'] for r in results]))
			ctx.count('stream:multiset')

	# -- scripts of export / read calls over shared caller objects (exporter and reader instances, result sets against several
	#    genome sets and a second database, shared parameter / input objects, streams, paths, parsed dicts), with failing calls
	nscript = ctx.pick(90, 600)
	for j in range(nscript):
		dbi = j % ctx.pick(4, 14)
		nsets = len(get_mdb(dbi, lone).sets)
		db2 = rng.choice([None, rng.randrange(ndb), rng.randrange(ndb)])
		yield 'script', dict(db_seed=dbi, lone_cr=lone, **_gen_script(rng, pool, chunks, nsets, db2))
		ctx.count('stream:script')

	# -- several CLI invocations in one process: two databases in either order, one output path, failing invocations in between
	for j in range(ctx.pick(8, 40)):
		k = rng.randint(2, 3)
		labels = []
		while len(labels) < k:
			lab = rng.choice(fn_pool) + rng.choice(['', '1', ' é'])
			if lab not in labels and len(lab.encode()) < 100 and lab != 'garbage' and lab != 'missing':
				labels.append(lab)
		steps = []
		for _ in range(rng.randint(3, 5)):
			steps.append(dict(db=rng.randrange(2), fmt=rng.choice(['csv', 'json', 'archive']), strict=rng.random() < 0.4,
			                  files=rng.sample(range(k), rng.randint(1, k)), fail=rng.choice([None, None, None, 'missing', 'garbage']),
			                  cores=rng.choice([1, 1, 1, 1, 1, 2, None])))
		if not any(st['fail'] for st in steps):
			steps.insert(rng.randrange(len(steps)), dict(steps[0], fail=rng.choice(['missing', 'garbage'])))
		yield 'cliseq', dict(dbs=rng.sample(range(ndb), 2), lone_cr=lone, labels=labels, steps=steps,
		                     queries=[[rng.choice([None, rng.randrange(100)]), rng.choice([0.0, 0.01, 0.05]), rng.randrange(10 ** 6)] for _ in range(k)])
		ctx.count('stream:cliseq')
