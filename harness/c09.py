"""C09 -- the closest-genomes list is the deterministic (distance, reference order) prefix.

Tie: B.  The model (Model/C09.v: stable argsort = merge sort on (distance, index), argmin =
first minimum, matching_taxon walk) and the extracted specification checker (Spec/C09.v
closest_listb, proved to accept exactly the model's list) are run on the same inputs as

  row     gambit.query.get_result_item on a distance row (in-process)
  rowenv  the same in a sub-process with NPY_DISABLE_CPU_FEATURES / OMP_NUM_THREADS set
  query   gambit.query.query on a generated on-disk database for several chunk sizes, and the
          CLI `gambit query` (CSV and JSON, several --cores) on the same database

  rowx    get_result_item with the arguments in the other forms a caller may use (see table)
  rowseq  sequences of get_result_item calls on ONE database object / QueryParams / ndarray buffer
  queryx  query() / query_parse() / `gambit query` through their other call forms, containers, database
          forms, inputs and output formats (see table)
  queryenv whole queries + CLI export in sub-processes per CPU-dispatch / OpenMP-thread environment
  multidb sequences of query() / query_parse() / get_result_item() / `gambit query` calls over SEVERAL databases of
          different sizes, all with the caller's one QueryParams / keyword dict / inputs / signatures / row buffer

Observables: the list of (reference index, float32 bit pattern of the distance, matched taxon),
the closest match, CSV closest.description, JSON closest_genomes[0].  Model inputs (distance
keys, taxonomy tables, reference order) come from the harness's own generated structures.

Coverage audit (item of the property text -> stream(s) driving the IMPLEMENTATION; P = full predicate
judged there: checker-accepted prefix, exact distance, taxon, head = closest_match, repeat-identical):

  clause  length min(N, #refs)             witness, exhaustive-rows, random-rows*, rowx-forms, query, queryx; multidb (N held
                                           in a reused object, #refs changing from call to call)  P
  clause  (distance, reference order)      all row streams (ties inside / straddling N), query, queryx, queryenv  P
  clause  exact distance                   all row streams (float32 bits); rowx-forms f64 rows (double bits); CLI JSON/archive
                                           `distance` and CSV closest.distance in queryx, queryenv  P
  clause  taxon the distance alone assigns all row streams (thresholds on / next to distances, 0.0, None), query, queryx
                                           (API + JSON/archive matched_taxon)  P
  clause  first entry = closest_match      all row streams, query, queryx (API, archive closest_match), queryenv  P
  clause  CSV and JSON name same genome    query (plain names), queryx (odd / duplicated descriptions; + archive), queryenv  P
  clause  identical on every run           every row case is evaluated twice; rowseq (second pass + retained results);
                                           queryx (same N under different configs), queryenv (across environments)
  quant   identical / equidistant refs     gen_query_case pools (query, queryx, queryenv); tie-heavy rows
  quant   databases: SQL row order, unrelated signatures in the file (sig_indices a strict subset), id_attr
          refseq_acc / genbank_acc / key, k in 5..17 (uint16/32/64 signatures), load_from_dir / load(files) /
          in-memory ReferenceDatabase(genomeset, AnnotatedSignatures)         queryx, queryenv (sqlorder also: query)
  quant   queries: 1..25 per call, empty signature, repeated signature, SignatureList / SignatureArray / list /
          tuple / iterator / uint64 arrays / HDF5 file, FASTA files (query_parse, CLI positional, -l/--ldir)   queryx
  quant   queries: the LABELS the batch carries (QueryInput.label is reporting only; nothing in the property lets a result depend
          on it): 2..12 different query genomes (plus one given twice) of ONE batch with equal labels, all-empty labels, labels
          drawn from a pool of 1-3, exactly one colliding pair, the default labels '1'..'n' standing at other positions than
          their own -- through query(inputs= str / QueryInput / mixed / ONE QueryInput object at every position of its label),
          query_parse(file_labels= list / tuple), the IDs of the -s signature file, equal base names of query files in
          different directories with different FASTA extensions (positional and -l/--ldir)      query-labels  P (per position)
  quant   N >= 1: 1..len+1, 1000 (rows); NumPy int8..uint64 / intp scalars, bool, 2**31-1 .. 10**30 (rowx-forms,
          rowenv-forms); per-config N, 2**40, np.int64 via **kw (queryx); CLI default 10 (query, queryx, queryenv)
  quant   CPU-feature dispatch             rowenv, rowenv-forms (get_result_item); queryenv (whole query + CLI)
  quant   thread counts                    rowenv* (OMP_NUM_THREADS), query / queryx (--cores, omp_set_num_threads 1..3),
                                           queryenv (OMP_NUM_THREADS 1 / 16 + --cores)
  quant   chunk sizes                      query, queryx (1, 2, 3, 7, 16, #refs-1, #refs, #refs+1, 1000, None; also as
                                           np.int64), queryenv
  api     get_result_item forms            rowx-forms: keyword / positional call, QueryParams built positionally, genomes
                                           as tuple, row dtype f4 / f8 / non-native, row of C / F matrix, column, strided,
                                           negative stride, unaligned, read-only, ndarray sub-class
  api     reuse of caller objects          rowseq: same db + same QueryParams (report_closest reassigned) + same buffer
                                           (overwritten in place); queryx 'shared' params across calls
  api     caller objects across databases  multidb: ONE QueryParams, ONE **kw dict, ONE inputs / file_labels / files list, ONE
                                           signatures object (SignatureList / SignatureArray / list / tuple / uint64 / HDF5 file)
                                           and ONE row buffer used on 2-4 databases with fewer than N, exactly N and more than N
                                           references (ascending, descending, large-small-large, interleaved with revisits; N
                                           reassigned by the caller in between) through query() (params / inputs= / **kw),
                                           query_parse() (params + file_labels / **kw), get_result_item(), `gambit query`, bare query(db, sigs) (N = 10);
                                           every step: length min(N the caller set, #refs of THAT database) + P, exporters on some
                                           results, earlier results unchanged, caller's objects equal to copies taken before the call
  api     aliasing between the items of one batch   query-labels: equal / identical input labels and ONE QueryInput object
                                           shared by several positions (state and aliasing: the only per-batch key a caller
                                           supplies besides the position is the label)
  api     query(): params / **kw / inputs= / progress=None; query_parse(): params + file_labels / **kw, parse_kw
          concurrency None / threads / processes; classify_strict (API) and --strict / --no-strict (CLI)   queryx
  channel CSV, JSON, archive (-f), -d and $GAMBIT_DB_PATH, -s / files / -l                      queryx
  malformed: empty reference list (ValueError)                                                  malformed
Not judged: strict-mode classifier exceptions (C10's subject; counted as not-judged:*); k <= 4 databases (uint8
signatures are refused by the distance kernel: no result exists); NaN / negative distances (outside ASSUMPTIONS).
An exception of query()/the CLI on a well-formed input in the new kinds is reported through ctx.broke."""
import json
import os
import struct
import subprocess
import sys

PROP = 'C09'
RULE = ('row/rowenv: (N, [(float32 distance, taxon)], taxonomy) -> get_result_item: closest_genomes must be accepted by '
        'the extracted checker closest_listb (= model list), carry dists[i] bit-exactly and the taxon the model assigns, '
        'and start with classify()\'s closest_match; identical on a repeated call.  query: generated reference '
        'database + query signatures -> query() for several chunk sizes and the CLI (csv/json, several --cores): same '
        'list for every configuration, CSV closest.description == JSON closest_genomes[0].  rowx: as row with N given '
        'as a NumPy integer scalar / bool / up to 10**30 and the distance row as float64 (incl. genuine doubles, judged on '
        'double bit patterns), non-native byte order, strided / negative-stride / column / Fortran-matrix row / unaligned / '
        'read-only / sub-class arrays, genomes as a tuple, keyword or positional call.  rowseq: 2-6 calls sharing one '
        'database object and, per case, one QueryParams instance (report_closest reassigned) and / or one ndarray '
        '(overwritten in place), run twice: every step judged as a row, results kept from the first pass must not change.  '
        'queryx: generated database (k 5..17, odd or duplicated descriptions, unrelated signatures inside the signature '
        'file, id_attr refseq_acc / genbank_acc / key, opened from a directory / two files / in memory) x 1..25 queries '
        '(incl. empty and repeated ones) given as SignatureList / SignatureArray / list / tuple / iterator / uint64 arrays / '
        'HDF5 file / FASTA files -> query() via params, **kw (also NumPy scalars), inputs=, a shared QueryParams, '
        'query_parse(); per-config N, chunk size, thread count, classify_strict; then `gambit query` (csv, json, archive; '
        '-s / files / -l; --cores; --strict; -d / GAMBIT_DB_PATH): every list = the model list for its N, CSV '
        'closest.description / closest.distance = JSON closest_genomes[0] = archive closest_genomes[0] = archive '
        'closest_match.  query-labels (kind queryx): the same with 2-12 different query genomes whose input labels are equal / '
        'empty / drawn from a pool of 1-3 / the default labels of other positions, given as inputs= (str, QueryInput, one '
        'shared QueryInput object), file_labels=, IDs of the -s file or equal file base names in different directories: the '
        'result at every position must be the model list of the query genome AT THAT POSITION (labels are not judged).  queryenv: such databases queried and exported in sub-processes under each NPY_DISABLE_CPU_FEATURES '
        '/ OMP_NUM_THREADS setting: same lists as the model in every environment.  multidb: 2-4 generated databases over '
        'one taxonomy with fewer than N, exactly N and more than N references (identical / equidistant ones included) '
        'visited in ascending, descending, large-small-large or interleaved order (with revisits) by 2-9 calls -- query() via '
        'params / inputs= / **kw, query_parse() via params + file_labels / **kw, get_result_item() on the harness\'s own '
        'distance row, `gambit query`, query() with no parameters at all (N = the documented default 10) -- that ALL receive the caller\'s one QueryParams instance, one keyword dict, one inputs / '
        'labels / files list, one signatures object and one row buffer; the caller may reassign N between calls: every '
        'step must list min(N the caller set, #references of the database of that step) genomes = the model list for that '
        'database and N, results of earlier steps must not change, and the caller\'s objects must equal the copies taken '
        'before the call (a modified object without a wrong list is reported as a broken correspondence).  '
        'non-trivial: at least two '
        'references and a tie of distances inside or at the boundary of the reported prefix (multidb: at least two calls '
        'and an N above the size of one visited database and not above the size of another)')
TRUSTED = ['NumPy: np.argsort(kind="stable") is a stable sort by value and np.argmin returns the first minimum '
           '(modelled as merge sort on (distance, index) / left-to-right scan; sampled on every case)',
           'NumPy-1 scalar comparison float32 <= Python float is done in double precision (modelled on 64-bit keys)',
           'bit patterns of non-negative IEEE numbers are order-isomorphic to their values (harness sends keys)',
           'SQLAlchemy/SQLite/h5py return the generated taxonomy, thresholds and signatures unchanged (query kind)',
           'queryx/queryenv: the Jaccard distance of two k-mer sets is the binary32 quotient (|A u B| - |A n B|) / |A u B| '
           '(C02/C05 tie this to the kernel); the k-mer set of a FASTA query file is found by the harness\'s own two-strand '
           'prefix search (C01 ties it to gambit); csv.DictReader / json.load read back what the exporters wrote',
           'an N beyond 4096 is sent to the (unary) extracted model as #refs + 1, which selects the same prefix (C09_length)',
           'multidb: the model is evaluated per step on (N the caller set, that step\'s database) -- calls are independent in '
           'the model, which has no state; attr.astuple / == on str, dict, SequenceFile, QueryInput and ndarray.tobytes() '
           'detect a change of the caller\'s objects; the parse_kw dict (in which query_parse itself stores its progress '
           'setting) and the `progress` argument are reused but not compared']
ASSUMPTIONS = ['distances are finite, non-negative, not NaN and not -0.0 (Jaccard distances lie in [0,1])',
               'every reference genome has a taxon; the taxonomy is a forest (acyclic parent pointers)',
               'report_closest N >= 1; the distance row has one entry per reference genome',
               'reference order = order of db.genomes = order of the signatures in the signature file (skipping '
               'signatures whose ID belongs to no genome)',
               'rowx f64 rows: distances are finite non-negative doubles (a caller-supplied row; query() itself only '
               'produces float32 rows)',
               'databases have k >= 5 (signatures narrower than 16 bits are refused by the distance kernel)']
CORRESPONDENCES = ['row', 'rowenv', 'query', 'rowx', 'rowseq', 'queryx', 'queryenv', 'multidb']
BATCH = 400

AVX512 = 'AVX512F AVX512CD AVX512_SKX AVX512_CLX AVX512_CNL AVX512_ICL'
ENVS = [
	{},
	{'NPY_DISABLE_CPU_FEATURES': AVX512, 'OMP_NUM_THREADS': '1'},
	{'NPY_DISABLE_CPU_FEATURES': 'AVX2 FMA3 ' + AVX512, 'OMP_NUM_THREADS': '3'},
	{'NPY_DISABLE_CPU_FEATURES': 'SSSE3 SSE41 POPCNT SSE42 AVX F16C FMA3 AVX2 ' + AVX512, 'OMP_NUM_THREADS': '16'},
]


# ---------------------------------------------------------------------------------------------
# numbers

def f32_bits(x):
	"""float32 bit pattern of a number (exact for values that are float32)"""
	return struct.unpack('<I', struct.pack('<f', x))[0]


def bits_f32(b):
	return struct.unpack('<f', struct.pack('<I', b))[0]


def f64_key(x):
	"""order-isomorphic integer key of a non-negative double"""
	return struct.unpack('<q', struct.pack('<d', x))[0]


def key_of_bits(b):
	return f64_key(bits_f32(b))


def div32(a, b):
	"""binary32 division of two small non-negative integers -> bit pattern"""
	import numpy as np
	return int(np.array(np.float32(a) / np.float32(b), dtype=np.float32).view(np.uint32))


# ---------------------------------------------------------------------------------------------
# case validation / model requests

NTYPES = {'int': None, 'bool': 1, 'int8': 2 ** 7 - 1, 'uint8': 2 ** 8 - 1, 'int16': 2 ** 15 - 1, 'uint16': 2 ** 16 - 1,
          'int32': 2 ** 31 - 1, 'uint32': 2 ** 32 - 1, 'int64': 2 ** 63 - 1, 'uint64': 2 ** 64 - 1, 'intp': 2 ** 63 - 1}
DTYPES = ['f4', 'f8', '>f4', '>f8']
LAYOUTS = ['1d', 'row2d', 'strided', 'negstride', 'col', 'frow', 'readonly', 'unaligned', 'subclass']
HUGE_N = [2 ** 31 - 1, 2 ** 31, 2 ** 32, 2 ** 63 - 1, 2 ** 63, 2 ** 64, 10 ** 30]


def check_case(case):
	"""raise ValueError for a case outside the property's domain (e.g. produced by shrinking)"""
	taxa, refs, n = case['taxa'], case['refs'], case['n']
	if n < 1:
		raise ValueError('n < 1')
	nt = case.get('ntype', 'int')
	if nt not in NTYPES or (NTYPES[nt] is not None and n > NTYPES[nt]):
		raise ValueError('N does not fit its NumPy type')
	if case.get('dt', 'f4') not in DTYPES or case.get('layout', '1d') not in LAYOUTS:
		raise ValueError('unknown row container')
	if case.get('f64') and case.get('dt') not in ('f8', '>f8'):
		raise ValueError('double distances need a double container')
	top = 0x7ff0000000000000 if case.get('f64') else 0x7f800000
	for t, (par, thr) in enumerate(taxa):
		if par is not None and not (0 <= par < t):
			raise ValueError('parent does not precede child')
		if thr is not None and not (thr == thr and thr >= 0):
			raise ValueError('bad threshold')
	for bits, t in refs:
		if not (0 <= t < len(taxa)):
			raise ValueError('taxon index out of range')
		if not (0 <= bits <= top):
			raise ValueError('distance not a non-negative number')


def case_keys(case):
	"""order-isomorphic 64-bit keys of the row's distances (f64 rows carry double bit patterns, which ARE their keys)"""
	if case.get('f64'):
		return [b for b, _ in case['refs']]
	return [key_of_bits(b) for b, _ in case['refs']]


def model_args(case):
	keys = case_keys(case)
	taxa = [[[] if par is None else [par], [] if thr is None else [f64_key(thr)]] for par, thr in case['taxa']]
	gt = [t for _, t in case['refs']]
	return keys, taxa, gt


def model_n(n, nrefs):
	"""the extracted model counts N in unary: an astronomically large N is sent as nrefs+1, which selects
	the same prefix (firstn n l = l for every n >= length l; C09_length)"""
	return n if n <= 4096 else min(n, nrefs + 1)


def model_item(ans):
	"""decode op 903's answer -> 'ValueError' | dict(match=[i,key,m], closest=[[i,key,m],...])"""
	from vf.main import ERRNAMES
	if ans[0] != 0:
		return ERRNAMES.get(ans[1], f'err{ans[1]}')
	c, es = ans[1]
	e = lambda x: [x[0], x[1], (x[2][0] if x[2] else None)]
	return dict(match=e(c), closest=[e(x) for x in es])


# ---------------------------------------------------------------------------------------------
# implementation side

_objs_cache = {}


def build_objs(taxa, gtaxon):
	"""transient ORM objects (no session): Taxon forest and one AnnotatedGenome per reference"""
	from gambit.db import models as M
	k = json.dumps([taxa, gtaxon])
	if k in _objs_cache:
		return _objs_cache[k]
	tobjs = []
	for t, (par, thr) in enumerate(taxa):
		tobjs.append(M.Taxon(key=f't{t}', name=f'taxon {t}', distance_threshold=thr,
		                     parent=None if par is None else tobjs[par]))
	genomes = [M.AnnotatedGenome(genome=M.Genome(key=f'g{i}', description=f'genome {i}'), taxon=tobjs[t])
	           for i, t in enumerate(gtaxon)]
	if len(_objs_cache) > 64:
		_objs_cache.clear()
	_objs_cache[k] = (tobjs, genomes)
	return tobjs, genomes


def obs_match(m, gidx, tidx, f64=False):
	import numpy as np
	d = m.distance
	if f64:
		bits = struct.unpack('<q', struct.pack('<d', d))[0]
	else:
		bits = int(np.array(d, dtype=np.float32).view(np.uint32)) if np.float32(d) == d else repr(d)
	return [gidx[id(m.genome)], bits, None if m.matched_taxon is None else tidx[id(m.matched_taxon)]]


def impl_row(case):
	"""get_result_item on the case's row -> observable (or the name of the exception)"""
	import numpy as np
	from types import SimpleNamespace
	from gambit.query import get_result_item, QueryParams, QueryInput
	taxa, refs, n = case['taxa'], case['refs'], case['n']
	tobjs, genomes = build_objs(taxa, [t for _, t in refs])
	gidx = {id(g): i for i, g in enumerate(genomes)}
	tidx = {id(t): i for i, t in enumerate(tobjs)}
	f64 = bool(case.get('f64'))
	row = make_row([b for b, _ in refs], case.get('dt', 'f4'), case.get('layout', '1d'), f64)
	if case.get('genomes') == 'tuple':
		genomes = tuple(genomes)
	db = SimpleNamespace(genomes=genomes)
	strict = bool(case.get('strict'))
	nn = wrap_n(n, case.get('ntype', 'int'))
	try:
		if case.get('call') == 'kw':
			item = get_result_item(input=QueryInput(label='q', file=None), dists=row, db=db,
			                       params=QueryParams(report_closest=nn, classify_strict=strict, chunksize=None))
		elif case.get('call') == 'pos':
			item = get_result_item(db, QueryParams(strict, 7, nn), row, QueryInput('q', None))
		else:
			item = get_result_item(db, QueryParams(report_closest=nn, classify_strict=strict), row, QueryInput('q'))
	except ValueError:
		return 'ValueError'
	except Exception as e:
		if strict and refs:
			# the strict classifier's consensus search is C10's subject, not this property's
			return 'skip:' + type(e).__name__
		raise
	return dict(match=obs_match(item.classifier_result.closest_match, gidx, tidx, f64),
	            closest=[obs_match(m, gidx, tidx, f64) for m in item.closest_genomes])


def wrap_n(n, ntype):
	"""N as the caller may hold it: a Python int, a bool or a NumPy integer scalar"""
	import numpy as np
	if ntype == 'int':
		return n
	if ntype == 'bool':
		return True
	return getattr(np, ntype)(n)


def make_row(bits, dt='f4', layout='1d', f64=False):
	"""the distance row in the container the case asks for (same values in every container)"""
	import numpy as np
	if f64:
		base = np.array(bits, dtype=np.uint64).view(np.float64)
	else:
		base = np.array(bits, dtype=np.uint32).view(np.float32)
	base = base.astype(np.dtype(dt))        # f4 -> f8 is exact; '>' = non-native byte order
	m = len(base)
	if layout == '1d':
		return base
	if layout == 'row2d':
		# as in query(): a row of the 2-D distance matrix
		mat = np.ones((3, m), dtype=base.dtype)
		mat[1, :] = base
		return mat[1, :]
	if layout == 'strided':
		big = np.ones(2 * m + 1, dtype=base.dtype)
		big[1::2] = base
		return big[1::2]
	if layout == 'negstride':
		return base[::-1].copy()[::-1]
	if layout == 'col':
		mat = np.ones((m, 3), dtype=base.dtype)
		mat[:, 1] = base
		return mat[:, 1]
	if layout == 'frow':
		mat = np.ones((3, m), dtype=base.dtype, order='F')
		mat[1, :] = base
		return mat[1, :]
	if layout == 'readonly':
		base.setflags(write=False)
		return base
	if layout == 'unaligned':
		buf = bytearray(base.nbytes + 1)
		r = np.ndarray((m,), dtype=base.dtype, buffer=buf, offset=1)
		r[:] = base
		return r
	if layout == 'subclass':
		return base.view(_row_subclass())
	raise ValueError('unknown layout')


def _row_subclass():
	import numpy as np
	global _RowCls
	try:
		return _RowCls
	except NameError:
		class Row(np.ndarray):
			pass
		_RowCls = Row
		return Row


def impl_rows_subprocess(cases, env):
	e = dict(os.environ)
	e.update(env)
	p = subprocess.run([sys.executable, '-m', 'harness.c09', 'worker'], input=json.dumps(cases), env=e,
	                   capture_output=True, text=True, cwd=os.path.dirname(os.path.dirname(os.path.abspath(__file__))))
	if p.returncode != 0:
		raise RuntimeError('C09 worker failed: ' + p.stderr[-600:])
	return json.loads(p.stdout)


def worker():
	cases = json.load(sys.stdin)
	out = []
	for c in cases:
		a = impl_row(c)
		b = impl_row(c)
		out.append([a, b])
	json.dump(out, sys.stdout)


# ---------------------------------------------------------------------------------------------
# judging one row

def nontrivial_row(case):
	ks = sorted(b for b, _ in case['refs'])
	n = case['n']
	if len(ks) < 2:
		return False
	pre = ks[:n + 1]
	return any(pre[i] == pre[i + 1] for i in range(len(pre) - 1))


def judge_row(ctx, kind, case, impl, impl2, model, accepted, where='', report=None):
	"""impl/impl2: two evaluations of the implementation; model: decoded model item; accepted: the
	extracted checker's verdict on the implementation's index list"""
	bits = [b for b, _ in case['refs']]
	rep = case if report is None else report     # what a violation names (the enclosing multi-step case)
	if impl != impl2:
		ctx.violation(kind, rep, f'two identical calls{where} returned different closest-genomes lists', impl=impl, impl_again=impl2, model=model)
		return
	if isinstance(impl, str) and impl.startswith('skip:'):
		ctx.count('not-judged:strict-classifier-' + impl[5:])
		return
	if isinstance(impl, str) or isinstance(model, str):
		if impl != model:
			if not case['refs']:
				ctx.broke(f'correspondence {kind} (empty reference list)', f'impl={impl} model={model}')
			else:
				ctx.violation(kind, rep, f'get_result_item{where} -> {impl}, model -> {model}', impl=impl, model=model)
		return
	lst = impl['closest']
	idxs = [e[0] for e in lst]
	if not accepted:
		exp = [e[0] for e in model['closest']]
		pos = next((i for i, (a, b) in enumerate(zip(idxs, exp)) if a != b), min(len(idxs), len(exp)))
		ctx.violation(kind, rep, f'closest_genomes{where} is not the (distance, reference order) prefix: reference indices '
		              f'{idxs[:12]}{"..." if len(idxs) > 12 else ""}, expected {exp[:12]}{"..." if len(exp) > 12 else ""} '
		              f'(first difference at position {pos})', impl=impl, spec=exp, model=model)
		return
	for i, db_, _ in lst:
		if db_ != bits[i]:
			ctx.violation(kind, rep, f'entry for reference {i}{where} carries distance bits {db_}, the row has {bits[i]}', impl=impl, model=model)
			return
	if lst and lst[0] != impl['match']:
		ctx.violation(kind, rep, f'closest_genomes[0]{where} = {lst[0]} but classifier closest_match = {impl["match"]} '
		              '(JSON and CSV would name different closest genomes)', impl=impl, model=model)
		return
	mt = [e[2] for e in model['closest']]
	if [e[2] for e in lst] != mt or impl['match'][2] != model['match'][2]:
		ctx.violation(kind, rep, f'matched taxa{where} {[e[2] for e in lst]} / {impl["match"][2]} differ from what the distance '
		              f'alone assigns {mt} / {model["match"][2]}', impl=impl, model=model)
		return
	mod = dict(match=[model['match'][0], bits[model['match'][0]], model['match'][2]],
	           closest=[[e[0], bits[e[0]], e[2]] for e in model['closest']])
	if mod != impl:
		ctx.broke(f'correspondence {kind}', f'case {json.dumps(case)[:300]}: impl={impl} model={mod}')


def _rows(ctx, kind, cases, evaluate):
	good = []
	for c in cases:
		check_case(c)
		good.append(c)
	results = evaluate(good)
	reqs = []
	for c, (a, _) in zip(good, results):
		keys, taxa, gt = model_args(c)
		reqs.append((903, [model_n(c['n'], len(keys)), keys, taxa, gt]))
		idxs = [e[0] for e in a['closest']] if isinstance(a, dict) else []
		reqs.append((911, [model_n(c['n'], len(keys)), keys, idxs]))
		reqs.append((912, [keys, taxa, gt]))
	ans = ctx.model(reqs) if ctx.model_ok else None
	for j, (c, (a, b)) in enumerate(zip(good, results)):
		ctx.case(c, nontrivial=nontrivial_row(c))
		if ans is None:
			# without the model only the implementation-internal parts of the property can be judged
			if isinstance(a, dict) and a['closest'] and a['closest'][0] != a['match']:
				ctx.violation(kind, c, f'closest_genomes[0] = {a["closest"][0]} but closest_match = {a["match"]}', impl=a)
			continue
		if ans[3 * j + 2] != 1:
			raise ValueError('harness generated a database the model calls ill-formed')
		where = f' (env {c["env"]})' if c.get('env') else ''
		judge_row(ctx, kind, c, a, b, model_item(ans[3 * j]), ans[3 * j + 1] == 1, where)


def k_row(ctx, cases):
	_rows(ctx, 'row', cases, lambda cs: [[impl_row(c), impl_row(c)] for c in cs])


def k_rowx(ctx, cases):
	"""argument forms of get_result_item (N as NumPy scalar / huge, row dtype / byte order / strides /
	alignment / sub-class, tuple of genomes, keyword or positional call); same judgement as 'row'"""
	_rows(ctx, 'rowx', cases, lambda cs: [[impl_row(c), impl_row(c)] for c in cs])


def k_rowenv(ctx, cases):
	def evaluate(cs):
		res = [None] * len(cs)
		groups = {}
		for i, c in enumerate(cs):
			groups.setdefault(json.dumps(c.get('env') or {}, sort_keys=True), []).append(i)
		for k, idxs in groups.items():
			out = impl_rows_subprocess([cs[i] for i in idxs], json.loads(k))
			for i, o in zip(idxs, out):
				res[i] = o
		return res
	_rows(ctx, 'rowenv', cases, evaluate)


# ---------------------------------------------------------------------------------------------
# whole queries on generated databases

def build_db(case, d):
	"""write <d>/db.gdb + <d>/db.gs for the case; SQL rows are inserted in case['sqlorder'] so that
	the reference order is defined by the signature file alone"""
	import numpy as np
	from sqlalchemy import create_engine
	from sqlalchemy.orm import Session
	from gambit.db import models as M
	from gambit.kmers import KmerSpec
	from gambit.sigs import SignatureList, SignaturesMeta, AnnotatedSignatures, dump_signatures
	eng = create_engine('sqlite:///' + os.path.join(d, 'db.gdb'))
	M.Base.metadata.create_all(eng)
	s = Session(eng)
	gs = M.ReferenceGenomeSet(key='verif/c09', version='1.0', name='c09')
	s.add(gs)
	tobjs = []
	for t, (par, thr) in enumerate(case['taxa']):
		tobjs.append(M.Taxon(key=f't{t}', name=f'taxon {t}', genome_set=gs, distance_threshold=thr,
		                     parent=None if par is None else tobjs[par]))
	refs = case['refs']
	order = case.get('sqlorder') or list(range(len(refs)))
	descs = case.get('descs') or [f'genome {i}' for i in range(len(refs))]
	idattr = case.get('idattr', 'refseq_acc')
	for i in order:
		g = M.Genome(key=f'g{i}', description=descs[i], refseq_acc=f'ACC{i}', genbank_acc=f'GB{i}' if idattr == 'genbank_acc' else None)
		s.add(M.AnnotatedGenome(genome=g, genome_set=gs, taxon=tobjs[refs[i][1]]))
	s.commit()
	s.close()
	eng.dispose()
	kspec = KmerSpec(case['k'], 'AT')
	# the signature file: the references in order, with unrelated signatures (IDs of no genome) put before
	# reference number `pos` (pos = number of references: at the end) when the case has 'extras'
	idof = {'refseq_acc': 'ACC%d', 'genbank_acc': 'GB%d', 'key': 'g%d'}[idattr]
	entries = []
	extras = sorted(enumerate(case.get('extras') or []), key=lambda x: x[1][0])
	for i, r in enumerate(refs):
		entries += [(f'UNRELATED{j}', sig) for j, (pos, sig) in extras if pos == i]
		entries.append((idof % i, r[0]))
	entries += [(f'UNRELATED{j}', sig) for j, (pos, sig) in extras if pos >= len(refs)]
	sigs = SignatureList([np.array(sorted(set(sig)), dtype=kspec.index_dtype) for _, sig in entries], kspec)
	dump_signatures(os.path.join(d, 'db.gs'), AnnotatedSignatures(sigs, [id_ for id_, _ in entries],
	                                                              SignaturesMeta(id_attr=idattr)), 'hdf5')
	qd = os.path.join(d, 'q')
	os.makedirs(qd)
	qsigs = SignatureList([np.array(sorted(set(q)), dtype=kspec.index_dtype) for q in case['queries']], kspec)
	# IDs of the query signature file (`gambit query -s` labels its inputs with them): the case's labels when it has any
	qids = list(case['labels']) if case.get('labels') is not None else [f'q{i}' for i in range(len(case['queries']))]
	dump_signatures(os.path.join(qd, 'q.gs'), AnnotatedSignatures(qsigs, qids, SignaturesMeta()), 'hdf5')
	return qsigs


def jaccard_bits(a, b):
	a, b = set(a), set(b)
	u = len(a | b)
	if u == 0:
		return 0
	return div32(2 * u - len(a) - len(b), u)


def check_query_case(case):
	if not case['refs'] or not case['queries']:
		raise ValueError('empty')
	if sorted(case.get('sqlorder') or range(len(case['refs']))) != list(range(len(case['refs']))):
		raise ValueError('sqlorder is not a permutation')
	hi = 4 ** case['k']
	for r in [x[0] for x in case['refs']] + case['queries']:
		if any(not (0 <= v < hi) for v in r):
			raise ValueError('k-mer index out of range')


def k_query(ctx, cases):
	import csv
	import shutil
	import gambit.cli
	from click.testing import CliRunner
	from vf import impl as vimpl
	from gambit.db import ReferenceDatabase
	from gambit.query import query, QueryParams
	for case in cases:
		check_query_case(case)
		rows = [dict(n=case['n'], taxa=case['taxa'], refs=[[jaccard_bits(q, r[0]), r[1]] for r in case['refs']])
		        for q in case['queries']]
		for r in rows:
			check_case(r)
		reqs = []
		for r in rows:
			keys, taxa, gt = model_args(r)
			reqs.append((903, [r['n'], keys, taxa, gt]))
			reqs.append((903, [10, keys, taxa, gt]))
		ans = ctx.model(reqs) if ctx.model_ok else None
		ctx.case(case, nontrivial=any(nontrivial_row(r) for r in rows))
		d = vimpl.scratch_dir('gambit-verif-c09-')
		try:
			qsigs = build_db(case, d)
			db = ReferenceDatabase.load_from_dir(d)
			try:
				if [g.genome.key for g in db.genomes] != [f'g{i}' for i in range(len(case['refs']))]:
					ctx.broke('correspondence query (reference order)', f'db.genomes order {[g.genome.key for g in db.genomes][:10]}')
					continue
				gidx = {g.genome.key: i for i, g in enumerate(db.genomes)}
				first = None
				for cs in case['chunks']:
					res = query(db, qsigs, QueryParams(report_closest=case['n'], chunksize=cs))
					obs = []
					for it in res.items:
						om = lambda m: [gidx[m.genome.genome.key], f32_bits(float(m.distance)),
						                None if m.matched_taxon is None else int(m.matched_taxon.key[1:])]
						obs.append(dict(match=om(it.classifier_result.closest_match), closest=[om(m) for m in it.closest_genomes]))
					if first is None:
						first = (cs, obs)
					elif obs != first[1]:
						ctx.violation('query', case, f'closest-genomes lists differ between chunksize={first[0]} and chunksize={cs}',
						              impl_first=first[1], impl=obs)
						break
					if ans is None:
						continue
					bad = False
					for qi, (r, o) in enumerate(zip(rows, obs)):
						m = model_item(ans[2 * qi])
						keys, _, _ = model_args(r)
						bits = [b for b, _ in r['refs']]
						mod = dict(match=[m['match'][0], bits[m['match'][0]], m['match'][2]],
						           closest=[[e[0], bits[e[0]], e[2]] for e in m['closest']])
						if o != mod:
							what = ('closest_genomes[0] differs from closest_match' if o['closest'] and o['closest'][0] != o['match']
							        else 'closest_genomes is not the (distance, reference order) prefix with exact distances and taxa')
							ctx.violation('query', case, f'query #{qi} (chunksize={cs}, N={case["n"]}): {what}: '
							              f'{[e[0] for e in o["closest"]][:12]} / match {o["match"][0]}, expected '
							              f'{[e[0] for e in mod["closest"]][:12]} / match {mod["match"][0]}', impl=o, model=mod)
							bad = True
							break
					if bad:
						break
				else:
					# CLI: CSV names closest_match, JSON lists closest_genomes (N = 10)
					outs = {}
					for cores in case['cores']:
						for fmt in ('csv', 'json'):
							out = os.path.join(d, 'q', f'out{cores}.{fmt}')
							args = ['-d', d, 'query', '-o', out, '-f', fmt, '-s', os.path.join(d, 'q', 'q.gs')]
							if cores:
								args += ['-c', str(cores)]
							r = CliRunner().invoke(gambit.cli.cli, args)
							if r.exit_code != 0:
								raise RuntimeError(f'gambit query failed: {r.output} {r.exception!r}')
							outs[cores, fmt] = out
						with open(outs[cores, 'csv'], newline='') as f:
							crow = list(csv.DictReader(f))
						jit = json.load(open(outs[cores, 'json']))['items']
						for qi in range(len(rows)):
							cd = crow[qi]['closest.description']
							jl = [g['genome']['description'] for g in jit[qi]['closest_genomes']]
							exp = None
							if ans is not None:
								exp = [f'genome {e[0]}' for e in model_item(ans[2 * qi + 1])['closest']]
							if not jl or jl[0] != cd:
								ctx.violation('query', case, f'CLI query #{qi} (cores={cores}): CSV closest.description = {cd!r} but JSON '
								              f'closest_genomes[0] = {jl[:1]}', csv=cd, json=jl, model=exp)
								break
							if exp is not None and jl != exp:
								ctx.violation('query', case, f'CLI query #{qi} (cores={cores}): JSON closest_genomes {jl[:12]} is not the '
								              f'(distance, reference order) prefix {exp[:12]}', csv=cd, json=jl, model=exp)
								break
						else:
							continue
						break
			finally:
				db.session.close()
				db.session.get_bind().dispose()
				if hasattr(db.signatures, 'close'):
					db.signatures.close()
		finally:
			shutil.rmtree(d, ignore_errors=True)


# ---------------------------------------------------------------------------------------------
# caller-supplied objects reused across calls (one database object, one QueryParams, one buffer)

def check_seq_case(case):
	if not case['steps'] or not case['gt']:
		raise ValueError('empty')
	if case.get('mutate') not in ('none', 'params', 'buffer', 'both'):
		raise ValueError('mutate')
	for st in case['steps']:
		if len(st['bits']) != len(case['gt']):
			raise ValueError('row length differs from the number of references')
		check_case(step_row(case, st))


def step_row(case, st):
	return dict(n=st['n'], taxa=case['taxa'], refs=[[b, t] for b, t in zip(st['bits'], case['gt'])])


def impl_rowseq(case):
	"""every step is a get_result_item call on the SAME database object; depending on case['mutate'] also
	on the same QueryParams instance (report_closest reassigned) and / or the same ndarray (overwritten in
	place).  The whole sequence is run twice.  -> per step [observation pass 1, observation pass 2,
	observation of pass 1's retained result object after everything else has run]"""
	import numpy as np
	from types import SimpleNamespace
	from gambit.query import get_result_item, QueryParams, QueryInput
	taxa, gt, steps, mutate = case['taxa'], case['gt'], case['steps'], case['mutate']
	tobjs, genomes = build_objs(taxa, gt)
	gidx = {id(g): i for i, g in enumerate(genomes)}
	tidx = {id(t): i for i, t in enumerate(tobjs)}
	db = SimpleNamespace(genomes=genomes)
	shared = QueryParams(report_closest=steps[0]['n'])
	buf = np.empty(len(gt), dtype=np.float32)
	inp = QueryInput('q')
	obs = lambda item: dict(match=obs_match(item.classifier_result.closest_match, gidx, tidx),
	                        closest=[obs_match(m, gidx, tidx) for m in item.closest_genomes])
	out = [[None, None, None] for _ in steps]
	kept = []
	for rep in range(2):
		for j, st in enumerate(steps):
			if mutate in ('params', 'both'):
				shared.report_closest = st['n']
				params = shared
			else:
				params = QueryParams(report_closest=st['n'])
			row = np.array(st['bits'], dtype=np.uint32).view(np.float32)
			if mutate in ('buffer', 'both'):
				buf[:] = row
				row = buf
			try:
				item = get_result_item(db, params, row, inp)
			except ValueError:
				out[j][rep] = 'ValueError'
				continue
			out[j][rep] = obs(item)
			if rep == 0:
				kept.append((j, item))
	for j, item in kept:
		out[j][2] = obs(item)
	return out


def k_rowseq(ctx, cases):
	for case in cases:
		check_seq_case(case)
		res = impl_rowseq(case)
		rows = [step_row(case, st) for st in case['steps']]
		reqs = []
		for r, (a, _, _) in zip(rows, res):
			keys, taxa, gt = model_args(r)
			reqs.append((903, [model_n(r['n'], len(keys)), keys, taxa, gt]))
			reqs.append((911, [model_n(r['n'], len(keys)), keys, [e[0] for e in a['closest']] if isinstance(a, dict) else []]))
		reqs.append((912, model_args(rows[0])))
		ans = ctx.model(reqs) if ctx.model_ok else None
		ctx.case(case, nontrivial=len(case['steps']) > 1 and any(nontrivial_row(r) for r in rows))
		if ans is not None and ans[-1] != 1:
			raise ValueError('harness generated a database the model calls ill-formed')
		for j, (r, (a, b, late)) in enumerate(zip(rows, res)):
			where = f' (step {j} of a sequence of calls sharing the database object, mutate={case["mutate"]})'
			if late is not None and late != a:
				ctx.violation('rowseq', case, f'the result returned by step {j} changed after later calls on the same objects: '
				              f'{[e[0] for e in a["closest"]][:12]} -> {[e[0] for e in late["closest"]][:12]}', impl=a, impl_later=late)
				break
			if ans is None:
				if isinstance(a, dict) and a['closest'] and a['closest'][0] != a['match']:
					ctx.violation('rowseq', case, f'closest_genomes[0] = {a["closest"][0]} but closest_match = {a["match"]}{where}', impl=a)
					break
				continue
			nv = len(ctx.violations)
			judge_row(ctx, 'rowseq', r, a, b, model_item(ans[2 * j]), ans[2 * j + 1] == 1, where, report=case)
			if len(ctx.violations) > nv:
				break


# ---------------------------------------------------------------------------------------------
# whole queries: other entry points, argument forms, containers, channels (queryx / queryenv)

ODD_NAMES = ['Escherichia coli, K-12 "MG1655"', 'genome;with;semicolons', " leading and trailing ", 'Üñíçødé 菌株',
             "it's 'quoted'", 'tab\there', '0', 'None', 'null', 'a,b,,c', '""', 'x' * 300, '=1+1', '#comment']
QFORMS = ['siglist', 'sigarray', 'list', 'iter', 'u64', 'hdf5', 'tuple']
CALLS = ['params', 'kw', 'kwnp', 'inputs', 'shared', 'parse']
DBFORMS = ['dir', 'files', 'mem']
IDATTRS = ['refseq_acc', 'genbank_acc', 'key']


def _rc(s):
	return s[::-1].translate(str.maketrans('ACGTN', 'TGCAN'))


def kmer_str(v, k):
	return ''.join('ACGT'[(v >> (2 * (k - 1 - i))) & 3] for i in range(k))


def spec_signature(seq, k, prefix='AT'):
	"""the k-mer set of a sequence by direct search on both strands (the harness's own definition; C01 is the
	property that ties gambit's search to it)"""
	out = set()
	for strand in (seq, _rc(seq)):
		i = strand.find(prefix)
		while i >= 0:
			km = strand[i + len(prefix):i + len(prefix) + k]
			if len(km) == k and all(c in 'ACGT' for c in km):
				v = 0
				for c in km:
					v = v * 4 + 'ACGT'.index(c)
				out.add(v)
			i = strand.find(prefix, i + 1)
	return sorted(out)


def query_seq(q, k):
	"""a sequence whose k-mer set contains q (reverse-strand hits may add more; spec_signature says which)"""
	return 'N'.join('AT' + kmer_str(v, k) for v in q) or 'NNNN'


def check_queryx_case(case):
	check_query_case(case)
	nr = len(case['refs'])
	if case.get('descs') is not None and len(case['descs']) != nr:
		raise ValueError('descs')
	for pos, sig in case.get('extras') or []:
		if not (0 <= pos <= nr) or any(not (0 <= v < 4 ** case['k']) for v in sig):
			raise ValueError('extras')
	if case.get('idattr', 'refseq_acc') not in IDATTRS or case.get('dbform', 'dir') not in DBFORMS:
		raise ValueError('idattr/dbform')
	if case.get('labels') is not None and (len(case['labels']) != len(case['queries']) or any(not isinstance(l, str) for l in case['labels'])):
		raise ValueError('labels')
	for c in case.get('configs') or []:
		if c['n'] < 1 or c['qform'] not in QFORMS or c['call'] not in CALLS or (c['chunk'] is not None and c['chunk'] < 1):
			raise ValueError('config')
		if c.get('pk', 'none') not in ('none', 'threads', 'processes') or (c.get('threads') or 1) < 1 or c.get('inform', 'str') not in INFORMS:
			raise ValueError('config')
	for c in case.get('cli') or []:
		if c['input'] not in ('sig', 'files', 'listfile') or c['dbarg'] not in ('-d', 'env'):
			raise ValueError('cli config')


def actual_queries(case, parse):
	"""the k-mer sets the implementation is expected to see for the case's queries"""
	if parse:
		return [spec_signature(query_seq(sorted(set(q)), case['k']), case['k']) for q in case['queries']]
	return [sorted(set(q)) for q in case['queries']]


def query_rows(case, queries, n):
	return [dict(n=n, taxa=case['taxa'], refs=[[jaccard_bits(q, r[0]), r[1]] for r in case['refs']]) for q in queries]


def write_query_files(case, d):
	"""FASTA files (one per query) + a list file; -> paths"""
	qd = os.path.join(d, 'q')
	paths = []
	labels = case.get('labels')
	for i, q in enumerate(case['queries']):
		p = os.path.join(qd, f'query {i}.fasta' if i % 2 else f'query{i}.fa')
		if labels is not None:
			# the command labels a file by its base name without directory and FASTA extension: one sub-directory per
			# query and rotating extensions, so that equal labels become equal file IDs of different files
			os.makedirs(os.path.join(qd, f's{i}'))
			p = os.path.join(qd, f's{i}', file_stem(labels[i]) + ('.fasta', '.fa', '.fna')[i % 3])
		seq = query_seq(sorted(set(q)), case['k'])
		with open(p, 'w') as f:
			if i % 3 == 2 and len(seq) > 12:
				# two records: the k-mer set of a file is the union over its records ('N' separates the k-mers)
				cut = seq.index('N', len(seq) // 3) if 'N' in seq[len(seq) // 3:] else len(seq)
				f.write(f'>q{i}a\n{seq[:cut]}\n>q{i}b\n{seq[cut:] or "N"}\n')
			else:
				f.write(f'>q{i} some description\n{seq}\n')
		paths.append(p)
	with open(os.path.join(qd, 'list.txt'), 'w') as f:
		f.write(''.join(os.path.relpath(p, qd) + '\n' for p in paths))
	return paths


def file_stem(label):
	"""a file name carrying the label (equal labels -> equal names, different labels -> different names)"""
	return ''.join(c if c.isalnum() or c in ' -_' else '%%%02x' % ord(c) for c in label) or '%empty'


def file_signature(case, i):
	"""k-mer set of query file i as written by write_query_files (records are searched separately)"""
	seq = query_seq(sorted(set(case['queries'][i])), case['k'])
	if i % 3 == 2 and len(seq) > 12:
		cut = seq.index('N', len(seq) // 3) if 'N' in seq[len(seq) // 3:] else len(seq)
		parts = [seq[:cut], seq[cut:] or 'N']
	else:
		parts = [seq]
	out = set()
	for p in parts:
		out.update(spec_signature(p, case['k']))
	return sorted(out)


def open_db(case, d):
	"""the reference database in the form the case asks for"""
	from gambit.db import ReferenceDatabase
	form = case.get('dbform', 'dir')
	if form == 'dir':
		return ReferenceDatabase.load_from_dir(d)
	if form == 'files':
		return ReferenceDatabase.load(os.path.join(d, 'db.gdb'), os.path.join(d, 'db.gs'))
	# in memory: the signatures as a SignatureArray wrapped with the file's ids / metadata
	from gambit.db.refdb import load_genomeset
	from gambit.sigs import load_signatures, AnnotatedSignatures, SignatureArray
	_, gset = load_genomeset(os.path.join(d, 'db.gdb'))
	with load_signatures(os.path.join(d, 'db.gs')) as f:
		arr = f[:]
		mem = AnnotatedSignatures(arr if isinstance(arr, SignatureArray) else SignatureArray(arr), list(f.ids), f.meta)
	return ReferenceDatabase(gset, mem)


def close_db(db):
	try:
		db.session.close()
		db.session.get_bind().dispose()
		if hasattr(db.signatures, 'close'):
			db.signatures.close()
	except Exception:
		pass


def query_form(qsets, form, kspec, d):
	"""the query signatures in the container the configuration asks for"""
	import numpy as np
	from gambit.sigs import SignatureList, SignatureArray, load_signatures
	arrs = [np.array(q, dtype=kspec.index_dtype) for q in qsets]
	if form == 'siglist':
		return SignatureList(arrs, kspec)
	if form == 'sigarray':
		return SignatureArray(arrs, kspec)
	if form == 'list':
		return arrs
	if form == 'tuple':
		return tuple(arrs)
	if form == 'iter':
		return iter(arrs)
	if form == 'u64':
		return [np.array(q, dtype=np.uint64) for q in qsets]
	if form == 'hdf5':
		return load_signatures(os.path.join(d, 'q', 'q.gs'))
	raise ValueError(form)


def run_config(db, case, cfg, d, shared, qsets, files):
	"""one API call -> (list of observations per query, results object), or 'skip:<exception>' for a
	strict-classifier error / 'error:...' for any other exception"""
	import numpy as np
	from gambit.query import query, query_parse, QueryParams
	from gambit.seq import SequenceFile
	from gambit.kmers import KmerSpec
	kspec = KmerSpec(case['k'], 'AT')
	n, cs, strict, call = cfg['n'], cfg['chunk'], bool(cfg.get('strict')), cfg['call']
	labels = case.get('labels')
	gidx = {g.genome.key: i for i, g in enumerate(db.genomes)}
	if cfg.get('threads'):
		from gambit._cython.threads import omp_set_num_threads
		omp_set_num_threads(cfg['threads'])
	try:
		if call == 'parse':
			sf = [SequenceFile(p, 'fasta') for p in files]
			pk = dict(none=dict(concurrency=None), threads=dict(concurrency='threads', max_workers=2),
			          processes=dict(max_workers=2))[cfg.get('pk', 'none')]
			if cfg['qform'] in ('siglist', 'list', 'u64'):
				res = query_parse(db, sf, QueryParams(report_closest=n, chunksize=cs, classify_strict=strict),
				                  file_labels=list(labels) if labels is not None else [f'label {i}' for i in range(len(sf))], parse_kw=pk)
			elif labels is not None:
				res = query_parse(db, sf, file_labels=tuple(labels), report_closest=n, chunksize=cs, classify_strict=strict, parse_kw=pk)
			else:
				res = query_parse(db, sf, report_closest=n, chunksize=cs, classify_strict=strict, parse_kw=pk)
		else:
			qs = query_form(qsets, cfg['qform'], kspec, d)
			try:
				if call == 'params':
					res = query(db, qs, QueryParams(report_closest=n, chunksize=cs, classify_strict=strict))
				elif call == 'kw':
					res = query(db, qs, report_closest=n, chunksize=cs, classify_strict=strict)
				elif call == 'kwnp':
					res = query(db, qs, params=None, report_closest=np.int64(n), classify_strict=strict,
					            chunksize=None if cs is None else np.int64(cs))
				elif call == 'inputs':
					res = query(db, qs, QueryParams(strict, cs, n), inputs=query_inputs(labels, len(qsets), cfg.get('inform', 'str')), progress=None)
				else:
					shared.report_closest, shared.chunksize, shared.classify_strict = n, cs, strict
					res = query(db, qs, shared)
			finally:
				if hasattr(qs, 'close'):
					qs.close()
	except Exception as e:
		if strict:
			return 'skip:' + type(e).__name__
		return f'error:{type(e).__name__}: {e}'
	om = lambda m: [gidx[m.genome.genome.key], f32_bits(float(m.distance)),
	                None if m.matched_taxon is None else int(m.matched_taxon.key[1:])]
	return [dict(match=om(it.classifier_result.closest_match), closest=[om(m) for m in it.closest_genomes]) for it in res.items], res


INFORMS = ['str', 'obj', 'mixed', 'sameobj']


def query_inputs(labels, nq, form):
	"""the inputs= argument of query(): the case's labels (default: distinct ones) as strings, as QueryInput objects, as a
	mixture of both, or with ONE QueryInput object standing at every position that has its label"""
	from gambit.query import QueryInput
	if labels is None:
		return [f'in {i}' for i in range(nq)]
	if form == 'obj':
		return [QueryInput(l) for l in labels]
	if form == 'mixed':
		return [QueryInput(l) if i % 2 else l for i, l in enumerate(labels)]
	if form == 'sameobj':
		objs = {}
		return tuple(objs.setdefault(l, QueryInput(l)) for l in labels)
	return list(labels)


def export_outputs(res, d, tag, pretty):
	"""the exporter classes applied directly to a results object (any N, unlike the CLI) -> {fmt: parsed}"""
	import csv
	from gambit.results import CSVResultsExporter, JSONResultsExporter, ResultsArchiveWriter
	outs = {}
	for fmt, exp in (('csv', CSVResultsExporter()), ('json', JSONResultsExporter(pretty=pretty)), ('archive', ResultsArchiveWriter(pretty=not pretty))):
		out = os.path.join(d, 'q', f'exp-{tag}.{fmt}')
		if pretty:
			with open(out, 'w') as f:
				exp.export(f, res)
		else:
			exp.export(out, res)
		if fmt == 'csv':
			with open(out, newline='') as f:
				outs[fmt] = list(csv.DictReader(f))
		else:
			with open(out) as f:
				outs[fmt] = json.load(f)['items']
	return outs


def model_lists(ctx, case, qsets, ns):
	"""{n: [expected observation per query]} from the model (None without the model)"""
	if not ctx.model_ok:
		return None
	rows = query_rows(case, qsets, 1)
	reqs = []
	for r in rows:
		check_case(r)
		keys, taxa, gt = model_args(r)
		for n in ns:
			reqs.append((903, [model_n(n, len(keys)), keys, taxa, gt]))
	ans = ctx.model(reqs)
	out = {n: [] for n in ns}
	for qi, r in enumerate(rows):
		bits = [b for b, _ in r['refs']]
		for j, n in enumerate(ns):
			m = model_item(ans[qi * len(ns) + j])
			out[n].append(dict(match=[m['match'][0], bits[m['match'][0]], m['match'][2]],
			                   closest=[[e[0], bits[e[0]], e[2]] for e in m['closest']]))
	return out


def cli_outputs(d, cfg, files, tag):
	"""run `gambit query` for csv, json and archive -> {fmt: parsed} or 'skip:...' (strict-classifier error)"""
	import csv
	import gc
	import gambit.cli
	from click.testing import CliRunner
	outs = {}
	for fmt in ('csv', 'json', 'archive'):
		out = os.path.join(d, 'q', f'out-{tag}.{fmt}')
		args, env = [], {}
		if cfg['dbarg'] == '-d':
			args += ['-d', d]
		else:
			env['GAMBIT_DB_PATH'] = d
		args += ['query', '-o', out, '-f', fmt]
		if cfg.get('strict') is not None:
			args += ['--strict' if cfg['strict'] else '--no-strict']
		if cfg.get('cores'):
			args += ['-c', str(cfg['cores'])]
		if cfg['input'] == 'sig':
			args += ['-s', os.path.join(d, 'q', 'q.gs')]
		elif cfg['input'] == 'files':
			args += files
		else:
			args += ['-l', os.path.join(d, 'q', 'list.txt'), '--ldir', os.path.join(d, 'q')]
		r = CliRunner(env=env).invoke(gambit.cli.cli, args)
		if files:
			# the command leaves its database session to the garbage collector; collect it here, in this thread,
			# rather than in a worker thread of a later parsing pool (SQLite objects are bound to their thread)
			gc.collect()
		if r.exit_code != 0:
			if cfg.get('strict'):
				return 'skip:' + type(r.exception).__name__
			return f'error:gambit {" ".join(args)} -> exit {r.exit_code}, {r.exception!r}'

		if fmt == 'csv':
			with open(out, newline='') as f:
				outs[fmt] = list(csv.DictReader(f))
		else:
			with open(out) as f:
				outs[fmt] = json.load(f)['items']
	return outs


def judge_cli(ctx, kind, case, outs, exp, descs, where, report=None):
	"""CSV / JSON / archive of one CLI configuration against each other and against the model's N=10 list.
	-> True when a violation was reported (naming `report`, the enclosing multi-step case, when given)"""
	rep = case if report is None else report
	import numpy as np
	tkey = lambda t: None if t is None else int(t['key'][1:])
	nq = len(case['queries'])
	if not (len(outs['csv']) == len(outs['json']) == len(outs['archive']) == nq):
		ctx.violation(kind, rep, f'CLI{where}: {len(outs["csv"])} CSV rows / {len(outs["json"])} JSON items / '
		              f'{len(outs["archive"])} archive items for {nq} queries')
		return True
	for qi in range(nq):
		crow, jit, ait = outs['csv'][qi], outs['json'][qi], outs['archive'][qi]
		cd = crow['closest.description']
		jl = [[int(g['genome']['key'][1:]), f32_bits(g['distance']) if np.float32(g['distance']) == g['distance'] else repr(g['distance']),
		       tkey(g['matched_taxon'])] for g in jit['closest_genomes']]
		jd = [g['genome']['description'] for g in jit['closest_genomes']]
		al = [[int(g['genome']['key'][1:]), f32_bits(g['distance']) if np.float32(g['distance']) == g['distance'] else repr(g['distance']),
		       tkey(g['matched_taxon'])] for g in ait['closest_genomes']]
		am = ait['classifier_result']['closest_match']
		am = [int(am['genome']['key'][1:]), f32_bits(am['distance']) if np.float32(am['distance']) == am['distance'] else repr(am['distance']),
		      tkey(am['matched_taxon'])]
		vals = dict(csv=dict(crow), json=jl, archive=al, archive_match=am, model=None if exp is None else exp[qi])
		if not jd or jd[0] != cd:
			ctx.violation(kind, rep, f'CLI query #{qi}{where}: CSV closest.description = {cd!r} but JSON closest_genomes[0] = {jd[:1]}', **vals)
			return True
		if jl != al:
			ctx.violation(kind, rep, f'CLI query #{qi}{where}: JSON closest_genomes {[e[0] for e in jl][:12]} differs from the archive\'s '
			              f'{[e[0] for e in al][:12]} (same command, same input)', **vals)
			return True
		if not al or al[0] != am:
			ctx.violation(kind, rep, f'CLI query #{qi}{where}: archive closest_genomes[0] = {al[:1]} but classifier closest_match = {am}', **vals)
			return True
		try:
			cbits = f32_bits(np.float32(float(crow['closest.distance'])))
		except ValueError:
			cbits = crow['closest.distance']
		if cbits != jl[0][1]:
			ctx.violation(kind, rep, f'CLI query #{qi}{where}: CSV closest.distance {crow["closest.distance"]!r} is not the distance '
			              f'of JSON closest_genomes[0] (float32 bits {jl[0][1]})', **vals)
			return True
		if exp is None:
			continue
		e = exp[qi]
		if jl != e['closest'] or am != e['match']:
			what = ('is not the (distance, reference order) prefix' if [x[0] for x in jl] != [x[0] for x in e['closest']]
			        else 'does not carry the exact distances / the taxa the distance alone assigns')
			ctx.violation(kind, rep, f'CLI query #{qi}{where}: JSON closest_genomes {[x[0] for x in jl][:12]} {what}; expected '
			              f'{[x[0] for x in e["closest"]][:12]} / match {e["match"][0]}', **vals)
			return True
		if cd != descs[e['match'][0]] or jd != [descs[x[0]] for x in e['closest']]:
			ctx.violation(kind, rep, f'CLI query #{qi}{where}: descriptions {cd!r} / {jd[:6]} are not those of the expected genomes '
			              f'{[x[0] for x in e["closest"]][:6]}', **vals)
			return True
	return False


def k_queryx(ctx, cases):
	import gc
	import shutil
	from vf import impl as vimpl
	from gambit.query import QueryParams
	for case in cases:
		check_queryx_case(case)
		cfgs, clis = case.get('configs') or [], case.get('cli') or []
		need_files = any(c['call'] == 'parse' for c in cfgs) or any(c['input'] != 'sig' for c in clis)
		q_sig = actual_queries(case, False)
		q_file = [file_signature(case, i) for i in range(len(case['queries']))] if need_files else None
		ns = sorted({c['n'] for c in cfgs} | {10})
		exp_sig = model_lists(ctx, case, q_sig, ns)
		exp_file = model_lists(ctx, case, q_file, ns) if need_files else None
		ctx.case(case, nontrivial=any(nontrivial_row(r) for n in ns for r in query_rows(case, q_sig, n)))
		descs = case.get('descs') or [f'genome {i}' for i in range(len(case['refs']))]
		d = vimpl.scratch_dir('gambit-verif-c09-')
		db = None
		try:
			build_db(case, d)
			files = write_query_files(case, d) if need_files else []
			db = open_db(case, d)
			if [g.genome.key for g in db.genomes] != [f'g{i}' for i in range(len(case['refs']))]:
				ctx.broke('correspondence queryx (reference order)', f'db.genomes order {[g.genome.key for g in db.genomes][:10]}')
				continue
			shared = QueryParams()
			seen = {}
			bad = False
			for ci, cfg in enumerate(cfgs):
				parse = cfg['call'] == 'parse'
				obs = run_config(db, case, cfg, d, shared, q_sig, files)
				res = None
				if not isinstance(obs, str):
					obs, res = obs
				where = f'config #{ci} {json.dumps(cfg, sort_keys=True)} on a database opened as {case.get("dbform", "dir")!r}'
				if isinstance(obs, str) and obs.startswith('error:'):
					# a well-formed database and well-formed queries, yet no result at all: the model has a list
					ctx.broke('correspondence queryx (the query raised instead of returning results)',
					          f'{where}: {obs[6:][:300]}; case {json.dumps(case)[:600]}')
					bad = True
					break
				if isinstance(obs, str):
					ctx.count('not-judged:strict-classifier-' + obs[5:])
					continue
				key = (cfg['n'], parse)
				if key in seen and seen[key][1] != obs:
					ctx.violation('queryx', case, f'closest-genomes lists differ between config #{seen[key][0]} and {where} '
					              '(same database, same queries, same N)', impl_first=seen[key][1], impl=obs)
					bad = True
					break
				seen.setdefault(key, (ci, obs))
				exp = exp_file if parse else exp_sig
				for qi, o in enumerate(obs):
					if o['closest'] and o['closest'][0] != o['match']:
						ctx.violation('queryx', case, f'query #{qi}, {where}: closest_genomes[0] = {o["closest"][0]} but closest_match = {o["match"]}', impl=o)
						bad = True
						break
					if exp is not None and o != exp[cfg['n']][qi]:
						e = exp[cfg['n']][qi]
						ctx.violation('queryx', case, f'query #{qi}, {where}: closest_genomes {[x[0] for x in o["closest"]][:12]} / match '
						              f'{o["match"][0]} is not the (distance, reference order) prefix with exact distances and taxa; '
						              f'expected {[x[0] for x in e["closest"]][:12]} / match {e["match"][0]}', impl=o, model=e)
						bad = True
						break
				# the exporters on this results object (the CLI only ever exports N = 10)
				if not bad and judge_cli(ctx, 'queryx', case, export_outputs(res, d, ci, ci % 2 == 1), None if exp is None else exp[cfg['n']],
				                         descs, f' (exporters applied to the result of {where})'):
					bad = True
				if bad:
					break
			if bad:
				continue
			for ci, cfg in enumerate(clis):
				outs = cli_outputs(d, cfg, files, ci)
				if isinstance(outs, str) and outs.startswith('error:'):
					ctx.broke('correspondence queryx (the command failed instead of writing results)',
					          f'{outs[6:][:400]}; case {json.dumps(case)[:600]}')
					break
				if isinstance(outs, str):
					ctx.count('not-judged:strict-classifier-' + outs[5:])
					continue
				exp = exp_sig if cfg['input'] == 'sig' else exp_file
				if judge_cli(ctx, 'queryx', case, outs, None if exp is None else exp[10], descs, f' ({json.dumps(cfg, sort_keys=True)})'):
					break
		finally:
			if db is not None:
				close_db(db)
			db = None
			gc.collect()
			shutil.rmtree(d, ignore_errors=True)


# ---------------------------------------------------------------------------------------------
# caller-owned objects reused across SEVERAL databases of different sizes (multidb)

MCALLS = ['params', 'inputs', 'kw', 'kwinputs', 'default', 'parse', 'parsekw', 'item', 'cli']
MQFORMS = ['siglist', 'sigarray', 'list', 'tuple', 'u64', 'hdf5']


def db_case(case, i):
	"""the query-kind case (database #i of the multi-database case + the shared queries) build_db / model_lists expect"""
	db = case['dbs'][i]
	return dict(k=case['k'], taxa=case['taxa'], queries=case['queries'], refs=db['refs'], sqlorder=db.get('sqlorder'),
	            idattr=case.get('idattr', 'refseq_acc'), dbform=db.get('dbform', 'dir'), extras=db.get('extras'))


def check_multidb_case(case):
	if not case['dbs'] or not case['steps'] or not case['queries']:
		raise ValueError('empty')
	if case['n'] < 1 or case.get('qform', 'siglist') not in MQFORMS or case.get('idattr', 'refseq_acc') not in IDATTRS:
		raise ValueError('n / qform / idattr')
	if case.get('chunk') is not None and case['chunk'] < 1:
		raise ValueError('chunk')
	for i, db in enumerate(case['dbs']):
		check_queryx_case(db_case(case, i))
	for st in case['steps']:
		if not (0 <= st['db'] < len(case['dbs'])) or st['call'] not in MCALLS or (st.get('n') is not None and st['n'] < 1):
			raise ValueError('step')


def step_ns(case):
	"""per step the N the CALLER has set when the step runs (the CLI, and a call that names no N at all, ask for the
	documented default 10)"""
	cur, out = case['n'], []
	for st in case['steps']:
		if st.get('n') is not None:
			cur = st['n']
		out.append(10 if st['call'] in ('cli', 'default') else cur)
	return out


def _sig_snapshot(sigs):
	import numpy as np
	return [(str(np.asarray(sigs[i]).dtype), np.asarray(sigs[i]).tobytes()) for i in range(len(sigs))]


def impl_multidb(case, dirs, dbs, files, rows):
	"""run the case's steps in order on ONE QueryParams object, ONE dict of keyword arguments, ONE list of inputs /
	file labels / files, ONE signatures object and ONE row buffer, whatever database the step addresses.
	-> (per step dict(obs=[observation per query] | 'error:...', res=results object or None, mutated=[what the call changed
	in the caller's objects], held=the shared QueryParams' report_closest after the call), late=[(step, observations of that
	step's retained results after all other steps)])"""
	import copy
	import attr
	import numpy as np
	from gambit.query import query, query_parse, get_result_item, QueryParams, QueryInput
	from gambit.seq import SequenceFile
	from gambit.kmers import KmerSpec
	kspec = KmerSpec(case['k'], 'AT')
	nq = len(case['queries'])
	params = QueryParams(report_closest=case['n'], chunksize=case.get('chunk'), classify_strict=False)
	kwargs = dict(report_closest=case['n'], chunksize=case.get('chunk'))
	inputs = [f'in {i}' for i in range(nq)]
	labels = [f'label {i}' for i in range(nq)]
	sfiles = [SequenceFile(p, 'fasta') for p in files]
	parse_kw = dict(concurrency=None)         # query_parse() itself stores its progress setting in here: reused, not judged
	qinputs = [QueryInput(f'item {i}') for i in range(nq)]
	sigs = query_form(actual_queries(case, False), case.get('qform', 'siglist'), kspec, dirs[0])
	buf = np.empty(max(len(db['refs']) for db in case['dbs']), dtype=np.float32)
	gidx = [{g.genome.key: i for i, g in enumerate(db.genomes)} for db in dbs]

	def observe(items, di):
		om = lambda m: [gidx[di][m.genome.genome.key], f32_bits(float(m.distance)) if np.float32(m.distance) == m.distance else repr(m.distance),
		                None if m.matched_taxon is None else int(m.matched_taxon.key[1:])]
		return [dict(match=om(it.classifier_result.closest_match), closest=[om(m) for m in it.closest_genomes]) for it in items]

	def snapshot():
		return dict(params=attr.astuple(params), params_types=[type(x).__name__ for x in attr.astuple(params)],
		            kwargs=copy.deepcopy(kwargs), inputs=list(inputs), labels=list(labels), files=list(sfiles),
		            item_inputs=copy.deepcopy(qinputs), signatures=_sig_snapshot(sigs))

	out, kept = [], []
	try:
		for j, st in enumerate(case['steps']):
			di, call = st['db'], st['call']
			db = dbs[di]
			if st.get('n') is not None:
				# the caller asks for another N from here on
				params.report_closest = st['n']
				kwargs['report_closest'] = st['n']
			before = snapshot()
			res, items, rowcopy = None, None, None
			try:
				if call == 'params':
					res = query(db, sigs, params)
				elif call == 'inputs':
					res = query(db, sigs, params, inputs=inputs, progress=None)
				elif call == 'kw':
					res = query(db, sigs, **kwargs)
				elif call == 'kwinputs':
					res = query(db, sigs, None, inputs=inputs, **kwargs)
				elif call == 'default':
					res = query(db, sigs)
				elif call == 'parse':
					res = query_parse(db, sfiles, params, file_labels=labels, parse_kw=parse_kw)
				elif call == 'parsekw':
					res = query_parse(db, sfiles, parse_kw=parse_kw, **kwargs)
				elif call == 'item':
					items, m = [], len(case['dbs'][di]['refs'])
					for qi in range(nq):
						buf[:m] = np.array(rows[di][qi], dtype=np.uint32).view(np.float32)
						rowcopy = buf[:m].copy()
						items.append(get_result_item(db, params, buf[:m], qinputs[qi]))
						if buf[:m].tobytes() != rowcopy.tobytes():
							break
				else:
					res = cli_outputs(dirs[di], dict(dbarg=st.get('dbarg', '-d'), input='sig', cores=st.get('cores', 1)), [], f'm{j}')
			except Exception as e:
				out.append(dict(obs=f'error:{type(e).__name__}: {e}', res=None, mutated=[], held=params.report_closest))
				continue
			after = snapshot()
			mutated = [f'{k}: {before[k]!r} -> {after[k]!r}'[:300] for k in before if before[k] != after[k]]
			if any(a is not b for a, b in zip(before['inputs'] + before['labels'] + before['files'], after['inputs'] + after['labels'] + after['files'])):
				mutated.append('inputs / file_labels / files: elements replaced')
			if rowcopy is not None and buf[:len(rowcopy)].tobytes() != rowcopy.tobytes():
				mutated.append('distance row passed to get_result_item: overwritten')
			if call == 'cli':
				out.append(dict(obs=res, res=None, mutated=mutated, held=params.report_closest))
				continue
			if items is None:
				items = res.items
			kept.append((j, di, items))
			out.append(dict(obs=observe(items, di), res=res, mutated=mutated, held=params.report_closest))
		late = [(j, observe(items, di)) for j, di, items in kept]
	finally:
		if hasattr(sigs, 'close'):
			sigs.close()
	return out, late


def k_multidb(ctx, cases):
	"""sequences of query() / query_parse() / get_result_item() / `gambit query` calls over several databases of different
	sizes with the caller's objects shared by all calls; every step is judged on the list the model gives for that step's
	database and the N the caller set, and the caller's objects must come back unchanged"""
	import gc
	import shutil
	from vf import impl as vimpl
	for case in cases:
		check_multidb_case(case)
		ndb = len(case['dbs'])
		ns = step_ns(case)
		need_files = any(st['call'] in ('parse', 'parsekw') for st in case['steps'])
		q_sig = actual_queries(case, False)
		q_file = [file_signature(case, i) for i in range(len(case['queries']))] if need_files else None
		sizes = [len(db['refs']) for db in case['dbs']]
		dcs = [db_case(case, i) for i in range(ndb)]
		exp_sig, exp_file = [None] * ndb, [None] * ndb
		for i in range(ndb):
			mine = sorted({n for st, n in zip(case['steps'], ns) if st['db'] == i})
			if mine:
				exp_sig[i] = model_lists(ctx, dcs[i], q_sig, mine)
				if need_files:
					exp_file[i] = model_lists(ctx, dcs[i], q_file, mine)
		rows = [[[jaccard_bits(q, r[0]) for r in dc['refs']] for q in q_sig] for dc in dcs]
		used = {st['db'] for st in case['steps']}
		lo, hi = min(sizes[i] for i in used), max(sizes[i] for i in used)
		ctx.case(case, nontrivial=len(case['steps']) > 1 and any(lo < n <= hi for n in ns))
		top = vimpl.scratch_dir('gambit-verif-c09-multi-')
		dbs = []
		try:
			dirs = []
			for i in range(ndb):
				d = os.path.join(top, f'db{i}')
				os.makedirs(d)
				build_db(dcs[i], d)
				dirs.append(d)
			files = write_query_files(case, dirs[0]) if need_files else []
			for i in range(ndb):
				dbs.append(open_db(dcs[i], dirs[i]))
			bad_order = [i for i in range(ndb) if [g.genome.key for g in dbs[i].genomes] != [f'g{x}' for x in range(sizes[i])]]
			if bad_order:
				ctx.broke('correspondence multidb (reference order)', f'database #{bad_order[0]}: db.genomes order '
				          f'{[g.genome.key for g in dbs[bad_order[0]].genomes][:10]}')
				continue
			steps, late = impl_multidb(case, dirs, dbs, files, rows)
			history, bad, mutations = [], False, []
			for j, (st, n, r) in enumerate(zip(case['steps'], ns, steps)):
				di, call = st['db'], st['call']
				parse = call in ('parse', 'parsekw')
				whose = 'the default, the call names none' if call in ('cli', 'default') else 'as the caller set it'
				where = (f'step {j} ({call} on database #{di} with {sizes[di]} references, N = {n} ({whose}); the same QueryParams / '
				         f'keyword dict / inputs / signatures objects were used before on databases with {history or "-"} references)')
				history.append(sizes[di])
				obs = r['obs']
				mutations += [f'step {j} ({call}, database #{di}, {sizes[di]} references): {m}' for m in r['mutated']]
				if isinstance(obs, str) and obs.startswith('error:'):
					ctx.broke('correspondence multidb (the call raised / the command failed instead of returning results)',
					          f'{where}: {obs[6:][:300]}; case {json.dumps(case)[:600]}')
					bad = True
					break
				exp = (exp_file if parse else exp_sig)[di]
				e_n = None if exp is None else exp[n]
				descs = [f'genome {x}' for x in range(sizes[di])]
				if call == 'cli':
					if judge_cli(ctx, 'multidb', dcs[di], obs, e_n, descs, f' ({where})', report=case):
						bad = True
						break
					continue
				want = min(n, sizes[di])
				for qi, o in enumerate(obs):
					what = None
					if len(o['closest']) != want:
						what = (f'closest_genomes lists {len(o["closest"])} genomes, the property requires min(N, number of references) = '
						        f'min({n}, {sizes[di]}) = {want}' + (f' (after the call the caller\'s QueryParams holds report_closest = {r["held"]})'
						                                          if call in ('params', 'inputs', 'parse', 'item') else ''))
					elif o['closest'] and o['closest'][0] != o['match']:
						what = f'closest_genomes[0] = {o["closest"][0]} but closest_match = {o["match"]}'
					elif e_n is not None and o != e_n[qi]:
						what = (f'closest_genomes {[x[0] for x in o["closest"]][:12]} / match {o["match"][0]} is not the (distance, reference '
						        f'order) prefix with exact distances and taxa; expected {[x[0] for x in e_n[qi]["closest"]][:12]} / match '
						        f'{e_n[qi]["match"][0]}')
					if what:
						ctx.violation('multidb', case, f'query #{qi}, {where}: {what}', impl=o, model=None if e_n is None else e_n[qi],
						              modified_caller_objects=mutations)
						bad = True
						break
				if bad:
					break
				if st.get('export') and r['res'] is not None:
					if judge_cli(ctx, 'multidb', dcs[di], export_outputs(r['res'], dirs[di], f'm{j}', j % 2 == 1), e_n, descs,
					             f' (exporters applied to the result of {where})', report=case):
						bad = True
						break
			if bad:
				continue
			for j, o in late:
				if o != steps[j]['obs']:
					ctx.violation('multidb', case, f'the result returned by step {j} changed after later calls on the same caller objects',
					              impl=steps[j]['obs'], impl_later=o)
					bad = True
					break
			if not bad and mutations:
				# every list was right, but a call changed an object that belongs to the caller (the model's inputs are values):
				# the next use of that object would not ask for what the caller set
				ctx.broke('correspondence multidb (a call modified an object owned by the caller)', '; '.join(mutations)[:900] +
				          f'; case {json.dumps(case)[:500]}')
		finally:
			for db in dbs:
				close_db(db)
			dbs = []
			gc.collect()
			shutil.rmtree(top, ignore_errors=True)


def qworker():
	"""sub-process side of 'queryenv': [[dir, n, chunks, cores], ...] on stdin -> per database
	dict(api={chunk: obs}, csv=rows, json=items)"""
	import csv
	import gambit.cli
	from click.testing import CliRunner
	from gambit.db import ReferenceDatabase
	from gambit.query import query, QueryParams
	from gambit.sigs import load_signatures

	def one(d, n, chunks, cores):
		db = ReferenceDatabase.load_from_dir(d)
		gidx = {g.genome.key: i for i, g in enumerate(db.genomes)}
		om = lambda m: [gidx[m.genome.genome.key], f32_bits(float(m.distance)),
		                None if m.matched_taxon is None else int(m.matched_taxon.key[1:])]
		api = []
		with load_signatures(os.path.join(d, 'q', 'q.gs')) as qs:
			for cs in chunks:
				res = query(db, qs, QueryParams(report_closest=n, chunksize=cs))
				api.append([dict(match=om(it.classifier_result.closest_match), closest=[om(m) for m in it.closest_genomes])
				            for it in res.items])
		close_db(db)
		r = {}
		for fmt in ('csv', 'json'):
			o = os.path.join(d, 'q', f'env.{fmt}')
			args = ['-d', d, 'query', '-o', o, '-f', fmt, '-s', os.path.join(d, 'q', 'q.gs')] + (['-c', str(cores)] if cores else [])
			x = CliRunner().invoke(gambit.cli.cli, args)
			if x.exit_code != 0:
				raise RuntimeError(f'gambit query failed: {x.output} {x.exception!r}')
			if fmt == 'csv':
				with open(o, newline='') as f:
					r[fmt] = [[row['closest.description'], row['closest.distance']] for row in csv.DictReader(f)]
			else:
				with open(o) as f:
					r[fmt] = [[[g['genome']['key'], g['genome']['description'], g['distance'],
					            None if g['matched_taxon'] is None else g['matched_taxon']['key']] for g in it['closest_genomes']]
					          for it in json.load(f)['items']]
		return dict(api=api, csv=r['csv'], json=r['json'])

	out = []
	for d, n, chunks, cores in json.load(sys.stdin):
		try:
			out.append(one(d, n, chunks, cores))
		except Exception as e:
			out.append(dict(error=f'{type(e).__name__}: {e}'))
	json.dump(out, sys.stdout)


def k_queryenv(ctx, cases):
	"""whole queries (distance kernel + classification + export) in sub-processes whose environment selects the
	CPU features NumPy dispatches on and the OpenMP thread count; every environment must give the model's lists"""
	import shutil
	import numpy as np
	from vf import impl as vimpl
	top = vimpl.scratch_dir('gambit-verif-c09-env-')
	try:
		dirs, exps = [], []
		for i, case in enumerate(cases):
			check_queryx_case(case)
			if not case.get('envs'):
				raise ValueError('no environment')
			d = os.path.join(top, f'db{i}')
			os.makedirs(d)
			build_db(case, d)
			dirs.append(d)
			qs = actual_queries(case, False)
			exps.append(model_lists(ctx, case, qs, sorted({case['n'], 10})))
			ctx.case(case, nontrivial=any(nontrivial_row(r) for r in query_rows(case, qs, case['n'])))
		groups = {}
		for i, case in enumerate(cases):
			for env in case['envs']:
				groups.setdefault(json.dumps(env, sort_keys=True), []).append(i)
		first = {}
		flagged = set()
		for k, idxs in groups.items():
			env = json.loads(k)
			e = dict(os.environ)
			e['OMP_WAIT_POLICY'] = 'passive'        # idle OpenMP threads sleep instead of spinning (speed only)
			e.update(env)
			p = subprocess.run([sys.executable, '-m', 'harness.c09', 'qworker'], env=e, capture_output=True, text=True,
			                   input=json.dumps([[dirs[i], cases[i]['n'], cases[i]['chunks'], cases[i].get('cores', 0)] for i in idxs]),
			                   cwd=os.path.dirname(os.path.dirname(os.path.abspath(__file__))))
			if p.returncode != 0:
				raise RuntimeError('C09 query worker failed: ' + p.stderr[-800:])
			for i, res in zip(idxs, json.loads(p.stdout)):
				case = cases[i]
				if i in flagged:
					continue
				if 'error' in res:
					ctx.broke('correspondence queryenv (the query failed instead of returning results)',
					          f'environment {k}: {res["error"][:400]}; case {json.dumps(case)[:600]}')
					flagged.add(i)
					continue
				descs = case.get('descs') or [f'genome {j}' for j in range(len(case['refs']))]
				jl = [[[int(g[0][1:]), f32_bits(g[2]) if np.float32(g[2]) == g[2] else repr(g[2]), None if g[3] is None else int(g[3][1:])]
				       for g in it] for it in res['json']]
				canon = dict(api=res['api'], json=jl, csv=res['csv'])
				where = f'environment {k}'
				if i in first and first[i][1] != canon:
					ctx.violation('queryenv', case, f'query results differ between environment {first[i][0]} and {where}',
					              impl_first=first[i][1], impl=canon)
					flagged.add(i)
					continue
				first.setdefault(i, (k, canon))
				what = None
				for ci, obs in enumerate(res['api']):
					for qi, o in enumerate(obs):
						if o['closest'] and o['closest'][0] != o['match']:
							what = f'query #{qi} chunksize={case["chunks"][ci]}: closest_genomes[0] = {o["closest"][0]} but closest_match = {o["match"]}'
						elif exps[i] is not None and o != exps[i][case['n']][qi]:
							e_ = exps[i][case['n']][qi]
							what = (f'query #{qi} chunksize={case["chunks"][ci]} N={case["n"]}: closest_genomes {[x[0] for x in o["closest"]][:12]} '
							        f'/ match {o["match"][0]} is not the (distance, reference order) prefix with exact distances and taxa; '
							        f'expected {[x[0] for x in e_["closest"]][:12]} / match {e_["match"][0]}')
						if what:
							break
					if what:
						break
				if not what:
					for qi, (crow, jq) in enumerate(zip(res['csv'], res['json'])):
						if not jq or jq[0][1] != crow[0]:
							what = f'CLI query #{qi}: CSV closest.description = {crow[0]!r} but JSON closest_genomes[0] = {[g[1] for g in jq[:1]]}'
						elif exps[i] is not None and (jl[qi] != exps[i][10][qi]['closest'] or
						                              [g[1] for g in jq] != [descs[x[0]] for x in exps[i][10][qi]['closest']]):
							what = (f'CLI query #{qi}: JSON closest_genomes {[x[0] for x in jl[qi]][:12]} is not the (distance, reference '
							        f'order) prefix {[x[0] for x in exps[i][10][qi]["closest"]][:12]} with exact distances and taxa')
						if what:
							break
				if what:
					ctx.violation('queryenv', case, f'{where}: {what}', impl=canon, model=None if exps[i] is None else exps[i])
					flagged.add(i)
	finally:
		shutil.rmtree(top, ignore_errors=True)


KINDS = {'row': k_row, 'rowenv': k_rowenv, 'query': k_query, 'rowx': k_rowx, 'rowseq': k_rowseq,
         'queryx': k_queryx, 'queryenv': k_queryenv, 'multidb': k_multidb}


def setup(ctx):
	from vf import impl
	impl.check_import()


# ---------------------------------------------------------------------------------------------
# generators

def gen_taxa(rng, nt, dvals):
	"""forest with parents before children; thresholds on / next to the given float32 distances"""
	import math
	taxa = []
	for t in range(nt):
		par = None if (t == 0 or rng.random() < 0.15) else rng.randrange(t)
		r = rng.random()
		if r < 0.3:
			thr = None
		elif r < 0.75 and dvals:
			x = bits_f32(rng.choice(dvals))
			thr = rng.choice([x, math.nextafter(x, 2.0), math.nextafter(x, -1.0) if x > 0 else x])
		else:
			thr = rng.random()
		taxa.append([par, thr])
	return taxa


def gen_values(rng, nv):
	"""a few float32 distances in [0,1]: ratios of small counts and their float32 neighbours"""
	import numpy as np
	vals = set()
	while len(vals) < nv:
		b = rng.randint(1, 60)
		a = rng.randint(0, b)
		v = div32(a, b)
		r = rng.random()
		if r < 0.2 and 0 < v < 0x3f800000:
			v += rng.choice([-1, 1])
		elif r < 0.25:
			v = rng.choice([0, 0x3f800000, 1, 0x00800000])
		vals.add(v)
	return sorted(vals)


def gen_row(rng, length, nv, n=None):
	vals = gen_values(rng, nv)
	nt = rng.randint(1, 6)
	taxa = gen_taxa(rng, nt, vals)
	refs = [[rng.choice(vals), rng.randrange(nt)] for _ in range(length)]
	if n is None:
		n = rng.choice([1, 2, 3, 10, 10, max(1, length - 1), length, length + 1, 1000, rng.randint(1, length + 2)])
	return dict(n=n, taxa=taxa, refs=refs, layout=rng.choice(['1d', 'row2d']), strict=rng.random() < 0.25)


def gen_query_case(rng, nrefs, nq, k=5):
	hi = 4 ** k
	base = [sorted(rng.sample(range(hi), rng.randint(1, 12))) for _ in range(rng.randint(1, 4))]
	pool = []
	for b in base:
		pool.append(b)
		# equidistant variants: replace one element by another
		for _ in range(2):
			c = list(b)
			c[rng.randrange(len(c))] = rng.randrange(hi)
			pool.append(sorted(set(c)))
	nt = rng.randint(1, 5)
	dv = [div32(a, b) for b in (2, 3, 4, 5, 7, 12) for a in range(1, b + 1)]
	taxa = gen_taxa(rng, nt, dv)
	refs = [[list(rng.choice(pool)), rng.randrange(nt)] for _ in range(nrefs)]
	if rng.random() < 0.2:
		refs[rng.randrange(nrefs)][0] = []
	queries = []
	for _ in range(nq):
		q = list(rng.choice(pool))
		if rng.random() < 0.5:
			q.append(rng.randrange(hi))
		queries.append(sorted(set(q)))
	order = list(range(nrefs))
	rng.shuffle(order)
	return dict(k=k, n=rng.choice([1, 3, 10, nrefs, nrefs + 5]), taxa=taxa, refs=refs, queries=queries, sqlorder=order,
	            chunks=rng.sample([1, 2, 3, 7, 16, 1000, None], 3), cores=rng.sample([0, 1, 2, 5], 2))


def gen_rowx(rng, length):
	"""a tie-heavy row with the call's arguments in one of the forms a caller may use"""
	c = gen_row(rng, length, rng.choice([1, 2, 3, 5]))
	c['dt'] = rng.choice(DTYPES)
	c['layout'] = rng.choice(LAYOUTS)
	c['genomes'] = rng.choice(['list', 'tuple'])
	c['call'] = rng.choice(['default', 'kw', 'pos'])
	r = rng.random()
	if r < 0.4:
		nt = rng.choice([t for t in NTYPES if t not in ('int', 'bool')])
		if c['n'] > NTYPES[nt]:
			c['n'] = rng.randint(1, min(NTYPES[nt], length + 2))
		c['ntype'] = nt
	elif r < 0.55:
		c['n'] = rng.choice(HUGE_N)
		c['ntype'] = rng.choice(['int'] + [t for t in ('int64', 'uint64', 'intp', 'uint32') if c['n'] <= NTYPES[t]])
	elif r < 0.6:
		c['n'], c['ntype'] = 1, 'bool'
	if c['dt'] in ('f8', '>f8') and rng.random() < 0.6:
		to_f64(rng, c)
	return c


def to_f64(rng, c):
	"""turn the row into genuine doubles: each float32 distance moved by a few double ulps, so values that
	differ as doubles would collide (and thresholds would be crossed) if anything narrowed them to float32"""
	import math
	refs = []
	for b, t in c['refs']:
		refs.append([max(0, f64_key(bits_f32(b)) + rng.choice([-2, -1, 0, 0, 0, 1, 2])), t])
	c['refs'] = refs
	c['f64'] = True
	taxa = []
	for par, thr in c['taxa']:
		if thr is not None and rng.random() < 0.6:
			x = struct.unpack('<d', struct.pack('<q', rng.choice(refs)[0]))[0]
			thr = rng.choice([x, math.nextafter(x, 2.0), math.nextafter(x, -1.0) if x > 0 else x])
		taxa.append([par, thr])
	c['taxa'] = taxa


def gen_rowseq(rng):
	"""a short sequence of rows over ONE set of references: repeats, permutations and one-entry edits of a base row"""
	vals = gen_values(rng, rng.choice([1, 2, 2, 3, 4]))
	nt = rng.randint(1, 5)
	taxa = gen_taxa(rng, nt, vals)
	m = rng.choice([2, 3, 5, 8, 16, 17, 18, 33, 70, 130])
	gt = [rng.randrange(nt) for _ in range(m)]
	base = [rng.choice(vals) for _ in range(m)]
	steps = []
	for _ in range(rng.randint(2, 6)):
		r = rng.random()
		bits = list(base)
		if 0.3 <= r < 0.6:
			rng.shuffle(bits)
		elif 0.6 <= r < 0.8:
			bits[rng.randrange(m)] = rng.choice(vals)
		elif r >= 0.8:
			bits = [rng.choice(vals) for _ in range(m)]
		steps.append(dict(n=rng.choice([1, 2, 3, 10, max(1, m - 1), m, m + 1]), bits=bits))
	return dict(taxa=taxa, gt=gt, steps=steps, mutate=rng.choice(['none', 'params', 'buffer', 'both']))


def gen_descs(rng, nrefs):
	r = rng.random()
	if r < 0.3:
		return None
	if r < 0.65:
		# unusual but distinct names
		return [f'{rng.choice(ODD_NAMES)} [{i}]' if rng.random() < 0.8 else rng.choice(ODD_NAMES) + ' ' * i for i in range(nrefs)]
	# descriptions shared by several genomes (the column is not unique)
	pool = rng.sample(ODD_NAMES, rng.randint(1, 3))
	return [rng.choice(pool) for _ in range(nrefs)]


def gen_queryx_base(rng, nrefs, nq):
	k = rng.choice([5, 5, 6, 8, 9, 11, 17])   # k <= 4 gives uint8 signatures, which the distance kernel refuses (no result at all)
	c = gen_query_case(rng, nrefs, nq, k=k)
	del c['chunks'], c['cores']
	if rng.random() < 0.25:
		c['queries'][rng.randrange(nq)] = []
	if nq > 1 and rng.random() < 0.4:
		c['queries'][rng.randrange(nq)] = list(c['queries'][rng.randrange(nq)])
	if rng.random() < 0.55:
		# unrelated signatures in the signature file; equal to a query or a reference, so that they would be
		# the nearest / would tie if they were taken for references
		src = [q for q in c['queries']] + [r[0] for r in c['refs']]
		c['extras'] = [[rng.randint(0, nrefs), list(rng.choice(src))] for _ in range(rng.randint(1, 4))]
	c['idattr'] = rng.choice(IDATTRS)
	return c


def pick_chunk(rng, nrefs, nq):
	"""a chunk size; tiny chunks only where the number of kernel calls (queries x chunks) stays small"""
	opts = [c for c in (1, 2, 3, 7, 16) if nq * -(-nrefs // c) <= 120] + [1000, None, nrefs, nrefs + 1, max(1, nrefs - 1)]
	return rng.choice(opts)


def gen_queryx_case(rng):
	nrefs = rng.choice([1, 2, 3, 5, 9, 12, 17, 20, 40])
	files = rng.random() < 0.4          # query genomes also given as FASTA files (query_parse / CLI positional / -l)
	nq = rng.choice([1, 2, 3]) if files else rng.choice([1, 2, 3, 3, 8, 25])
	c = gen_queryx_base(rng, nrefs, nq)
	c['descs'] = gen_descs(rng, nrefs)
	c['dbform'] = rng.choice(DBFORMS)
	n0 = rng.choice([1, 2, 3, 10, nrefs, nrefs + 5])
	calls = rng.sample([x for x in CALLS if x != 'parse'], 3) + (['parse'] if files else [])
	c['configs'] = [dict(n=n0 if rng.random() < 0.7 else rng.choice([1, 2, 10, max(1, nrefs - 1), nrefs + 1, 2 ** 40]),
	                     chunk=pick_chunk(rng, nrefs, nq), qform=rng.choice(QFORMS), call=call,
	                     strict=rng.random() < 0.2, threads=rng.choice([1, 1, 2, 3]),
	                     pk=rng.choice(['none', 'none', 'threads', 'threads', 'processes'])) for call in calls]
	c['n'] = n0
	c['cli'] = [dict(cores=rng.choice([1, 2]) if files and j == 0 else rng.choice([0, 1, 2, 5]), strict=rng.choice([None, None, False, True]),
	                 input=rng.choice(['files', 'listfile']) if files and j == 0 else 'sig', dbarg=rng.choice(['-d', '-d', 'env']))
	            for j in range(2 if files else 1)]
	return c


LABEL_POOL = ['sample', 'genome', 'contigs', 'assembly 1', 'a.b', '1', '2', 'Ünïcode', 'x' * 40, 'query', 'None', '0']


def gen_labels(rng, queries):
	"""one label per query in which at least two DIFFERENT query genomes (where there are any) carry the same label"""
	nq = len(queries)
	scheme = rng.choice(['all-equal', 'all-empty', 'pool', 'pool', 'positions', 'one-pair'])
	if scheme == 'all-equal':
		return scheme, [rng.choice(LABEL_POOL)] * nq
	if scheme == 'all-empty':
		return scheme, [''] * nq
	if scheme == 'positions':
		# the default labels '1' .. 'nq' at other positions than their own, with one of them repeated
		labels = [str(i + 1) for i in range(nq)]
		labels = labels[1:] + labels[:1]
		labels[rng.randrange(nq)] = labels[rng.randrange(nq)]
		return scheme, labels
	if scheme == 'one-pair':
		labels = [f'{rng.choice(LABEL_POOL)} {i}' for i in range(nq)]
	else:
		pool = rng.sample(LABEL_POOL, rng.choice([1, 2, 2, 3])) + ([''] if rng.random() < 0.3 else [])
		labels = [rng.choice(pool) for _ in range(nq)]
	# make sure two queries with different k-mer sets share a label
	pairs = [(i, j) for i in range(nq) for j in range(i + 1, nq) if queries[i] != queries[j]]
	if pairs and not any(labels[i] == labels[j] for i, j in pairs):
		i, j = rng.choice(pairs)
		labels[j] = labels[i]
	return scheme, labels


def gen_qlabels_case(rng):
	"""a multi-query batch whose input labels collide (equal / empty / default-looking labels on different query genomes),
	sent through every channel that takes labels: query(inputs=), query_parse(file_labels=), the IDs of a -s signature
	file, the base names of query files in different directories (positional and -l)"""
	nrefs = rng.choice([2, 3, 5, 9, 12, 17, 40])
	files = rng.random() < 0.5
	nq = rng.choice([2, 2, 3]) if files else rng.choice([2, 3, 4, 6, 12])
	c = gen_queryx_base(rng, nrefs, nq)
	# different genomes first: queries drawn from one pool are often equal, and equal queries cannot show a mix-up
	hi = 4 ** c['k']
	for i in range(nq):
		while c['queries'][i] in c['queries'][:i]:
			c['queries'][i] = sorted(set(c['queries'][i] + [rng.randrange(hi)]))
	if nq > 2 and rng.random() < 0.3:
		c['queries'][-1] = list(c['queries'][0])       # ... and one genome given twice
	c['descs'] = gen_descs(rng, nrefs)
	c['dbform'] = rng.choice(DBFORMS)
	c['label_scheme'], c['labels'] = gen_labels(rng, c['queries'])
	n0 = rng.choice([1, 2, 3, 10, nrefs])
	calls = ['inputs', 'inputs'] + (['parse', 'parse'] if files else [rng.choice(['params', 'kw', 'shared'])])
	forms = rng.sample(INFORMS, 2)
	c['configs'] = [dict(n=n0 if rng.random() < 0.7 else rng.choice([1, 2, 10, nrefs + 1]), chunk=pick_chunk(rng, nrefs, nq),
	                     qform=rng.choice(QFORMS if j % 2 else ['siglist', 'list', 'u64']), call=call, strict=False,
	                     threads=rng.choice([1, 1, 2]), pk=rng.choice(['none', 'threads']), inform=forms[j % 2])
	                for j, call in enumerate(calls)]
	c['n'] = n0
	c['cli'] = [dict(cores=rng.choice([0, 1, 2]), strict=rng.choice([None, False]), input=inp, dbarg=rng.choice(['-d', '-d', 'env']))
	            for inp in ['sig'] + ([rng.choice(['files', 'listfile'])] if files else [])]
	return c


def gen_queryenv_case(rng, envs):
	nrefs = rng.choice([2, 5, 9, 17, 40, 70, 150])
	nq = rng.choice([1, 3, 8, 20])
	c = gen_queryx_base(rng, nrefs, nq)
	c['n'] = rng.choice([1, 3, 10, nrefs])
	c['chunks'] = [pick_chunk(rng, nrefs, nq), pick_chunk(rng, nrefs, nq)]
	c['cores'] = rng.choice([0, 0, 1, 3])
	c['envs'] = envs
	return c


def gen_multidb_case(rng):
	"""2-4 databases over one taxonomy whose sizes lie below, on and above N, visited in ascending / descending /
	sandwich / interleaved order by calls that all use the caller's one QueryParams, keyword dict, inputs, signatures"""
	n = rng.choice([1, 2, 3, 3, 4, 5, 5, 8, 10, 10])
	below = [x for x in {1, n - 3, n - 2, n - 1} if 1 <= x < n]
	above = [n + 1, n + 2, n + 4, 2 * n + 1, n + 15]
	sizes = ([rng.choice(below)] if below else [n]) + [rng.choice(above)]
	for _ in range(rng.choice([0, 1, 1, 2])):
		sizes.append(rng.choice(below + [n, n] + above + [9, 10, 12]))
	rng.shuffle(sizes)
	files = rng.random() < 0.4
	nq = rng.choice([1, 2, 3]) if files else rng.choice([1, 2, 3, 3, 6])
	base = gen_query_case(rng, sum(sizes), nq, k=rng.choice([5, 5, 6, 8, 11]))
	dbs, at = [], 0
	for m in sizes:
		order = list(range(m))
		rng.shuffle(order)
		db = dict(refs=base['refs'][at:at + m], sqlorder=order, dbform=rng.choice(DBFORMS))
		if rng.random() < 0.3:
			# unrelated signatures in the signature file (equal to a query: they would be nearest if taken for references)
			db['extras'] = [[rng.randint(0, m), list(rng.choice(base['queries']))] for _ in range(rng.randint(1, 2))]
		dbs.append(db)
		at += m
	by_size = sorted(range(len(sizes)), key=lambda i: sizes[i])
	pattern = rng.choice(['ascending', 'descending', 'sandwich', 'interleaved', 'interleaved'])
	if pattern == 'ascending':
		visit = by_size
	elif pattern == 'descending':
		visit = by_size[::-1]
	elif pattern == 'sandwich':
		visit = [by_size[-1], by_size[0], by_size[-1]] + by_size[1:-1] + [by_size[0]]
	else:
		visit = list(range(len(sizes))) + [rng.randrange(len(sizes)) for _ in range(rng.randint(1, 4))]
		rng.shuffle(visit)
	calls = ['params'] * 3 + ['inputs'] * 2 + ['item'] * 2 + ['kw', 'kwinputs', 'default'] + (['parse', 'parse', 'parsekw'] if files else [])
	steps = []
	for di in visit:
		st = dict(db=di, call='cli' if rng.random() < 0.06 else rng.choice(calls))
		if steps and rng.random() < 0.15:
			st['n'] = rng.choice([1, 2, n, n + 1, sizes[di], sizes[di] + 1, max(1, sizes[di] - 1), 2 ** 40])
		if st['call'] == 'cli':
			st['cores'] = rng.choice([0, 1, 2])
			st['dbarg'] = rng.choice(['-d', 'env'])
		elif st['call'] != 'item' and rng.random() < 0.25:
			st['export'] = True
		steps.append(st)
	return dict(k=base['k'], n=n, taxa=base['taxa'], queries=base['queries'], dbs=dbs, steps=steps, pattern=pattern,
	            chunk=rng.choice([None, 1000, 1000, 1, 2, 3, 7, n, max(sizes)]), idattr=rng.choice(IDATTRS),
	            qform=rng.choice(MQFORMS))


def generate(ctx):
	import itertools
	rng = ctx.rng
	ctx.rule(RULE)
	# the Coq refutation witness for the unfixed algorithm ([7;7]) and its neighbours
	half, one = 0x3f000000, 0x3f800000
	taxa0 = [[None, None], [0, 0.75], [1, 0.5]]
	for bits in ([half, half], [one, half, half], [half] * 5, [half] * 17, [half, 0, 0, half, 0]):
		for n in (1, 2, 10):
			ctx.count('stream:witness')
			yield 'row', dict(n=n, taxa=taxa0, refs=[[b, 2] for b in bits], layout='1d')
	# exhaustive small scope: all rows of length <= 5 over three distances, every N up to length+1
	vals = [div32(1, 4), half, div32(3, 4)]
	for ln in range(1, 6):
		for combo in itertools.product(range(3), repeat=ln):
			for n in range(1, ln + 2):
				ctx.count('stream:exhaustive-rows')
				yield 'row', dict(n=n, taxa=taxa0, refs=[[vals[v], (i + v) % 3] for i, v in enumerate(combo)], layout='row2d')
	ctx.exhaustive = True
	ctx.extra['exhaustive_scope'] = 'all distance rows of length <= 5 over 3 distinct distances x every N in 1..length+1'
	# tie-heavy random rows; lengths on both sides of 16, 64 and 256
	lens = [1, 2, 3, 5, 8, 15, 16, 17, 18, 31, 33, 63, 64, 65, 66, 100, 128, 129]
	big = [255, 256, 257, 300] + ctx.pick([], [511, 513, 600])
	for _ in range(ctx.pick(3000, 30000)):
		ctx.count('stream:random-rows')
		yield 'row', gen_row(rng, rng.choice(lens), rng.choice([1, 2, 2, 3, 3, 5, 9]))
	for _ in range(ctx.pick(150, 1500)):
		ctx.count('stream:random-rows-long')
		ln = rng.choice(big)
		yield 'row', gen_row(rng, ln, rng.choice([1, 2, 3, 5, 30]), n=rng.choice([1, 10, 10, 20, ln // 2, ln, ln + 1]))
	# all-distinct rows (no tie): the plain sorted order
	for _ in range(ctx.pick(100, 1000)):
		ctx.count('stream:distinct-rows')
		ln = rng.randint(2, 40)
		c = gen_row(rng, ln, ln)
		vs = gen_values(rng, ln)
		rng.shuffle(vs)
		c['refs'] = [[v, r[1]] for v, r in zip(vs, c['refs'])]
		yield 'row', c
	# CPU-dispatch / thread-count variants in sub-processes
	envs = ENVS if not ctx.quick else [ENVS[0], ENVS[1], ENVS[3]]
	rows = []
	for _ in range(ctx.pick(100, 600)):
		rows.append(gen_row(rng, rng.choice(lens + big), rng.choice([1, 2, 3, 5])))
	for env in envs:
		for r in rows:
			ctx.count('stream:rowenv')
			yield 'rowenv', dict(r, env=env)
	# whole queries on generated databases (identical / equidistant references), chunk sizes, CLI
	for _ in range(ctx.pick(60, 400)):
		ctx.count('stream:query')
		yield 'query', gen_query_case(rng, rng.choice([1, 2, 5, 9, 12, 17, 20, 40, 70]), rng.randint(1, 3))
	# ---- streams added by the coverage audit (see the table in the module docstring) ----------------------
	# argument forms of get_result_item: N as NumPy scalar / bool / astronomically large, distance row as
	# float64 / non-native byte order / strided / negative stride / unaligned / read-only / sub-class,
	# genuine double distances, tuple of genomes, keyword / positional call
	for _ in range(ctx.pick(600, 9000)):
		ctx.count('stream:rowx-forms')
		yield 'rowx', gen_rowx(rng, rng.choice(lens + [255, 256, 257]))
	# the same forms under other CPU-dispatch / thread settings
	xrows = [gen_rowx(rng, rng.choice(lens + big)) for _ in range(ctx.pick(60, 400))]
	for env in envs:
		for r in xrows:
			ctx.count('stream:rowenv-forms')
			yield 'rowenv', dict(r, env=env)
	# caller-supplied objects reused across calls
	for _ in range(ctx.pick(150, 2500)):
		ctx.count('stream:rowseq')
		yield 'rowseq', gen_rowseq(rng)
	# whole queries through the other entry points / containers / channels
	for _ in range(ctx.pick(24, 300)):
		ctx.count('stream:queryx')
		yield 'queryx', gen_queryx_case(rng)
	# the caller's objects reused across several databases of different sizes (below / on / above N), in both orders
	# and interleaved, through query(), query_parse(), get_result_item() and the command
	for _ in range(ctx.pick(40, 300)):
		ctx.count('stream:multidb')
		yield 'multidb', gen_multidb_case(rng)
	# whole queries (kernel + classification + CLI export) in sub-processes per CPU-dispatch / thread setting
	for _ in range(ctx.pick(6, 60)):
		ctx.count('stream:queryenv')
		yield 'queryenv', gen_queryenv_case(rng, envs)
	# batches of different query genomes with colliding input labels (equal, empty, default-looking), through every
	# channel that carries labels; judged per position like every queryx case
	for _ in range(ctx.pick(10, 120)):
		ctx.count('stream:query-labels')
		yield 'queryx', gen_qlabels_case(rng)
	# malformed stream: no reference at all (np.argmin raises ValueError before anything is reported)
	ctx.count('stream:malformed')
	yield 'row', dict(n=10, taxa=taxa0, refs=[], layout='1d')


if __name__ == '__main__':
	if sys.argv[1:] == ['worker']:
		worker()
	elif sys.argv[1:] == ['qworker']:
		qworker()
