"""C09 -- the closest-genomes list is the deterministic (distance, reference order) prefix.

Tie: B.  The model (Model/C09.v: stable argsort = merge sort on (distance, index), argmin =
first minimum, matching_taxon walk) and the extracted specification checker (Spec/C09.v
closest_listb, proved to accept exactly the model's list) are run on the same inputs as

  row     gambit.query.get_result_item on a distance row (in-process)
  rowenv  the same in a sub-process with NPY_DISABLE_CPU_FEATURES / OMP_NUM_THREADS set
  query   gambit.query.query on a generated on-disk database for several chunk sizes, and the
          CLI `gambit query` (CSV and JSON, several --cores) on the same database

Observables: the list of (reference index, float32 bit pattern of the distance, matched taxon),
the closest match, CSV closest.description, JSON closest_genomes[0].  Model inputs (distance
keys, taxonomy tables, reference order) come from the harness's own generated structures."""
import json
import os
import struct
import subprocess
import sys

PROP = 'C09'
RULE = ('row/rowenv: (N, [(float32 distance, taxon)], taxonomy) -> get_result_item: closest_genomes must be accepted by '
        'the extracted checker closest_listb (= model list), carry dists[i] bit-exactly and the taxon the model assigns, '
        'and start with classify()\'s closest_match; identical on a repeated call.  query: generated reference '
        'database + query signatures -> query() for several chunk sizes and the CLI (csv/json, several --cores): same '
        'list for every configuration, CSV closest.description == JSON closest_genomes[0].  non-trivial: at least two '
        'references and a tie of distances inside or at the boundary of the reported prefix')
TRUSTED = ['NumPy: np.argsort(kind="stable") is a stable sort by value and np.argmin returns the first minimum '
           '(modelled as merge sort on (distance, index) / left-to-right scan; sampled on every case)',
           'NumPy-1 scalar comparison float32 <= Python float is done in double precision (modelled on 64-bit keys)',
           'bit patterns of non-negative IEEE numbers are order-isomorphic to their values (harness sends keys)',
           'SQLAlchemy/SQLite/h5py return the generated taxonomy, thresholds and signatures unchanged (query kind)']
ASSUMPTIONS = ['distances are finite, non-negative, not NaN and not -0.0 (Jaccard distances lie in [0,1])',
               'every reference genome has a taxon; the taxonomy is a forest (acyclic parent pointers)',
               'report_closest N >= 1; the distance row has one entry per reference genome',
               'reference order = order of db.genomes = order of the signatures in the signature file']
CORRESPONDENCES = ['row', 'rowenv', 'query']
BATCH = 400

AVX512 = 'AVX512F AVX512CD AVX512_SKX AVX512_CLX AVX512_CNL AVX512_ICL'
ENVS = [
	{},
	{'NPY_DISABLE_CPU_FEATURES': AVX512, 'OMP_NUM_THREADS': '1'},
	{'NPY_DISABLE_CPU_FEATURES': 'AVX2 FMA3 ' + AVX512, 'OMP_NUM_THREADS': '3'},
	{'NPY_DISABLE_CPU_FEATURES': 'SSSE3 SSE41 POPCNT SSE42 AVX F16C FMA3 AVX2 ' + AVX512, 'OMP_NUM_THREADS': '16'},
]


# ---------------------------------------------------------------------------------------------
# numbers

def f32_bits(x):
	"""float32 bit pattern of a number (exact for values that are float32)"""
	return struct.unpack('<I', struct.pack('<f', x))[0]


def bits_f32(b):
	return struct.unpack('<f', struct.pack('<I', b))[0]


def f64_key(x):
	"""order-isomorphic integer key of a non-negative double"""
	return struct.unpack('<q', struct.pack('<d', x))[0]


def key_of_bits(b):
	return f64_key(bits_f32(b))


def div32(a, b):
	"""binary32 division of two small non-negative integers -> bit pattern"""
	import numpy as np
	return int(np.array(np.float32(a) / np.float32(b), dtype=np.float32).view(np.uint32))


# ---------------------------------------------------------------------------------------------
# case validation / model requests

def check_case(case):
	"""raise ValueError for a case outside the property's domain (e.g. produced by shrinking)"""
	taxa, refs, n = case['taxa'], case['refs'], case['n']
	if n < 1:
		raise ValueError('n < 1')
	for t, (par, thr) in enumerate(taxa):
		if par is not None and not (0 <= par < t):
			raise ValueError('parent does not precede child')
		if thr is not None and not (thr == thr and thr >= 0):
			raise ValueError('bad threshold')
	for bits, t in refs:
		if not (0 <= t < len(taxa)):
			raise ValueError('taxon index out of range')
		if not (0 <= bits <= 0x7f800000):
			raise ValueError('distance not a non-negative number')


def model_args(case):
	keys = [key_of_bits(b) for b, _ in case['refs']]
	taxa = [[[] if par is None else [par], [] if thr is None else [f64_key(thr)]] for par, thr in case['taxa']]
	gt = [t for _, t in case['refs']]
	return keys, taxa, gt


def model_item(ans):
	"""decode op 903's answer -> 'ValueError' | dict(match=[i,key,m], closest=[[i,key,m],...])"""
	from vf.main import ERRNAMES
	if ans[0] != 0:
		return ERRNAMES.get(ans[1], f'err{ans[1]}')
	c, es = ans[1]
	e = lambda x: [x[0], x[1], (x[2][0] if x[2] else None)]
	return dict(match=e(c), closest=[e(x) for x in es])


# ---------------------------------------------------------------------------------------------
# implementation side

_objs_cache = {}


def build_objs(taxa, gtaxon):
	"""transient ORM objects (no session): Taxon forest and one AnnotatedGenome per reference"""
	from gambit.db import models as M
	k = json.dumps([taxa, gtaxon])
	if k in _objs_cache:
		return _objs_cache[k]
	tobjs = []
	for t, (par, thr) in enumerate(taxa):
		tobjs.append(M.Taxon(key=f't{t}', name=f'taxon {t}', distance_threshold=thr,
		                     parent=None if par is None else tobjs[par]))
	genomes = [M.AnnotatedGenome(genome=M.Genome(key=f'g{i}', description=f'genome {i}'), taxon=tobjs[t])
	           for i, t in enumerate(gtaxon)]
	if len(_objs_cache) > 64:
		_objs_cache.clear()
	_objs_cache[k] = (tobjs, genomes)
	return tobjs, genomes


def obs_match(m, gidx, tidx):
	import numpy as np
	d = m.distance
	bits = int(np.array(d, dtype=np.float32).view(np.uint32)) if np.float32(d) == d else repr(d)
	return [gidx[id(m.genome)], bits, None if m.matched_taxon is None else tidx[id(m.matched_taxon)]]


def impl_row(case):
	"""get_result_item on the case's row -> observable (or the name of the exception)"""
	import numpy as np
	from types import SimpleNamespace
	from gambit.query import get_result_item, QueryParams, QueryInput
	taxa, refs, n = case['taxa'], case['refs'], case['n']
	tobjs, genomes = build_objs(taxa, [t for _, t in refs])
	gidx = {id(g): i for i, g in enumerate(genomes)}
	tidx = {id(t): i for i, t in enumerate(tobjs)}
	row = np.array([b for b, _ in refs], dtype=np.uint32).view(np.float32)
	if case.get('layout') == 'row2d':
		# as in query(): a row of the 2-D distance matrix
		mat = np.ones((3, len(refs)), dtype=np.float32)
		mat[1, :] = row
		row = mat[1, :]
	db = SimpleNamespace(genomes=genomes)
	strict = bool(case.get('strict'))
	try:
		item = get_result_item(db, QueryParams(report_closest=n, classify_strict=strict), row, QueryInput('q'))
	except ValueError:
		return 'ValueError'
	except Exception as e:
		if strict and refs:
			# the strict classifier's consensus search is C10's subject, not this property's
			return 'skip:' + type(e).__name__
		raise
	return dict(match=obs_match(item.classifier_result.closest_match, gidx, tidx),
	            closest=[obs_match(m, gidx, tidx) for m in item.closest_genomes])


def impl_rows_subprocess(cases, env):
	e = dict(os.environ)
	e.update(env)
	p = subprocess.run([sys.executable, '-m', 'harness.c09', 'worker'], input=json.dumps(cases), env=e,
	                   capture_output=True, text=True, cwd=os.path.dirname(os.path.dirname(os.path.abspath(__file__))))
	if p.returncode != 0:
		raise RuntimeError('C09 worker failed: ' + p.stderr[-600:])
	return json.loads(p.stdout)


def worker():
	cases = json.load(sys.stdin)
	out = []
	for c in cases:
		a = impl_row(c)
		b = impl_row(c)
		out.append([a, b])
	json.dump(out, sys.stdout)


# ---------------------------------------------------------------------------------------------
# judging one row

def nontrivial_row(case):
	ks = sorted(b for b, _ in case['refs'])
	n = case['n']
	if len(ks) < 2:
		return False
	pre = ks[:n + 1]
	return any(pre[i] == pre[i + 1] for i in range(len(pre) - 1))


def judge_row(ctx, kind, case, impl, impl2, model, accepted, where=''):
	"""impl/impl2: two evaluations of the implementation; model: decoded model item; accepted: the
	extracted checker's verdict on the implementation's index list"""
	bits = [b for b, _ in case['refs']]
	if impl != impl2:
		ctx.violation(kind, case, f'two identical calls{where} returned different closest-genomes lists', impl=impl, impl_again=impl2, model=model)
		return
	if isinstance(impl, str) and impl.startswith('skip:'):
		ctx.count('not-judged:strict-classifier-' + impl[5:])
		return
	if isinstance(impl, str) or isinstance(model, str):
		if impl != model:
			if not case['refs']:
				ctx.broke(f'correspondence {kind} (empty reference list)', f'impl={impl} model={model}')
			else:
				ctx.violation(kind, case, f'get_result_item{where} -> {impl}, model -> {model}', impl=impl, model=model)
		return
	lst = impl['closest']
	idxs = [e[0] for e in lst]
	if not accepted:
		exp = [e[0] for e in model['closest']]
		pos = next((i for i, (a, b) in enumerate(zip(idxs, exp)) if a != b), min(len(idxs), len(exp)))
		ctx.violation(kind, case, f'closest_genomes{where} is not the (distance, reference order) prefix: reference indices '
		              f'{idxs[:12]}{"..." if len(idxs) > 12 else ""}, expected {exp[:12]}{"..." if len(exp) > 12 else ""} '
		              f'(first difference at position {pos})', impl=impl, spec=exp, model=model)
		return
	for i, db_, _ in lst:
		if db_ != bits[i]:
			ctx.violation(kind, case, f'entry for reference {i}{where} carries distance bits {db_}, the row has {bits[i]}', impl=impl, model=model)
			return
	if lst and lst[0] != impl['match']:
		ctx.violation(kind, case, f'closest_genomes[0]{where} = {lst[0]} but classifier closest_match = {impl["match"]} '
		              '(JSON and CSV would name different closest genomes)', impl=impl, model=model)
		return
	mt = [e[2] for e in model['closest']]
	if [e[2] for e in lst] != mt or impl['match'][2] != model['match'][2]:
		ctx.violation(kind, case, f'matched taxa{where} {[e[2] for e in lst]} / {impl["match"][2]} differ from what the distance '
		              f'alone assigns {mt} / {model["match"][2]}', impl=impl, model=model)
		return
	mod = dict(match=[model['match'][0], bits[model['match'][0]], model['match'][2]],
	           closest=[[e[0], bits[e[0]], e[2]] for e in model['closest']])
	if mod != impl:
		ctx.broke(f'correspondence {kind}', f'case {json.dumps(case)[:300]}: impl={impl} model={mod}')


def _rows(ctx, kind, cases, evaluate):
	good = []
	for c in cases:
		check_case(c)
		good.append(c)
	results = evaluate(good)
	reqs = []
	for c, (a, _) in zip(good, results):
		keys, taxa, gt = model_args(c)
		reqs.append((903, [c['n'], keys, taxa, gt]))
		idxs = [e[0] for e in a['closest']] if isinstance(a, dict) else []
		reqs.append((911, [c['n'], keys, idxs]))
		reqs.append((912, [keys, taxa, gt]))
	ans = ctx.model(reqs) if ctx.model_ok else None
	for j, (c, (a, b)) in enumerate(zip(good, results)):
		ctx.case(c, nontrivial=nontrivial_row(c))
		if ans is None:
			# without the model only the implementation-internal parts of the property can be judged
			if isinstance(a, dict) and a['closest'] and a['closest'][0] != a['match']:
				ctx.violation(kind, c, f'closest_genomes[0] = {a["closest"][0]} but closest_match = {a["match"]}', impl=a)
			continue
		if ans[3 * j + 2] != 1:
			raise ValueError('harness generated a database the model calls ill-formed')
		where = f' (env {c["env"]})' if c.get('env') else ''
		judge_row(ctx, kind, c, a, b, model_item(ans[3 * j]), ans[3 * j + 1] == 1, where)


def k_row(ctx, cases):
	_rows(ctx, 'row', cases, lambda cs: [[impl_row(c), impl_row(c)] for c in cs])


def k_rowenv(ctx, cases):
	def evaluate(cs):
		res = [None] * len(cs)
		groups = {}
		for i, c in enumerate(cs):
			groups.setdefault(json.dumps(c.get('env') or {}, sort_keys=True), []).append(i)
		for k, idxs in groups.items():
			out = impl_rows_subprocess([cs[i] for i in idxs], json.loads(k))
			for i, o in zip(idxs, out):
				res[i] = o
		return res
	_rows(ctx, 'rowenv', cases, evaluate)


# ---------------------------------------------------------------------------------------------
# whole queries on generated databases

def build_db(case, d):
	"""write <d>/db.gdb + <d>/db.gs for the case; SQL rows are inserted in case['sqlorder'] so that
	the reference order is defined by the signature file alone"""
	import numpy as np
	from sqlalchemy import create_engine
	from sqlalchemy.orm import Session
	from gambit.db import models as M
	from gambit.kmers import KmerSpec
	from gambit.sigs import SignatureList, SignaturesMeta, AnnotatedSignatures, dump_signatures
	eng = create_engine('sqlite:///' + os.path.join(d, 'db.gdb'))
	M.Base.metadata.create_all(eng)
	s = Session(eng)
	gs = M.ReferenceGenomeSet(key='verif/c09', version='1.0', name='c09')
	s.add(gs)
	tobjs = []
	for t, (par, thr) in enumerate(case['taxa']):
		tobjs.append(M.Taxon(key=f't{t}', name=f'taxon {t}', genome_set=gs, distance_threshold=thr,
		                     parent=None if par is None else tobjs[par]))
	refs = case['refs']
	order = case.get('sqlorder') or list(range(len(refs)))
	for i in order:
		g = M.Genome(key=f'g{i}', description=f'genome {i}', refseq_acc=f'ACC{i}')
		s.add(M.AnnotatedGenome(genome=g, genome_set=gs, taxon=tobjs[refs[i][1]]))
	s.commit()
	s.close()
	eng.dispose()
	kspec = KmerSpec(case['k'], 'AT')
	sigs = SignatureList([np.array(sorted(set(r[0])), dtype=kspec.index_dtype) for r in refs], kspec)
	dump_signatures(os.path.join(d, 'db.gs'), AnnotatedSignatures(sigs, [f'ACC{i}' for i in range(len(refs))],
	                                                              SignaturesMeta(id_attr='refseq_acc')), 'hdf5')
	qd = os.path.join(d, 'q')
	os.makedirs(qd)
	qsigs = SignatureList([np.array(sorted(set(q)), dtype=kspec.index_dtype) for q in case['queries']], kspec)
	dump_signatures(os.path.join(qd, 'q.gs'), AnnotatedSignatures(qsigs, [f'q{i}' for i in range(len(case['queries']))],
	                                                              SignaturesMeta()), 'hdf5')
	return qsigs


def jaccard_bits(a, b):
	a, b = set(a), set(b)
	u = len(a | b)
	if u == 0:
		return 0
	return div32(2 * u - len(a) - len(b), u)


def check_query_case(case):
	if not case['refs'] or not case['queries']:
		raise ValueError('empty')
	if sorted(case.get('sqlorder') or range(len(case['refs']))) != list(range(len(case['refs']))):
		raise ValueError('sqlorder is not a permutation')
	hi = 4 ** case['k']
	for r in [x[0] for x in case['refs']] + case['queries']:
		if any(not (0 <= v < hi) for v in r):
			raise ValueError('k-mer index out of range')


def k_query(ctx, cases):
	import csv
	import shutil
	import gambit.cli
	from click.testing import CliRunner
	from vf import impl as vimpl
	from gambit.db import ReferenceDatabase
	from gambit.query import query, QueryParams
	for case in cases:
		check_query_case(case)
		rows = [dict(n=case['n'], taxa=case['taxa'], refs=[[jaccard_bits(q, r[0]), r[1]] for r in case['refs']])
		        for q in case['queries']]
		for r in rows:
			check_case(r)
		reqs = []
		for r in rows:
			keys, taxa, gt = model_args(r)
			reqs.append((903, [r['n'], keys, taxa, gt]))
			reqs.append((903, [10, keys, taxa, gt]))
		ans = ctx.model(reqs) if ctx.model_ok else None
		ctx.case(case, nontrivial=any(nontrivial_row(r) for r in rows))
		d = vimpl.scratch_dir('gambit-verif-c09-')
		try:
			qsigs = build_db(case, d)
			db = ReferenceDatabase.load_from_dir(d)
			try:
				if [g.genome.key for g in db.genomes] != [f'g{i}' for i in range(len(case['refs']))]:
					ctx.broke('correspondence query (reference order)', f'db.genomes order {[g.genome.key for g in db.genomes][:10]}')
					continue
				gidx = {g.genome.key: i for i, g in enumerate(db.genomes)}
				first = None
				for cs in case['chunks']:
					res = query(db, qsigs, QueryParams(report_closest=case['n'], chunksize=cs))
					obs = []
					for it in res.items:
						om = lambda m: [gidx[m.genome.genome.key], f32_bits(float(m.distance)),
						                None if m.matched_taxon is None else int(m.matched_taxon.key[1:])]
						obs.append(dict(match=om(it.classifier_result.closest_match), closest=[om(m) for m in it.closest_genomes]))
					if first is None:
						first = (cs, obs)
					elif obs != first[1]:
						ctx.violation('query', case, f'closest-genomes lists differ between chunksize={first[0]} and chunksize={cs}',
						              impl_first=first[1], impl=obs)
						break
					if ans is None:
						continue
					bad = False
					for qi, (r, o) in enumerate(zip(rows, obs)):
						m = model_item(ans[2 * qi])
						keys, _, _ = model_args(r)
						bits = [b for b, _ in r['refs']]
						mod = dict(match=[m['match'][0], bits[m['match'][0]], m['match'][2]],
						           closest=[[e[0], bits[e[0]], e[2]] for e in m['closest']])
						if o != mod:
							what = ('closest_genomes[0] differs from closest_match' if o['closest'] and o['closest'][0] != o['match']
							        else 'closest_genomes is not the (distance, reference order) prefix with exact distances and taxa')
							ctx.violation('query', case, f'query #{qi} (chunksize={cs}, N={case["n"]}): {what}: '
							              f'{[e[0] for e in o["closest"]][:12]} / match {o["match"][0]}, expected '
							              f'{[e[0] for e in mod["closest"]][:12]} / match {mod["match"][0]}', impl=o, model=mod)
							bad = True
							break
					if bad:
						break
				else:
					# CLI: CSV names closest_match, JSON lists closest_genomes (N = 10)
					outs = {}
					for cores in case['cores']:
						for fmt in ('csv', 'json'):
							out = os.path.join(d, 'q', f'out{cores}.{fmt}')
							args = ['-d', d, 'query', '-o', out, '-f', fmt, '-s', os.path.join(d, 'q', 'q.gs')]
							if cores:
								args += ['-c', str(cores)]
							r = CliRunner().invoke(gambit.cli.cli, args)
							if r.exit_code != 0:
								raise RuntimeError(f'gambit query failed: {r.output} {r.exception!r}')
							outs[cores, fmt] = out
						with open(outs[cores, 'csv'], newline='') as f:
							crow = list(csv.DictReader(f))
						jit = json.load(open(outs[cores, 'json']))['items']
						for qi in range(len(rows)):
							cd = crow[qi]['closest.description']
							jl = [g['genome']['description'] for g in jit[qi]['closest_genomes']]
							exp = None
							if ans is not None:
								exp = [f'genome {e[0]}' for e in model_item(ans[2 * qi + 1])['closest']]
							if not jl or jl[0] != cd:
								ctx.violation('query', case, f'CLI query #{qi} (cores={cores}): CSV closest.description = {cd!r} but JSON '
								              f'closest_genomes[0] = {jl[:1]}', csv=cd, json=jl, model=exp)
								break
							if exp is not None and jl != exp:
								ctx.violation('query', case, f'CLI query #{qi} (cores={cores}): JSON closest_genomes {jl[:12]} is not the '
								              f'(distance, reference order) prefix {exp[:12]}', csv=cd, json=jl, model=exp)
								break
						else:
							continue
						break
			finally:
				db.session.close()
				db.session.get_bind().dispose()
				if hasattr(db.signatures, 'close'):
					db.signatures.close()
		finally:
			shutil.rmtree(d, ignore_errors=True)


KINDS = {'row': k_row, 'rowenv': k_rowenv, 'query': k_query}


def setup(ctx):
	from vf import impl
	impl.check_import()


# ---------------------------------------------------------------------------------------------
# generators

def gen_taxa(rng, nt, dvals):
	"""forest with parents before children; thresholds on / next to the given float32 distances"""
	import math
	taxa = []
	for t in range(nt):
		par = None if (t == 0 or rng.random() < 0.15) else rng.randrange(t)
		r = rng.random()
		if r < 0.3:
			thr = None
		elif r < 0.75 and dvals:
			x = bits_f32(rng.choice(dvals))
			thr = rng.choice([x, math.nextafter(x, 2.0), math.nextafter(x, -1.0) if x > 0 else x])
		else:
			thr = rng.random()
		taxa.append([par, thr])
	return taxa


def gen_values(rng, nv):
	"""a few float32 distances in [0,1]: ratios of small counts and their float32 neighbours"""
	import numpy as np
	vals = set()
	while len(vals) < nv:
		b = rng.randint(1, 60)
		a = rng.randint(0, b)
		v = div32(a, b)
		r = rng.random()
		if r < 0.2 and 0 < v < 0x3f800000:
			v += rng.choice([-1, 1])
		elif r < 0.25:
			v = rng.choice([0, 0x3f800000, 1, 0x00800000])
		vals.add(v)
	return sorted(vals)


def gen_row(rng, length, nv, n=None):
	vals = gen_values(rng, nv)
	nt = rng.randint(1, 6)
	taxa = gen_taxa(rng, nt, vals)
	refs = [[rng.choice(vals), rng.randrange(nt)] for _ in range(length)]
	if n is None:
		n = rng.choice([1, 2, 3, 10, 10, max(1, length - 1), length, length + 1, 1000, rng.randint(1, length + 2)])
	return dict(n=n, taxa=taxa, refs=refs, layout=rng.choice(['1d', 'row2d']), strict=rng.random() < 0.25)


def gen_query_case(rng, nrefs, nq):
	k = 5
	hi = 4 ** k
	base = [sorted(rng.sample(range(hi), rng.randint(1, 12))) for _ in range(rng.randint(1, 4))]
	pool = []
	for b in base:
		pool.append(b)
		# equidistant variants: replace one element by another
		for _ in range(2):
			c = list(b)
			c[rng.randrange(len(c))] = rng.randrange(hi)
			pool.append(sorted(set(c)))
	nt = rng.randint(1, 5)
	dv = [div32(a, b) for b in (2, 3, 4, 5, 7, 12) for a in range(1, b + 1)]
	taxa = gen_taxa(rng, nt, dv)
	refs = [[list(rng.choice(pool)), rng.randrange(nt)] for _ in range(nrefs)]
	if rng.random() < 0.2:
		refs[rng.randrange(nrefs)][0] = []
	queries = []
	for _ in range(nq):
		q = list(rng.choice(pool))
		if rng.random() < 0.5:
			q.append(rng.randrange(hi))
		queries.append(sorted(set(q)))
	order = list(range(nrefs))
	rng.shuffle(order)
	return dict(k=k, n=rng.choice([1, 3, 10, nrefs, nrefs + 5]), taxa=taxa, refs=refs, queries=queries, sqlorder=order,
	            chunks=rng.sample([1, 2, 3, 7, 16, 1000, None], 3), cores=rng.sample([0, 1, 2, 5], 2))


def generate(ctx):
	import itertools
	rng = ctx.rng
	ctx.rule(RULE)
	# the Coq refutation witness for the unfixed algorithm ([7;7]) and its neighbours
	half, one = 0x3f000000, 0x3f800000
	taxa0 = [[None, None], [0, 0.75], [1, 0.5]]
	for bits in ([half, half], [one, half, half], [half] * 5, [half] * 17, [half, 0, 0, half, 0]):
		for n in (1, 2, 10):
			ctx.count('stream:witness')
			yield 'row', dict(n=n, taxa=taxa0, refs=[[b, 2] for b in bits], layout='1d')
	# exhaustive small scope: all rows of length <= 5 over three distances, every N up to length+1
	vals = [div32(1, 4), half, div32(3, 4)]
	for ln in range(1, 6):
		for combo in itertools.product(range(3), repeat=ln):
			for n in range(1, ln + 2):
				ctx.count('stream:exhaustive-rows')
				yield 'row', dict(n=n, taxa=taxa0, refs=[[vals[v], (i + v) % 3] for i, v in enumerate(combo)], layout='row2d')
	ctx.exhaustive = True
	ctx.extra['exhaustive_scope'] = 'all distance rows of length <= 5 over 3 distinct distances x every N in 1..length+1'
	# tie-heavy random rows; lengths on both sides of 16, 64 and 256
	lens = [1, 2, 3, 5, 8, 15, 16, 17, 18, 31, 33, 63, 64, 65, 66, 100, 128, 129]
	big = [255, 256, 257, 300] + ctx.pick([], [511, 513, 600])
	for _ in range(ctx.pick(3000, 30000)):
		ctx.count('stream:random-rows')
		yield 'row', gen_row(rng, rng.choice(lens), rng.choice([1, 2, 2, 3, 3, 5, 9]))
	for _ in range(ctx.pick(150, 1500)):
		ctx.count('stream:random-rows-long')
		ln = rng.choice(big)
		yield 'row', gen_row(rng, ln, rng.choice([1, 2, 3, 5, 30]), n=rng.choice([1, 10, 10, 20, ln // 2, ln, ln + 1]))
	# all-distinct rows (no tie): the plain sorted order
	for _ in range(ctx.pick(100, 1000)):
		ctx.count('stream:distinct-rows')
		ln = rng.randint(2, 40)
		c = gen_row(rng, ln, ln)
		vs = gen_values(rng, ln)
		rng.shuffle(vs)
		c['refs'] = [[v, r[1]] for v, r in zip(vs, c['refs'])]
		yield 'row', c
	# CPU-dispatch / thread-count variants in sub-processes
	envs = ENVS if not ctx.quick else [ENVS[0], ENVS[1], ENVS[3]]
	rows = []
	for _ in range(ctx.pick(100, 600)):
		rows.append(gen_row(rng, rng.choice(lens + big), rng.choice([1, 2, 3, 5])))
	for env in envs:
		for r in rows:
			ctx.count('stream:rowenv')
			yield 'rowenv', dict(r, env=env)
	# whole queries on generated databases (identical / equidistant references), chunk sizes, CLI
	for _ in range(ctx.pick(60, 400)):
		ctx.count('stream:query')
		yield 'query', gen_query_case(rng, rng.choice([1, 2, 5, 9, 12, 17, 20, 40, 70]), rng.randint(1, 3))
	# malformed stream: no reference at all (np.argmin raises ValueError before anything is reported)
	ctx.count('stream:malformed')
	yield 'row', dict(n=10, taxa=taxa0, refs=[], layout='1d')


if __name__ == '__main__':
	if sys.argv[1:] == ['worker']:
		worker()
