"""C15 -- the genomic distance behaves as a metric on signatures.

Tie: T (Gen/MetricPyx.v) + B: gambit.metric.jaccarddist on triples of sets; every axiom is evaluated
exactly (binary32 values as fractions); each distance is also compared with the generated model."""
from fractions import Fraction

import numpy as np

from harness.c02 import _arr, f32_bits, round_ratio_f32, DTYPES

PROP = 'C15'
RULE = ('triples (A,B,C) of sorted duplicate-free arrays with per-set dtypes; checked: range, d=0 iff equal, d=1 iff '
        'disjoint and not both empty, bitwise symmetry, triangle inequality with slack 2^-22, width independence, strict '
        'decrease when a new common element is added; non-trivial: the three sets pairwise distinct and pairwise '
        'intersecting')
TRUSTED = ['tools/pyx2v.py (Cython subset -> Gallina; C integer / binary32 semantics)',
           'Flocq binary32 model of C float division (validated bit-for-bit by the run)']
ASSUMPTIONS = ['inputs are sorted and duplicate-free', 'rounding-sensitive statements are claimed for |AuB| <= 2^24 '
               '(every k <= 12); beyond that see known findings C15-f1/f2']

SLACK = Fraction(1, 2 ** 22)


def setup(ctx):
	from vf import impl
	impl.check_import()


def _val(x):
	return Fraction(float(x))


def k_triple(ctx, cases):
	from gambit.metric import jaccarddist
	reqs = []
	for c in cases:
		for x, y in (('a', 'b'), ('b', 'c'), ('a', 'c')):
			X, Y = set(c[x]), set(c[y])
			reqs.append((204, [len(X ^ Y), len(X | Y)]))
	ans = ctx.model(reqs) if ctx.model_ok else None
	for n, c in enumerate(cases):
		S = {k: set(c[k]) for k in 'abc'}
		arr = {k: _arr(c[k], c['d' + k]) for k in 'abc'}
		nontriv = all(S[x] != S[y] and S[x] & S[y] for x, y in (('a', 'b'), ('b', 'c'), ('a', 'c')))
		small = sum(len(c[k]) for k in 'abc') < 40
		ctx.case(c if small else {k: len(c[k]) for k in 'abc'}, nontrivial=nontriv)
		d = {}
		bad = False
		for j, (x, y) in enumerate((('a', 'b'), ('b', 'c'), ('a', 'c'))):
			v = jaccarddist(arr[x], arr[y])
			w = jaccarddist(arr[y], arr[x])
			d[x + y] = v
			u = len(S[x] | S[y])
			s = len(S[x] ^ S[y])
			val = _val(v)
			what = None
			if f32_bits(v) != f32_bits(w):
				what = f'd({x},{y}) and d({y},{x}) differ bitwise'
			elif not (0 <= val <= 1):
				what = f'd({x},{y}) = {float(v)!r} outside [0,1]'
			elif (val == 0) != (S[x] == S[y]):
				what = f'd({x},{y}) = {float(v)!r} but sets equal is {S[x] == S[y]}'
			elif (val == 1) != (not (S[x] & S[y]) and bool(S[x] | S[y])):
				what = f'd({x},{y}) = {float(v)!r} but disjoint-and-nonempty is {not (S[x] & S[y]) and bool(S[x] | S[y])}'
			else:
				# width independence: same values in the widest type
				wide = jaccarddist(np.array(c[x], dtype='u8'), np.array(c[y], dtype='u8'))
				if f32_bits(wide) != f32_bits(v):
					what = f'd({x},{y}) changes with the integer width: {float(v)!r} vs {float(wide)!r}'
			if what:
				ctx.violation('triple', c, what, pair=x + y, impl=f32_bits(v), s=s, u=u)
				bad = True
				break
			if ans is not None and ans[3 * n + j] != f32_bits(v):
				want = round_ratio_f32(s, u) if u else 0
				if u <= 2 ** 24 and ans[3 * n + j] != want:
					ctx.violation('triple', c, f'metric.pyx as translated: (float){s}/(float){u} -> bits {ans[3 * n + j]}, correctly rounded {want}',
					              impl=f32_bits(v), model=ans[3 * n + j])
				else:
					ctx.broke('correspondence triple (ratio)', f'{x}{y} s={s} u={u}: impl {f32_bits(v)} model {ans[3 * n + j]}')
				bad = True
				break
		if bad:
			continue
		if _val(d['ac']) > _val(d['ab']) + _val(d['bc']) + SLACK:
			ctx.violation('triple', c, f'triangle inequality fails: d(a,c)={float(d["ac"])!r} > d(a,b)+d(b,c)+2^-22 = '
			              f'{float(d["ab"])!r}+{float(d["bc"])!r}', impl=[f32_bits(d[k]) for k in ('ab', 'bc', 'ac')])
			continue
		# adding a k-mer absent from both strictly decreases the distance (A != B)
		if 'x' in c and S['a'] != S['b'] and c['x'] not in S['a'] and c['x'] not in S['b']:
			a2 = np.array(sorted(S['a'] | {c['x']}), dtype='u8')
			b2 = np.array(sorted(S['b'] | {c['x']}), dtype='u8')
			v2 = jaccarddist(a2, b2)
			if not _val(v2) < _val(d['ab']):
				ctx.violation('triple', c, f'adding common k-mer {c["x"]} does not decrease the distance: {float(d["ab"])!r} -> {float(v2)!r}',
				              before=f32_bits(d['ab']), after=f32_bits(v2))


def k_big(ctx, cases):
	"""named inputs beyond the 2^24 bound (DESIGN.md section 6-f)"""
	from gambit.metric import jaccarddist
	for c in cases:
		ctx.case(c, nontrivial=True)
		if c['name'] == 'add_common_2p24':
			a = np.arange(0, 2 ** 24, dtype='u4')
			b = np.arange(0, 2 ** 24 - 1, dtype='u4')
			d1 = jaccarddist(a, b)
			a2 = np.arange(0, 2 ** 24 + 1, dtype='u4')
			b2 = np.concatenate([b, np.array([2 ** 24], dtype='u4')])
			d2 = jaccarddist(a2, b2)
			if not float(d2) < float(d1):
				ctx.violation('big', c, f'A={{0..2^24-1}}, B={{0..2^24-2}}: adding 2^24 to both leaves the distance at {float(d2)!r} '
				              f'(was {float(d1)!r}), not strictly smaller', before=f32_bits(d1), after=f32_bits(d2))
		elif c['name'] == 'one_not_disjoint_2p25':
			a = np.arange(0, 2 ** 25, dtype='u4')
			b = np.arange(2 ** 25 - 1, 2 ** 26 - 1, dtype='u4')
			d = jaccarddist(a, b)
			if float(d) == 1.0:
				ctx.violation('big', c, 'A={0..2^25-1}, B={2^25-1..2^26-2} share one element but the distance is exactly 1.0',
				              impl=f32_bits(d))


def k_width(ctx, cases):
	"""the distance does not depend on the integer width either signature is stored in -- through the
	two-signature function and through the bulk functions (a query wider than the references must not be
	narrowed)"""
	from gambit.metric import jaccarddist, jaccarddist_array, jaccarddist_matrix
	from gambit.sigs.base import SignatureArray, SignatureList
	for c in cases:
		A, B = c['a'], c['b']
		s, u = len(set(A) ^ set(B)), len(set(A) | set(B))
		want = round_ratio_f32(s, u) if u else 0
		ctx.case(c, nontrivial=bool(set(A) & set(B)) and set(A) != set(B))
		a, b = _arr(A, c['da']), _arr(B, c['db'])
		obs = {}
		obs['jaccarddist'] = f32_bits(jaccarddist(a, b))
		obs['jaccarddist swapped'] = f32_bits(jaccarddist(b, a))
		obs['jaccarddist u8,u8'] = f32_bits(jaccarddist(np.array(A, dtype='u8'), np.array(B, dtype='u8')))
		obs['jaccarddist_array(query, SignatureArray)'] = f32_bits(jaccarddist_array(a, SignatureArray([b]))[0])
		obs['jaccarddist_array(query, SignatureList)'] = f32_bits(jaccarddist_array(a, SignatureList([b]))[0])
		obs['jaccarddist_array(query, list)'] = f32_bits(jaccarddist_array(a, [b])[0])
		obs['jaccarddist_matrix'] = f32_bits(jaccarddist_matrix([a], SignatureArray([b]))[0, 0])
		obs['jaccarddist_array(ref as query, SignatureArray)'] = f32_bits(jaccarddist_array(b, SignatureArray([a]))[0])
		for name, bits in obs.items():
			if bits != want:
				ctx.violation('width', c, f'{name} with widths ({c["da"]},{c["db"]}) has bits {bits}; the distance of the two sets '
				              f'({s}/{u}) has bits {want}: the value depends on the integer width / the API used', impl=obs, spec=want)
				break


def k_pairwise(ctx, cases):
	"""the metric axioms through the all-pairs entry point (collections with several empty / equal signatures)"""
	from gambit.metric import jaccarddist, jaccarddist_pairwise
	from gambit.sigs.base import SignatureArray, SignatureList
	for c in cases:
		sigs = [np.array(s, dtype=c['dtype']) for s in c['sigs']]
		n = len(sigs)
		ctx.case(c, nontrivial=sum(1 for s in c['sigs'] if not s) >= 2 or len({tuple(s) for s in c['sigs']}) < n)
		cont = {'array': SignatureArray(sigs, dtype=c['dtype']), 'list': SignatureList(sigs, dtype=c['dtype']), 'plain': list(sigs)}[c['container']]
		sq = jaccarddist_pairwise(cont)
		fl = jaccarddist_pairwise(cont, flat=True)
		k = 0
		bad = None
		for i in range(n):
			for j in range(n):
				A, B = set(c['sigs'][i]), set(c['sigs'][j])
				v = sq[i, j]
				want = f32_bits(jaccarddist(sigs[i], sigs[j])) if i != j else 0
				if f32_bits(v) != want:
					bad = f'pairwise[{i},{j}] = {float(v)!r} but jaccarddist gives bits {want}'
				elif (float(v) == 0) != (A == B):
					bad = f'pairwise[{i},{j}] = {float(v)!r} but sets equal is {A == B}'
				elif (float(v) == 1) != (not (A & B) and bool(A | B)):
					bad = f'pairwise[{i},{j}] = {float(v)!r} but disjoint-and-not-both-empty is {not (A & B) and bool(A | B)}'
				elif f32_bits(sq[j, i]) != f32_bits(v):
					bad = f'pairwise matrix not symmetric at ({i},{j})'
				if j > i:
					if bad is None and f32_bits(fl[k]) != f32_bits(v):
						bad = f'condensed form differs from the square form for pair ({i},{j})'
					k += 1
				if bad:
					break
			if bad:
				break
		if bad:
			ctx.violation('pairwise', c, bad + f' (signatures {c["sigs"][i]} and {c["sigs"][j]}, container {c["container"]})')


KINDS = {'triple': k_triple, 'big': k_big, 'width': k_width, 'pairwise': k_pairwise}
SHRINK = False


def generate(ctx):
	rng = ctx.rng
	ctx.rule(RULE)
	n = ctx.pick(4, 5)
	subsets = [[i for i in range(n) if m >> i & 1] for m in range(1 << n)]
	cnt = 0
	for A in subsets:
		for B in subsets:
			for C in subsets:
				cnt += 1
				da, db, dc = DTYPES[cnt % 6], DTYPES[(cnt // 6) % 6], DTYPES[(cnt // 36) % 6]
				yield 'triple', dict(a=A, b=B, c=C, da=da, db=db, dc=dc, x=n)
	ctx.count('stream:exhaustive-subset-triples', cnt)
	ctx.exhaustive = True
	ctx.extra['exhaustive_scope'] = f'all triples of subsets of a {n}-element universe, dtype triple cycling through all combinations'
	for _ in range(ctx.pick(150, 1500)):
		size = rng.choice([3, 10, 60, 500, 4000])
		univ = size * rng.choice([2, 3, 8])
		base = sorted(rng.sample(range(univ), size))
		def variant():
			keep = [x for x in base if rng.random() < rng.choice([0.5, 0.9, 0.99])]
			extra = rng.sample(range(univ, 2 * univ), rng.randint(0, max(1, size // 10)))
			return sorted(set(keep) | set(extra))
		da, db, dc = (rng.choice(DTYPES[1:3] + DTYPES[4:]) for _ in range(3))
		ctx.count('stream:random-triples')
		yield 'triple', dict(a=variant(), b=variant(), c=variant(), da=da, db=db, dc=dc, x=2 * univ + 1)
	# width independence with values beyond the narrower type's range, residues colliding mod 2^16 / 2^32
	for da, db, lim in (('u4', 'u2', 2 ** 16), ('i4', 'u2', 2 ** 16), ('u8', 'u2', 2 ** 16), ('i8', 'i2', 2 ** 15),
	                    ('u8', 'u4', 2 ** 32), ('i8', 'u4', 2 ** 32), ('u8', 'i4', 2 ** 31)):
		for _ in range(ctx.pick(6, 40)):
			small = sorted(rng.sample(range(min(lim, 5000)), rng.randint(1, 8)))
			big = sorted({lim * rng.randint(1, 3) + x for x in rng.sample(small, rng.randint(1, len(small)))} |
			             {lim + rng.randrange(lim) for _ in range(rng.randint(0, 2))})
			A = sorted(set(rng.sample(small, rng.randint(0, len(small)))) | set(big))
			B = small
			ctx.count('stream:width-collisions')
			yield 'width', dict(a=A, b=B, da=da, db=db)
	# all-pairs entry point: collections with several empty signatures and duplicates
	for cont in ('array', 'list', 'plain'):
		for dt in ('u2', 'u4', 'i8'):
			for _ in range(ctx.pick(3, 15)):
				pool = [[], [], [], sorted(rng.sample(range(50), 4)), sorted(rng.sample(range(50), 7)), [3], [3], sorted(rng.sample(range(50), 2))]
				rng.shuffle(pool)
				ctx.count('stream:pairwise-empties')
				yield 'pairwise', dict(sigs=pool[:rng.randint(2, len(pool))], dtype=dt, container=cont)
	yield 'pairwise', dict(sigs=[[], []], dtype='u2', container='array')
	yield 'pairwise', dict(sigs=[[], [1], []], dtype='u2', container='plain')
	yield 'big', dict(name='add_common_2p24')
	yield 'big', dict(name='one_not_disjoint_2p25')
