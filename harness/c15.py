"""C15 -- the genomic distance behaves as a metric on signatures.

Tie: T (Gen/MetricPyx.v) + B: gambit.metric.jaccarddist on triples of sets; every axiom is evaluated
exactly (binary32 values as fractions); each distance is also compared with the generated model.

Coverage audit (item -> stream that drives it ON THE IMPLEMENTATION; "P" = property predicate judged there,
"M" = also compared with the generated model; kinds in brackets):
  clauses
    range [0,1]; 0 iff equal; 1 iff disjoint and not both empty; bitwise symmetry; triangle (slack 2^-22)
                                   -> exhaustive-subset-triples, random-triples [triple] P+M; every audit stream below P
    width independence             -> [triple] (vs u8), width-collisions [width] (values beyond the narrow type, bulk path),
                                      storage-forms, bulk-mixed-width-sequences, bulk-options(wide) P
    strict decrease, common k-mer  -> [triple] (only x above the maximum, u8, pair ab); add-common-positions and
                                      add-common-exhaustive-small [addx]: x below / between / above / top of the narrow type,
                                      chains of several k-mers, stored dtypes, both orders, bulk function P
  quantifier
    small universe, exhaustive     -> exhaustive-subset-triples (4 elements quick / 5 thorough), add-common-exhaustive-small
    large universes, random        -> random-triples (<= 4000 elements, values < 2^17); mid-size-triples [mid] 2*10^4 .. 10^6
                                      elements (6*10^6 thorough; near-equal, touching, nested, overlapping) P+M; [big] named 2^24 / 2^25 cases
    integer widths                 -> all 6 dtypes per set; values at the top of every type incl. >= 2^63 in u8: storage-forms
    empty / single / repeated sets -> exhaustive triples; pairwise-empties; bulk-options (pool with empties, duplicates, subsets)
  observe at / entry points reaching the same kernel
    gambit.metric.jaccarddist      -> all of the above; keyword arguments, the same object passed twice, and the raw extension
                                      function gambit._cython.metric.jaccarddist: storage-forms [form] P
    storage of the signature       -> storage-forms: strided, negative stride, column of a 2-D array, view inside a larger
                                      buffer, unaligned, ndarray subclass, np.memmap, element of a SignatureArray P; read-only and
                                      byte-swapped arrays are OUTSIDE the domain: judged "a value satisfying P, or an error"
                                      (no model comparison; refusals counted in coverage.out_of_domain_forms_refused)
    jaccarddist_array              -> width-collisions (1 reference); bulk-options [bulk]: SignatureArray / slice of one (offset
                                      bounds) / int32 bounds / SignatureList / list / tuple / AnnotatedSignatures, pre-indexed
                                      references, out= (fresh, stale, strided), rows computed from 4 threads P
    jaccarddist_matrix             -> bulk-options: query and reference collection types, ref_indices (repeats; list / tuple /
                                      int64 / int32 array / list of NumPy ints), chunksize (1..n+3, Python or NumPy int), out= (stale
                                      from an earlier call, strided, Fortran order), progress meter P
    jaccarddist_pairwise           -> pairwise-empties (square + flat); bulk-options: indices (repeats), flat, out=, progress P
    file-backed collection         -> bulk-file-backed (HDF5Signatures as references / all-pairs input) P
    storing a signature            -> storage-paths-x-dtype-mixes (product construction path x dtype mix), storage-mixed-dtype-collections
      (container constructors and      [store]: a list whose members have DIFFERENT integer types (u8 with i8 / i4 / i2, u4 with i8 / i4, u2
      conversions)                     with i2, all six, unsigned only, one type as control), values in windows at the top of each member's
                                      own type (2^15, 2^16, 2^31, 2^32, both sides of 2^53, 2^60, both sides of 2^63, 2^64-1), stored in a type
                                      that holds every value through SignatureArray(list / tuple / keywords / SignatureList /
                                      AnnotatedSignatures / SignatureArray; dtype= given or None with a fitting first member),
                                      uninitialized + copy, from_arrays (int64 / int32 bounds), SignatureList(list / SignatureArray /
                                      append-extend-insert), plain list / tuple (wrapped inside _matrix / _pairwise), HDF5 dump (from a
                                      SignatureList, a SignatureArray, gzip) + load; then none / integer-array / boolean / slice / stepped
                                      indexing, SignatureArray(dtype=) or SignatureList copy, AnnotatedSignatures.  d(x, stored x) == 0 both
                                      orders for every member; every cell of jaccarddist_array / _matrix (originals x stored, stored x
                                      stored, chunksize) / _pairwise (square, flat) over the stored collection judged by every clause P
    parallel kernel                -> bulk-many-references (40..150 references, OpenMP threads 2 / 3 / 4 / default; most other bulk
                                      cases run with 1 or 2 threads because one default-width call costs ~0.2 s here) P
    caller objects reused          -> [bulk] judges jaccarddist on the same array objects after the bulk call; [form] checks the
                                      arrays still hold their values; out arrays carry stale results of an earlier call
    gambit dist (CLI)              -> cli-dist [cli]: --square and --qs/--rs, -c 1/2/default, 4-decimal cells judged with the
                                      print rounding allowed for (|AuB| <= 1000 keeps 0 and 1 exact) P
  not driven here: gambit.metric.jaccard (the index, property C02); gambit.query.query / `gambit query` (need a reference
    database: C04/C05/C09 drive jaccarddist_matrix there); unsorted or duplicated arrays, negative values, non-integer
    dtypes, Python lists as signatures (outside "signatures"; C02's dtype stream judges refusals); the Cython kernel is
    not re-compiled by mutations in this sandbox (only its Python callers can be mutated).

State and aliasing (kind [seq]: a case is a script of 2-10 steps over a pool of SHARED caller objects; the harness keeps its
own record of what every object holds and judges every computing step by every clause above.  Dimensions: (a) the object is
reused by calls whose other arguments differ, in both orders; (b) the caller's object is unmodified after the call (item
size + bytes of arrays, element values of collections, bounds, ids, index values, progress keywords); (c) a call failing
part-way is followed by good calls on the same thread / objects / out= buffer; (d) the same call repeated gives the same
bits and every array returned earlier keeps its bits; (e) worker thread, alternating threads, two calls at once):
  entry point              object that outlives the call                                   a  b  c  d  e   where
  jaccarddist (positional, the caller's two arrays (the signed -> unsigned cast is a VIEW   x  x  x  x  x   dist steps: the pool's array objects
    keyword, raw extension)  of the same memory); result is a Python float                                 meet every partner / collection; 'rewrite':
                                                                                                          overwritten in place between identical calls;
                                                                                                          failing call: non-integer array, either side
  jaccarddist_array        query array; refs collection (SignatureArray -> views of         x  x  x  x  x   array steps; refs of 9 collection types and
                             values / bounds, others iterated); out= (DOCUMENTED target,                   2 sizes; out= none / fresh / one shared buffer
                             returned); with out=None the result must be the caller's own                  per shape kept over the script (stale cells)
  jaccarddist_matrix       queries (len + iteration), refs (a plain sequence is wrapped     x  x  x  x  x   matrix steps; ref_indices objects list / tuple
                             per call), ref_indices (sliced per chunk), out=, chunksize,                   / int64 / int32 array / NumPy-int list with
                             progress= (class, shared ProgressConfig with kw dict, factory)               negative entries, shared over collections
  jaccarddist_pairwise     sigs, indices (np.asarray: an ndarray argument IS the caller's   x  x  x  x  x   pairwise steps, flat and square
                             object), out=, progress=
  collections              SignatureArray (values, bounds; a slice shares the parent's      x  x  x  x  x   'set' / 'append' / 'pop' through the list or
                             memory), SignatureList / plain list / tuple (hold the caller's               MutableSequence API, in-place overwrite of a
                             arrays), AnnotatedSignatures (wrapper + the list it wraps),                  slot of a values array, of an array object
                             HDF5Signatures (open file, read at every index)                              held by reference, of an index object
  collections of ONE       SignatureList whose members all have the list's declared dtype   x  x  -  x  x   state-uniform-dtype-length-preserving-changes
    integer type that        (each of the six), plain list, SignatureList wrapped in                          (product collection type x role x change x
    keep their LENGTH        AnnotatedSignatures; low values and the top window of the type;                  dtype) and state-sequences-uniform-dtype
                             between two calls of each bulk function (matrix as refs / refs +                 (random scripts): the second call must
                             ref_indices / queries / both, pairwise square / flat / indices,                  describe the CURRENT members (same length,
                             array) the caller changes it by: x[i] = s, x[-i] = s, x[a:b] = [..]              same dtype, other members / order / contents)
                             (equal length), x[::2] / x[::-1] = [..], reverse(), swap of two
                             members, pop + insert (move), del + insert of another, in-place
                             write into the array object / into the element got from x[i]
  gambit dist              two signature files (re-written by the harness between steps),   x  x  x  x  -   cli steps inside scripts: --qs/--rs and
                             output file, process-wide OpenMP thread count set by -c                      --square over the same collections, both orders;
                                                                                                          refused invocations (missing file, --square
                                                                                                          with --rs, other k) before good ones
                             (restored by the harness), no module state in gambit.metric
  failing calls (c): index out of range in a late chunk, non-integer array in the middle of refs / queries, caller-supplied
    sequence that raises at element n (queries of matrix, refs of array), progress meter that raises after n cells, wrong out=
    shape / dtype, chunksize 0; they share collections, index objects and the out= buffer with the good calls around them and
    may raise anything (or return): only the caller's objects and the later calls are judged.
  streams: state-sequences (random scripts), state-sequences-reversed (same script backwards when nothing is changed in
    between), state-change-between-calls (collection type x role x change, exhaustive product), state-failed-call-between
    (api x failure x collection type, product), state-one-object-two-collections (index object / query against collections of
    two sizes, orders XYX and YXY), state-sequences-file-backed (one HDF5Signatures collection), state-sequences-cli,
    state-uniform-dtype-length-preserving-changes and state-sequences-uniform-dtype (row "collections of ONE integer type";
    the random scripts of every stream also draw the length-preserving changes, there mostly over mixed member types).
  not driven: use after fork (not advertised; the package forks only to compute signatures), an object changed DURING a
    call, truncated / concurrently rewritten signature files (C19), gambit.query sessions (C04/C05/C09)."""
from fractions import Fraction

import numpy as np

from harness.c02 import _arr, f32_bits, round_ratio_f32, DTYPES

PROP = 'C15'
RULE = ('triples (A,B,C) of sorted duplicate-free arrays with per-set dtypes; checked: range, d=0 iff equal, d=1 iff '
        'disjoint and not both empty, bitwise symmetry, triangle inequality with slack 2^-22, width independence, strict '
        'decrease when a new common element is added; non-trivial: the three sets pairwise distinct and pairwise '
        'intersecting. Audit streams judge the same clauses on: storage-forms (strided / reversed / column / interior / '
        'unaligned / subclass / memmap / SignatureArray-element views, values up to the top of each integer type, keyword and '
        'raw-extension calls, same object twice; read-only and byte-swapped arrays: a correct value or an error); bulk-* '
        '(jaccarddist_array / _matrix / _pairwise over collection types, ref_indices / indices with repeats, chunksize, out= '
        'arrays that are stale / strided / Fortran-ordered, progress, threads, OpenMP thread counts, mixed-width sequences, '
        'file-backed collections, 40-150 references; all cells for one pair must agree and the table must satisfy every '
        'clause, then jaccarddist on the same objects again); add-common-* (absent k-mers added at any position, chains, '
        'stored dtypes, both orders, bulk function: strictly decreasing; non-trivial: sets intersect, differ, and some k-mer '
        'is not above the maximum); mid-size-triples (seeded sets of 2*10^4..10^6 elements); cli-dist (printed 4-decimal '
        'matrices of gambit dist); non-trivial for collections: at least two pairs that intersect without being equal. '
        'storage-* (kind store): a list of 2-6 signatures whose members have different integer types (unsigned with signed, wide '
        'with narrow) and values up to the top of each member\'s own type (2^15 .. 2^64-1, both sides of 2^53 and 2^63), stored in a '
        'type holding every value through each constructor / conversion path (SignatureArray from list / tuple / SignatureList / '
        'AnnotatedSignatures / SignatureArray with dtype= or None, uninitialized + copy, from_arrays, SignatureList built three '
        'ways, plain list / tuple, HDF5 dump + load; then integer / boolean / slice indexing, copies, AnnotatedSignatures): d(x, '
        'stored x) = 0 in both orders for every member and every clause on every cell of jaccarddist_array / _matrix / '
        '_pairwise over the stored collection (hence bit-equal to jaccarddist on the original arrays and on uint64 copies); '
        'non-trivial: at least two member types, the largest k-mer beyond the range of some member\'s type, a pair that intersects '
        'without being equal. '
        'state-* (kind seq): scripts of calls over shared caller objects (arrays, 9 collection types of two sizes, index objects '
        'with negative entries, one out= buffer per shape, a progress configuration) with caller-side changes between calls, '
        'calls failing part-way, worker threads and two calls at once; every computing step judged by every clause on the '
        "harness's own record, plus: caller objects unmodified, same call -> same bits, arrays returned earlier unchanged; "
        'non-trivial: two computing steps share an object and the pool has two pairs that intersect without being equal. '
        'state-uniform-dtype-* (kind seq): collections holding the caller\'s arrays (SignatureList / plain list / SignatureList inside '
        'AnnotatedSignatures) whose members ALL have the declared integer type of the collection (each of the six types, low values '
        'and the top of the type), changed by the caller between two calls of each bulk function WITHOUT changing the length (item / '
        'negative item / equal-length slice / stepped slice assignment, reverse, swap, pop + insert, delete + insert, in-place write '
        'into a member array): every call judged by every clause on the members the collection holds at the time of the call')
TRUSTED = ['tools/pyx2v.py (Cython subset -> Gallina; C integer / binary32 semantics)',
           'Flocq binary32 model of C float division (validated bit-for-bit by the run)',
           'the script interpreter of kind seq (its record of what each collection holds is compared with the collection at the '
           'end of every script; length-preserving changes are replayed on a Python list of pool numbers with the same list '
           'operation, in-place writes follow the array OBJECT into every collection holding it)',
           'the builders of kind store: they hand the caller\'s arrays unchanged to the constructor / conversion named in the case; the '
           'harness\'s own member map through index / mask / slice conversions is checked against the length of the collection; '
           'NumPy integer conversion between integer types holding the value (np.copyto / astype, no float intermediate) and h5py '
           'integer dataset I/O']
ASSUMPTIONS = ['inputs are sorted and duplicate-free', 'rounding-sensitive statements are claimed for |AuB| <= 2^24 '
               '(every k <= 12); beyond that see known findings C15-f1/f2',
               'read-only and non-native-byte-order arrays are outside the domain (the wrappers refuse them): judged by the '
               'property predicate alone when a value is returned; the Coq model covers the two-signature kernel only, the bulk '
               'entry points, storage forms and the CLI are judged by the property predicate and the integer ratio oracle',
               'state sequences: the caller changes its objects between calls, never during one; an out= array is the only argument an '
               'entry point may write to (documented); a call made to fail may raise anything or return, only the calls after it and '
               'the caller objects are judged; modification of a caller object = item size / bytes / element values / index values '
               'differ (a same-width signed-unsigned view or a converted bounds dtype is not one)',
               'kind store: the stored type holds every value of every member as a value (signed types without the sign bit); with '
               'dtype=None the first member\'s type does (documented rule); narrowing stores are not driven']

SLACK = Fraction(1, 2 ** 22)


def setup(ctx):
	from vf import impl
	impl.check_import()


def _val(x):
	return Fraction(float(x))


def k_triple(ctx, cases):
	from gambit.metric import jaccarddist
	reqs = []
	for c in cases:
		for x, y in (('a', 'b'), ('b', 'c'), ('a', 'c')):
			X, Y = set(c[x]), set(c[y])
			reqs.append((204, [len(X ^ Y), len(X | Y)]))
	ans = ctx.model(reqs) if ctx.model_ok else None
	for n, c in enumerate(cases):
		S = {k: set(c[k]) for k in 'abc'}
		arr = {k: _arr(c[k], c['d' + k]) for k in 'abc'}
		nontriv = all(S[x] != S[y] and S[x] & S[y] for x, y in (('a', 'b'), ('b', 'c'), ('a', 'c')))
		small = sum(len(c[k]) for k in 'abc') < 40
		ctx.case(c if small else {k: len(c[k]) for k in 'abc'}, nontrivial=nontriv)
		d = {}
		bad = False
		for j, (x, y) in enumerate((('a', 'b'), ('b', 'c'), ('a', 'c'))):
			v = jaccarddist(arr[x], arr[y])
			w = jaccarddist(arr[y], arr[x])
			d[x + y] = v
			u = len(S[x] | S[y])
			s = len(S[x] ^ S[y])
			val = _val(v)
			what = None
			if f32_bits(v) != f32_bits(w):
				what = f'd({x},{y}) and d({y},{x}) differ bitwise'
			elif not (0 <= val <= 1):
				what = f'd({x},{y}) = {float(v)!r} outside [0,1]'
			elif (val == 0) != (S[x] == S[y]):
				what = f'd({x},{y}) = {float(v)!r} but sets equal is {S[x] == S[y]}'
			elif (val == 1) != (not (S[x] & S[y]) and bool(S[x] | S[y])):
				what = f'd({x},{y}) = {float(v)!r} but disjoint-and-nonempty is {not (S[x] & S[y]) and bool(S[x] | S[y])}'
			else:
				# width independence: same values in the widest type
				wide = jaccarddist(np.array(c[x], dtype='u8'), np.array(c[y], dtype='u8'))
				if f32_bits(wide) != f32_bits(v):
					what = f'd({x},{y}) changes with the integer width: {float(v)!r} vs {float(wide)!r}'
			if what:
				ctx.violation('triple', c, what, pair=x + y, impl=f32_bits(v), s=s, u=u)
				bad = True
				break
			if ans is not None and ans[3 * n + j] != f32_bits(v):
				want = round_ratio_f32(s, u) if u else 0
				if u <= 2 ** 24 and ans[3 * n + j] != want:
					ctx.violation('triple', c, f'metric.pyx as translated: (float){s}/(float){u} -> bits {ans[3 * n + j]}, correctly rounded {want}',
					              impl=f32_bits(v), model=ans[3 * n + j])
				else:
					ctx.broke('correspondence triple (ratio)', f'{x}{y} s={s} u={u}: impl {f32_bits(v)} model {ans[3 * n + j]}')
				bad = True
				break
		if bad:
			continue
		if _val(d['ac']) > _val(d['ab']) + _val(d['bc']) + SLACK:
			ctx.violation('triple', c, f'triangle inequality fails: d(a,c)={float(d["ac"])!r} > d(a,b)+d(b,c)+2^-22 = '
			              f'{float(d["ab"])!r}+{float(d["bc"])!r}', impl=[f32_bits(d[k]) for k in ('ab', 'bc', 'ac')])
			continue
		# adding a k-mer absent from both strictly decreases the distance (A != B)
		if 'x' in c and S['a'] != S['b'] and c['x'] not in S['a'] and c['x'] not in S['b']:
			a2 = np.array(sorted(S['a'] | {c['x']}), dtype='u8')
			b2 = np.array(sorted(S['b'] | {c['x']}), dtype='u8')
			v2 = jaccarddist(a2, b2)
			if not _val(v2) < _val(d['ab']):
				ctx.violation('triple', c, f'adding common k-mer {c["x"]} does not decrease the distance: {float(d["ab"])!r} -> {float(v2)!r}',
				              before=f32_bits(d['ab']), after=f32_bits(v2))


def k_big(ctx, cases):
	"""named inputs beyond the 2^24 bound (DESIGN.md section 6-f)"""
	from gambit.metric import jaccarddist
	for c in cases:
		ctx.case(c, nontrivial=True)
		if c['name'] == 'add_common_2p24':
			a = np.arange(0, 2 ** 24, dtype='u4')
			b = np.arange(0, 2 ** 24 - 1, dtype='u4')
			d1 = jaccarddist(a, b)
			a2 = np.arange(0, 2 ** 24 + 1, dtype='u4')
			b2 = np.concatenate([b, np.array([2 ** 24], dtype='u4')])
			d2 = jaccarddist(a2, b2)
			if not float(d2) < float(d1):
				ctx.violation('big', c, f'A={{0..2^24-1}}, B={{0..2^24-2}}: adding 2^24 to both leaves the distance at {float(d2)!r} '
				              f'(was {float(d1)!r}), not strictly smaller', before=f32_bits(d1), after=f32_bits(d2))
		elif c['name'] == 'one_not_disjoint_2p25':
			a = np.arange(0, 2 ** 25, dtype='u4')
			b = np.arange(2 ** 25 - 1, 2 ** 26 - 1, dtype='u4')
			d = jaccarddist(a, b)
			if float(d) == 1.0:
				ctx.violation('big', c, 'A={0..2^25-1}, B={2^25-1..2^26-2} share one element but the distance is exactly 1.0',
				              impl=f32_bits(d))


def k_width(ctx, cases):
	"""the distance does not depend on the integer width either signature is stored in -- through the
	two-signature function and through the bulk functions (a query wider than the references must not be
	narrowed)"""
	from gambit.metric import jaccarddist, jaccarddist_array, jaccarddist_matrix
	from gambit.sigs.base import SignatureArray, SignatureList
	for c in cases:
		A, B = c['a'], c['b']
		s, u = len(set(A) ^ set(B)), len(set(A) | set(B))
		want = round_ratio_f32(s, u) if u else 0
		ctx.case(c, nontrivial=bool(set(A) & set(B)) and set(A) != set(B))
		a, b = _arr(A, c['da']), _arr(B, c['db'])
		obs = {}
		obs['jaccarddist'] = f32_bits(jaccarddist(a, b))
		obs['jaccarddist swapped'] = f32_bits(jaccarddist(b, a))
		obs['jaccarddist u8,u8'] = f32_bits(jaccarddist(np.array(A, dtype='u8'), np.array(B, dtype='u8')))
		obs['jaccarddist_array(query, SignatureArray)'] = f32_bits(jaccarddist_array(a, SignatureArray([b]))[0])
		obs['jaccarddist_array(query, SignatureList)'] = f32_bits(jaccarddist_array(a, SignatureList([b]))[0])
		obs['jaccarddist_array(query, list)'] = f32_bits(jaccarddist_array(a, [b])[0])
		obs['jaccarddist_matrix'] = f32_bits(jaccarddist_matrix([a], SignatureArray([b]))[0, 0])
		obs['jaccarddist_array(ref as query, SignatureArray)'] = f32_bits(jaccarddist_array(b, SignatureArray([a]))[0])
		for name, bits in obs.items():
			if bits != want:
				ctx.violation('width', c, f'{name} with widths ({c["da"]},{c["db"]}) has bits {bits}; the distance of the two sets '
				              f'({s}/{u}) has bits {want}: the value depends on the integer width / the API used', impl=obs, spec=want)
				break


def k_pairwise(ctx, cases):
	"""the metric axioms through the all-pairs entry point (collections with several empty / equal signatures)"""
	from gambit.metric import jaccarddist, jaccarddist_pairwise
	from gambit.sigs.base import SignatureArray, SignatureList
	for c in cases:
		sigs = [np.array(s, dtype=c['dtype']) for s in c['sigs']]
		n = len(sigs)
		ctx.case(c, nontrivial=sum(1 for s in c['sigs'] if not s) >= 2 or len({tuple(s) for s in c['sigs']}) < n)
		cont = {'array': SignatureArray(sigs, dtype=c['dtype']), 'list': SignatureList(sigs, dtype=c['dtype']), 'plain': list(sigs)}[c['container']]
		sq = jaccarddist_pairwise(cont)
		fl = jaccarddist_pairwise(cont, flat=True)
		k = 0
		bad = None
		for i in range(n):
			for j in range(n):
				A, B = set(c['sigs'][i]), set(c['sigs'][j])
				v = sq[i, j]
				want = f32_bits(jaccarddist(sigs[i], sigs[j])) if i != j else 0
				if f32_bits(v) != want:
					bad = f'pairwise[{i},{j}] = {float(v)!r} but jaccarddist gives bits {want}'
				elif (float(v) == 0) != (A == B):
					bad = f'pairwise[{i},{j}] = {float(v)!r} but sets equal is {A == B}'
				elif (float(v) == 1) != (not (A & B) and bool(A | B)):
					bad = f'pairwise[{i},{j}] = {float(v)!r} but disjoint-and-not-both-empty is {not (A & B) and bool(A | B)}'
				elif f32_bits(sq[j, i]) != f32_bits(v):
					bad = f'pairwise matrix not symmetric at ({i},{j})'
				if j > i:
					if bad is None and f32_bits(fl[k]) != f32_bits(v):
						bad = f'condensed form differs from the square form for pair ({i},{j})'
					k += 1
				if bad:
					break
			if bad:
				break
		if bad:
			ctx.violation('pairwise', c, bad + f' (signatures {c["sigs"][i]} and {c["sigs"][j]}, container {c["container"]})')


# ------------------------------------------------------------------------------------------------
# audit streams: every clause judged on whatever the implementation returns, for other storage
# forms, call forms, entry points, options, sizes and channels than the triple stream drives
# ------------------------------------------------------------------------------------------------

FORMS = ['plain', 'strided', 'reversed', 'column', 'interior', 'unaligned', 'subclass', 'memmap', 'sigitem']
FOREIGN = ['readonly', 'swapped']      # outside the documented domain: judged "a value that satisfies the property, or an error"
CALLS = ['positional', 'keyword', 'raw']
_SCRATCH = []
_REFUSED = {}


def _scratch():
	if not _SCRATCH:
		from vf import impl
		_SCRATCH.append(impl.scratch_dir('gambit-verif-c15-'))
	return _SCRATCH[0]


class _Sub(np.ndarray):
	"""a caller's ndarray subclass"""


def _fits(dt, top):
	"""can dtype dt hold the non-negative value top as a value (signed types: without using the sign bit)"""
	bits = 8 * int(dt[1]) - (1 if dt[0] == 'i' else 0)
	return top < 2 ** bits


def _form(vals, dt, form, salt=0):
	"""the sorted values vals as a 1-D array of dtype dt in the given storage form"""
	import os
	base = _arr(vals, dt)
	n = len(vals)
	junk = np.array([0, -1], dtype='i8').astype(base.dtype)   # 0 and the all-ones pattern
	if form == 'plain':
		return base
	if form == 'strided':
		step = 2 + salt % 2
		off = salt % 2
		buf = np.resize(junk, n * step + 2)
		v = buf[off:off + n * step:step]
		v[:] = base
		return v
	if form == 'reversed':
		return np.ascontiguousarray(base[::-1])[::-1]
	if form == 'column':
		m = np.resize(junk, (n, 3))
		m = np.ascontiguousarray(m)
		m[:, 1] = base
		return m[:, 1]
	if form == 'interior':
		buf = np.concatenate([junk[:1], junk[:1], base, junk[1:], junk[1:]])
		return buf[2:2 + n]
	if form == 'unaligned':
		w = base.dtype.itemsize
		raw = bytearray(1 + w * n + w)
		v = np.frombuffer(raw, dtype=base.dtype, count=n, offset=1)
		v[:] = base
		return v
	if form == 'subclass':
		return base.view(_Sub)
	if form == 'memmap':
		if n == 0:
			return base
		path = os.path.join(_scratch(), f'mm{salt % 50}')
		v = np.memmap(path, dtype=base.dtype, mode='w+', shape=(n,))
		v[:] = base
		return v
	if form == 'sigitem':
		from gambit.sigs.base import SignatureArray
		return SignatureArray([junk, base, junk[::-1].copy()], dtype=base.dtype)[1]
	if form == 'readonly':
		v = base.copy()
		v.setflags(write=False)
		return v
	if form == 'swapped':
		return base.astype(base.dtype.newbyteorder())
	raise ValueError(form)


class _omp:
	"""run a block with the OpenMP thread count of the parallel kernel set to n (0: leave the default), as `gambit dist -c n`
	does through gambit._cython.threads.omp_set_num_threads; restored afterwards"""

	def __init__(self, n):
		self.n = n

	def __enter__(self):
		import gambit._cython.threads as th
		self.th, self.old = th, th.omp_get_max_threads()
		if self.n:
			th.omp_set_num_threads(self.n)

	def __exit__(self, *exc):
		self.th.omp_set_num_threads(self.old)


def _dist_call(call, x, y):
	from gambit.metric import jaccarddist
	if call == 'keyword':
		return jaccarddist(coords1=x, coords2=y)
	if call == 'raw':
		import gambit._cython.metric as cm
		return cm.jaccarddist(x.view('u%d' % x.dtype.itemsize), y.view('u%d' % y.dtype.itemsize))
	return jaccarddist(x, y)


def _want(s, u):
	return round_ratio_f32(s, u) if u else 0


def _judge(ctx, kind, c, D, SU, via):
	"""every clause of the property on the table D of implementation values (None = no value) for signatures whose
	pairwise (|A^B|, |AuB|) are SU; True if a violation was reported"""
	n = len(D)
	for i in range(n):
		for j in range(n):
			v = D[i][j]
			if v is None:
				continue
			s, u = SU[i][j]
			f = float(v)
			what = None
			if f != f or not (0 <= f <= 1):
				what = f'd({i},{j}) = {f!r} outside [0,1]'
			elif (f == 0) != (s == 0):
				what = f'd({i},{j}) = {f!r} but sets equal is {s == 0}'
			elif (f == 1) != (u > 0 and s == u):
				what = f'd({i},{j}) = {f!r} but disjoint-and-not-both-empty is {u > 0 and s == u}'
			elif D[j][i] is not None and f32_bits(D[j][i]) != f32_bits(v):
				what = f'd({i},{j}) = {f!r} and d({j},{i}) = {float(D[j][i])!r} differ bitwise'
			elif u <= 2 ** 24 and f32_bits(v) != _want(s, u):
				what = (f'd({i},{j}) = {f!r} (bits {f32_bits(v)}) but the two sets ({s}/{u}) stored as plain 64-bit arrays have '
				        f'distance bits {_want(s, u)}: the value depends on the storage / width / entry point')
			if what:
				ctx.violation(kind, c, f'{via}: {what}', pair=[i, j], s=s, u=u, impl=f32_bits(v) if f == f else 'nan')
				return True
	if n <= 8:
		for i in range(n):
			for j in range(n):
				for k in range(n):
					if D[i][j] is None or D[j][k] is None or D[i][k] is None:
						continue
					if _val(D[i][k]) > _val(D[i][j]) + _val(D[j][k]) + SLACK:
						ctx.violation(kind, c, f'{via}: triangle inequality fails: d({i},{k})={float(D[i][k])!r} > d({i},{j})+d({j},{k})+2^-22 = '
						              f'{float(D[i][j])!r}+{float(D[j][k])!r}', triple=[i, j, k])
						return True
	else:
		# binary32 values >= 2^-24 in [0,1]: binary64 sums of two of them plus 2^-22 are exact
		M = np.array([[np.nan if x is None else float(x) for x in row] for row in D], dtype='f8')
		bad = M[:, None, :] > M[:, :, None] + M[None, :, :] + float(SLACK)
		if bad.any():
			i, j, k = (int(t) for t in np.argwhere(bad)[0])
			ctx.violation(kind, c, f'{via}: triangle inequality fails: d({i},{k})={M[i, k]!r} > d({i},{j})+d({j},{k})+2^-22 = {M[i, j]!r}+{M[j, k]!r}',
			              triple=[i, j, k])
			return True
	return False


def _su_table(sigs):
	sets = [set(s) for s in sigs]
	return [[(len(A ^ B), len(A | B)) for B in sets] for A in sets]


def k_form(ctx, cases):
	"""gambit.metric.jaccarddist on signatures held in other storage forms (strided / reversed / column views, views
	inside a larger buffer, unaligned, ndarray subclass, memory-mapped, element of a SignatureArray), with values up to
	the top of each integer type, the same object passed twice, keyword and raw-extension call forms; read-only and
	byte-swapped arrays are outside the documented domain and judged "a correct value or an error" """
	for c in cases:
		names = 'abc'
		SU = _su_table([c[k] for k in names])
		forms = [c['f' + k] for k in names]
		arrs = [_form(c[k], c['d' + k], c['f' + k], salt=c.get('salt', 0) + t) for t, k in enumerate(names)]
		ctx.case(c, nontrivial=all(0 < SU[i][j][0] < SU[i][j][1] for i, j in ((0, 1), (1, 2), (0, 2))))
		D = [[None] * 3 for _ in range(3)]
		bad = False
		for i in range(3):
			for j in range(3):
				foreign = forms[i] in FOREIGN or forms[j] in FOREIGN
				try:
					D[i][j] = _dist_call('positional' if foreign else c['call'], arrs[i], arrs[j])
				except Exception as e:
					if foreign:
						key = f'{"+".join(sorted({f for f in (forms[i], forms[j]) if f in FOREIGN}))}: {type(e).__name__}'
						_REFUSED[key] = _REFUSED.get(key, 0) + 1
						continue
					ctx.violation('form', c, f'jaccarddist ({c["call"]}) raised {type(e).__name__}: {e} for two valid signatures in forms '
					              f'{forms[i]}/{forms[j]} (dtypes {c["d" + names[i]]}/{c["d" + names[j]]}): no distance', pair=[i, j])
					bad = True
					break
			if bad:
				break
		if bad:
			continue
		if _judge(ctx, 'form', c, D, SU, f'jaccarddist[{c["call"]}] forms {forms}'):
			continue
		for t, k in enumerate(names):
			if [int(x) for x in arrs[t]] != list(c[k]):
				ctx.violation('form', c, f'signature {k} ({forms[t]}) was modified by the calls: now {[int(x) for x in arrs[t]][:20]}', which=k)
				break
		del arrs


def _container(arrs, cont, cdt):
	"""the signatures arrs as the collection type cont (cdt: dtype of single-array containers)"""
	import os
	from gambit.sigs.base import SignatureArray, SignatureList, AnnotatedSignatures
	if cont == 'plain':
		return list(arrs)
	if cont == 'tuple':
		return tuple(arrs)
	if cont == 'list':
		return SignatureList(arrs, dtype=np.dtype(cdt))
	if cont == 'array':
		return SignatureArray(arrs, dtype=np.dtype(cdt))
	if cont == 'slice':
		pad = np.array([0, 1, 2], dtype=cdt)
		return SignatureArray([pad, pad[:1]] + list(arrs) + [pad], dtype=np.dtype(cdt))[2:2 + len(arrs)]
	if cont == 'i4bounds':
		sa = SignatureArray(arrs, dtype=np.dtype(cdt))
		return SignatureArray.from_arrays(sa.values, sa.bounds.astype('i4'), None)
	if cont == 'annotated':
		return AnnotatedSignatures(SignatureArray(arrs, dtype=np.dtype(cdt)))
	if cont == 'annotated-list':
		return AnnotatedSignatures(SignatureList(arrs, dtype=np.dtype(cdt)))
	if cont == 'hdf5':
		from gambit.kmers import KmerSpec
		from gambit.sigs import SignaturesMeta, dump_signatures, load_signatures
		ks = KmerSpec(11, 'ATGAC')
		path = os.path.join(_scratch(), 'bulk.gs')
		if os.path.exists(path):
			os.remove(path)
		ids = np.array([f'g{i}' for i in range(len(arrs))], dtype=object)
		dump_signatures(path, AnnotatedSignatures(SignatureList([a.astype(ks.index_dtype) for a in arrs], ks, dtype=ks.index_dtype), ids,
		                                          SignaturesMeta(id_attr='key')), 'hdf5')
		return load_signatures(path)
	raise ValueError(cont)


def _out(shape, how):
	if how == 'none':
		return None
	if how == 'nan':
		return np.full(shape, np.nan, dtype='f4')
	if how == 'stale':
		return np.full(shape, 0.25, dtype='f4')
	if how == 'fortran':
		return np.full(shape, np.nan, dtype='f4', order='F')
	if how == 'strided':
		big = np.full(tuple(2 * k + 3 for k in shape), np.nan, dtype='f4')
		return big[tuple(slice(1, 1 + 2 * k, 2) for k in shape)]
	raise ValueError(how)


def _idx(idx, how):
	if idx is None:
		return None
	return {'list': lambda: list(idx), 'tuple': lambda: tuple(idx), 'np': lambda: np.array(idx, dtype='i8'),
	        'np32': lambda: np.array(idx, dtype='i4'), 'npint-list': lambda: [np.int64(i) for i in idx]}[how]()


def k_bulk(ctx, cases):
	"""every clause through the bulk entry points (jaccarddist_array / jaccarddist_matrix / jaccarddist_pairwise) with their
	options: collection types, ref_indices / indices (repeats, NumPy or Python integers), chunksize, caller-supplied out
	arrays (stale contents, strided, Fortran order), progress meter, calls from several threads; then the two-signature
	function again on the same array objects (inputs must be left as they were)"""
	from gambit.metric import jaccarddist, jaccarddist_array, jaccarddist_matrix, jaccarddist_pairwise
	from gambit.util.progress import TestProgressMeter
	for c in cases:
		sigs = c['sigs']
		n = len(sigs)
		SU = _su_table(sigs)
		arrs = [_arr(s, dt) for s, dt in zip(sigs, c['dts'])]
		small = sum(map(len, sigs)) < 60
		ctx.case(c if small else dict(c, sigs=[len(s) for s in sigs]),
		         nontrivial=sum(1 for i in range(n) for j in range(i) if 0 < SU[i][j][0] < SU[i][j][1]) >= 2)
		idx = c.get('idx')
		sel = list(range(n)) if idx is None else idx
		prog = TestProgressMeter if c.get('progress') else None
		via = f'{c["api"]} on {c["container"]}'
		entries = []
		qn = c.get('nq', n)      # matrix / array: only the first nq signatures are used as queries
		try:
			cont = _container(arrs, c['container'], c['cdt'])
			omp = _omp(c.get('omp', 1))
			omp.__enter__()
			if c['api'] == 'matrix':
				qs = _container(arrs[:qn], c['qcontainer'], c['cdt'])
				kw = {}
				if idx is not None:
					kw['ref_indices'] = _idx(idx, c['idxtype'])
				if c.get('chunksize') is not None:
					kw['chunksize'] = np.int64(c['chunksize']) if c.get('npchunk') else c['chunksize']
				out = _out((qn, len(sel)), c['out'])
				if c['out'] == 'stale':
					jaccarddist_matrix(qs[::-1] if isinstance(qs, (list, tuple)) else qs, cont, out=out, **kw)
				M = jaccarddist_matrix(qs, cont, out=out, progress=prog, **kw)
				entries = [(i, sel[t], M[i, t]) for i in range(qn) for t in range(len(sel))]
			elif c['api'] == 'array':
				refs = cont if idx is None else cont[_idx(idx, c['idxtype'])] if not isinstance(cont, (list, tuple)) else [cont[i] for i in idx]
				outs = [_out((len(sel),), c['out']) for _ in range(qn)]
				def row(i):
					return jaccarddist_array(arrs[i], refs, out=outs[i]) if outs[i] is not None else jaccarddist_array(arrs[i], refs)
				if c.get('threads'):
					from concurrent.futures import ThreadPoolExecutor
					with ThreadPoolExecutor(4) as ex:
						rows = list(ex.map(row, range(qn)))
				else:
					rows = [row(i) for i in range(qn)]
				entries = [(i, sel[t], rows[i][t]) for i in range(qn) for t in range(len(sel))]
			elif c['api'] == 'pairwise':
				m = len(sel)
				flat = bool(c.get('flat'))
				out = _out((m * (m - 1) // 2,) if flat else (m, m), c['out'])
				kw = {} if idx is None else {'indices': _idx(idx, c['idxtype'])}
				if c['out'] == 'stale':
					jaccarddist_pairwise(cont, out=out, flat=flat, **({} if idx is None else {'indices': _idx(idx[::-1], c['idxtype'])}))
				P = jaccarddist_pairwise(cont, flat=flat, out=out, progress=prog, **kw)
				if flat:
					k = 0
					for s in range(m):
						for t in range(s + 1, m):
							entries.append((sel[s], sel[t], P[k]))
							k += 1
					if k != len(P):
						ctx.violation('bulk', c, f'{via}: condensed output has {len(P)} cells for {m} signatures')
						continue
				else:
					entries = [(sel[s], sel[t], P[s, t]) for s in range(m) for t in range(m)]
			else:
				raise ValueError(c['api'])
		except Exception as e:
			ctx.violation('bulk', c, f'{via} raised {type(e).__name__}: {e} for valid signatures and documented options: no distances')
			continue
		finally:
			omp.__exit__()
		# all cells standing for the same ordered pair agree; then the clauses on the table
		D = [[None] * n for _ in range(n)]
		bad = False
		for i, j, v in entries:
			if D[i][j] is not None and f32_bits(D[i][j]) != f32_bits(v) and not (v != v and D[i][j] != D[i][j]):
				ctx.violation('bulk', c, f'{via}: two cells for the pair ({i},{j}) differ: {float(D[i][j])!r} and {float(v)!r}', pair=[i, j])
				bad = True
				break
			D[i][j] = v
		if bad or _judge(ctx, 'bulk', c, D, SU, via):
			continue
		# the same caller objects afterwards
		if n <= 12:
			D2 = [[jaccarddist(arrs[i], arrs[j]) for j in range(n)] for i in range(n)]
			_judge(ctx, 'bulk', c, D2, SU, f'jaccarddist on the same array objects after {via}')


def k_addx(ctx, cases):
	"""strict decrease when k-mers absent from both sets are added to both, one after the other, at any position (below
	the minimum, between elements, above the maximum, at the top of the narrower integer type), in the stored dtypes,
	both argument orders and through the bulk function"""
	from gambit.metric import jaccarddist, jaccarddist_array
	from gambit.sigs.base import SignatureArray
	for c in cases:
		A, B = set(c['a']), set(c['b'])
		ctx.case(c, nontrivial=bool(A & B) and A != B and any(x < max(A | B) for x in c['xs']))
		if A == B:
			continue
		prev = None
		for step, x in enumerate([None] + list(c['xs'])):
			if x is not None:
				if x in A or x in B:
					continue
				A, B = A | {x}, B | {x}
			a, b = _arr(sorted(A), c['da']), _arr(sorted(B), c['db'])
			with _omp(c.get('omp', 1)):
				cur = {'jaccarddist(a,b)': jaccarddist(a, b), 'jaccarddist(b,a)': jaccarddist(b, a),
				       'jaccarddist_array(a,SignatureArray[b])': jaccarddist_array(a, SignatureArray([b]))[0],
				       'jaccarddist_array(b,[a])': jaccarddist_array(b, [a])[0]}
			if prev is not None:
				worse = [k for k in cur if not _val(cur[k]) < _val(prev[k])]
				if worse:
					k = worse[0]
					ctx.violation('addx', c, f'{k}: adding common k-mer {x} (step {step}, sets now {len(A)}/{len(B)} elements, dtypes {c["da"]}/{c["db"]}) '
					              f'does not decrease the distance: {float(prev[k])!r} -> {float(cur[k])!r}', before=f32_bits(prev[k]), after=f32_bits(cur[k]), x=x)
					break
			prev = cur


def _mid_sets(c):
	"""three sorted duplicate-free uint64 arrays determined by the case (seeded NumPy generator)"""
	g = np.random.Generator(np.random.PCG64(c['seed']))
	size, univ = c['size'], c['univ']
	base = np.unique(g.integers(0, univ, size=size, dtype=np.uint64))
	mode = c['mode']
	if mode == 'overlap':
		def var(p):
			keep = base[g.random(base.size) < p]
			extra = g.integers(univ, 2 * univ, size=max(1, size // 20), dtype=np.uint64)
			return np.unique(np.concatenate([keep, extra]))
		return [var(0.9), var(0.99), var(0.5)]
	if mode == 'near':
		i, j = sorted(int(t) for t in g.choice(base.size, 2, replace=False))
		return [base, np.delete(base, i), np.delete(base, [i, j])]
	if mode == 'touch':
		top = base[-1]
		hi = np.unique(g.integers(int(top), int(top) + univ, size=size, dtype=np.uint64))
		hi = np.unique(np.concatenate([[top], hi]))
		return [base, hi, np.array([base[0], hi[-1]], dtype=np.uint64)]
	if mode == 'nested':
		mid = base[g.random(base.size) < 0.999]
		return [mid[g.random(mid.size) < 0.5], mid, base]
	raise ValueError(mode)


def k_mid(ctx, cases):
	"""size classes between the random triples (<= 4000 elements) and the named 2^24 cases: 10^4 .. 10^6 elements, sets
	given by a seed; every clause on the triple, both orders, plus the generated model on (|A^B|, |AuB|)"""
	from gambit.metric import jaccarddist
	for c in cases:
		U = _mid_sets(c)
		n = len(U)
		# every generated value is below 2*univ; a dtype that cannot hold a set as values is replaced by u8 (never truncate)
		dts = [dt if (u.size == 0 or _fits(dt, int(u[-1]))) else 'u8' for u, dt in zip(U, c['dts'])]
		arrs = [u.astype('u' + dt[1]).view(dt) for u, dt in zip(U, dts)]
		SU = [[None] * n for _ in range(n)]
		for i in range(n):
			for j in range(n):
				inter = int(np.intersect1d(U[i], U[j], assume_unique=True).size)
				union = int(U[i].size + U[j].size - inter)
				SU[i][j] = (union - inter, union)
		ctx.case(c, nontrivial=all(0 < SU[i][j][0] < SU[i][j][1] for i in range(n) for j in range(i)))
		D = [[jaccarddist(arrs[i], arrs[j]) for j in range(n)] for i in range(n)]
		if _judge(ctx, 'mid', c, D, SU, f'jaccarddist on sets of {[int(u.size) for u in U]} elements'):
			continue
		if ctx.model_ok:
			pairs = [(i, j) for i in range(n) for j in range(n) if i != j]
			ans = ctx.model([(204, list(SU[i][j])) for i, j in pairs])
			for (i, j), m in zip(pairs, ans):
				if m != f32_bits(D[i][j]):
					ctx.broke('correspondence mid (ratio)', f'{c} pair {i},{j} s,u={SU[i][j]}: impl {f32_bits(D[i][j])} model {m}')
					break


def k_cli(ctx, cases):
	"""the same distances through the command line (gambit dist --square / --qs --rs, printed with 4 decimals): with
	|AuB| <= 1000 the rounding to 4 decimals keeps 0 and 1 exact, so every clause is judged on the printed numbers
	(triangle slack widened by the print rounding, 1.5e-4)"""
	import csv
	import os
	from click.testing import CliRunner
	import gambit.cli
	from gambit.kmers import KmerSpec
	from gambit.sigs import SignatureList, AnnotatedSignatures, SignaturesMeta, dump_signatures
	ks = KmerSpec(11, 'ATGAC')
	d = _scratch()
	for c in cases:
		sigs = c['sigs']
		n = len(sigs)
		SU = _su_table(sigs)
		ctx.case(c, nontrivial=sum(1 for i in range(n) for j in range(i) if 0 < SU[i][j][0] < SU[i][j][1]) >= 2)
		paths = {}
		for name in ('q', 'r'):
			paths[name] = os.path.join(d, f'cli-{name}.gs')
			if os.path.exists(paths[name]):
				os.remove(paths[name])
			arrs = [np.array(s, dtype=ks.index_dtype) for s in sigs]
			ids = np.array([f'{name}{i}' for i in range(n)], dtype=object)
			dump_signatures(paths[name], AnnotatedSignatures(SignatureList(arrs, ks, dtype=ks.index_dtype), ids, SignaturesMeta(id_attr='key')), 'hdf5')
		out = os.path.join(d, 'cli-out.csv')
		if os.path.exists(out):
			os.remove(out)
		args = ['dist', '--qs', paths['q'], '-o', out] + (['--square'] if c['mode'] == 'square' else ['--rs', paths['r']])
		if c.get('cores'):
			args += ['-c', str(c['cores'])]
		with _omp(0):        # `-c` sets the process-wide thread count; put it back afterwards
			res = CliRunner().invoke(gambit.cli.cli, args)
		try:
			if res.exit_code != 0 or res.exception is not None:
				raise RuntimeError(f'exit {res.exit_code}: {res.exception!r} {(res.output or "")[-300:]}')
			with open(out, newline='') as f:
				rows = list(csv.reader(f))
			M = [[float(x) for x in r[1:]] for r in rows[1:]]
			if len(M) != n or any(len(r) != n for r in M):
				raise RuntimeError(f'{len(M)} rows for {n} signatures')
		except Exception as e:
			ctx.violation('cli', c, f'gambit {" ".join(args[:1] + args[-2:])}: no distance matrix for valid signatures: {type(e).__name__}: {e}')
			continue
		what = None
		for i in range(n):
			for j in range(n):
				s, u = SU[i][j]
				v = M[i][j]
				if not (0 <= v <= 1):
					what = f'cell ({i},{j}) = {v!r} outside [0,1]'
				elif (v == 0) != (s == 0):
					what = f'cell ({i},{j}) = {v!r} but sets equal is {s == 0}'
				elif (v == 1) != (u > 0 and s == u):
					what = f'cell ({i},{j}) = {v!r} but disjoint-and-not-both-empty is {u > 0 and s == u}'
				elif M[j][i] != v:
					what = f'cells ({i},{j}) = {v!r} and ({j},{i}) = {M[j][i]!r} differ'
				elif u and abs(Fraction(v) - Fraction(s, u)) > Fraction(1, 2 ** 24) + Fraction(51, 10 ** 6):
					what = f'cell ({i},{j}) = {v!r} is not the distance {s}/{u} of the two sets printed with 4 decimals'
				if what:
					break
			if what:
				break
		if not what:
			for i in range(n):
				for j in range(n):
					for k in range(n):
						if Fraction(M[i][k]) > Fraction(M[i][j]) + Fraction(M[j][k]) + SLACK + Fraction(15, 10 ** 5):
							what = what or f'triangle inequality fails on the printed cells ({i},{k}) > ({i},{j}) + ({j},{k}): {M[i][k]} > {M[i][j]} + {M[j][k]}'
		if what:
			ctx.violation('cli', c, f'gambit dist {c["mode"]}: {what} (signatures {sigs})')


# ------------------------------------------------------------------------------------------------
# storing: the same k-mer sets put into a collection through every constructor / conversion path, from members whose
# integer types DIFFER and whose values reach the top of each member's own type
# ------------------------------------------------------------------------------------------------

STORE_BUILDS = ['sa-list', 'sa-tuple', 'sa-kw', 'sa-siglist', 'sa-annot', 'sa-sa', 'uninit', 'from-arrays', 'sl-list', 'sl-sa', 'sl-build',
                'plain', 'tuple', 'hdf5-list', 'hdf5-array', 'hdf5-gzip']
STORE_THEN = [None, 'int-index', 'bool-index', 'slice', 'step-slice', 'sa-copy', 'sl-copy', 'annotated']
STORE_SPAN = 24
# windows of STORE_SPAN consecutive values: bottom, the top of every integer type, both sides of 2^53 (above it not every
# integer is a binary64 value), 2^60, both sides of 2^63
STORE_WINDOWS = [0, 2 ** 15 - 24, 2 ** 16 - 24, 2 ** 31 - 24, 2 ** 32 - 24, 2 ** 53 - 8, 2 ** 53 + 2 ** 30 + 1, 2 ** 60 + 1, 2 ** 63 - 24,
                 2 ** 63 - 4, 2 ** 64 - 24]
# dtypes of the members of one collection (single-dtype collections are the control)
STORE_MIXES = [('u8', 'i8'), ('u8', 'i4'), ('u8', 'i2'), ('i8', 'u8', 'i4'), ('u8', 'i8', 'u4', 'i2'), ('u4', 'i8'), ('u4', 'i4'), ('u4', 'i2'),
               ('u2', 'i2'), ('u2', 'i4', 'i8'), ('i8', 'i4'), ('i4', 'i2'), ('u8', 'u4', 'u2'), ('u2', 'u4', 'u8', 'i2', 'i4', 'i8'), ('u8',), ('i8',),
               ('u4',)]


def _cap(dt):
	"""number of values dtype dt can hold as values (signed types: without the sign bit)"""
	return 2 ** (8 * int(dt[1]) - (1 if dt[0] == 'i' else 0))


def _store_build(c, arrs, closers):
	"""the caller's arrays arrs stored through the construction path c['build'], then converted by c['then']; returns the
	collection and, for each of its positions, the number of the original signature it must hold"""
	import os
	from gambit.kmers import KmerSpec
	from gambit.sigs import SignaturesMeta, dump_signatures, load_signatures
	from gambit.sigs.base import SignatureArray, SignatureList, AnnotatedSignatures
	how = c['build']
	n = len(arrs)
	cdt = None if c.get('cdt') is None else np.dtype(c['cdt'])
	eff = np.dtype(c['dts'][0]) if cdt is None else cdt        # documented: dtype=None takes the first element's
	ks = KmerSpec(32, 'ATGAC') if c.get('kspec') or how.startswith('hdf5') else None
	if how == 'sa-list':
		cont = SignatureArray(list(arrs), ks, cdt)
	elif how == 'sa-tuple':
		cont = SignatureArray(tuple(arrs), ks, cdt)
	elif how == 'sa-kw':
		cont = SignatureArray(signatures=list(arrs), kmerspec=ks, dtype=cdt)
	elif how == 'sa-siglist':
		cont = SignatureArray(SignatureList(arrs, ks, dtype=eff), dtype=cdt)
	elif how == 'sa-annot':
		cont = SignatureArray(AnnotatedSignatures(SignatureList(arrs, ks, dtype=eff)), dtype=cdt)
	elif how == 'sa-sa':
		cont = SignatureArray(SignatureArray(list(arrs), ks, np.dtype(c['mid'])), dtype=cdt)
	elif how == 'uninit':
		cont = SignatureArray.uninitialized([len(a) for a in arrs], ks, dtype=eff)
		for i, a in enumerate(arrs):
			np.copyto(cont[i], a, casting='unsafe')
	elif how == 'from-arrays':
		values = _arr([x for s in c['sigs'] for x in s], eff.str[1:])
		bounds = np.cumsum([0] + [len(s) for s in c['sigs']]).astype(c.get('bdt', 'i8'))
		cont = SignatureArray.from_arrays(values, bounds, ks)
	elif how == 'sl-list':
		cont = SignatureList(list(arrs), ks, cdt)
	elif how == 'sl-sa':
		cont = SignatureList(SignatureArray(list(arrs), ks, eff))
	elif how == 'sl-build':
		cont = SignatureList([], ks, dtype=eff)
		cont.append(arrs[0])
		cont.extend(arrs[2:])
		if n > 1:
			cont.insert(1, arrs[1])
	elif how == 'plain':
		cont = list(arrs)
	elif how == 'tuple':
		cont = tuple(arrs)
	elif how.startswith('hdf5'):
		path = os.path.join(_scratch(), 'store.gs')
		if os.path.exists(path):
			os.remove(path)
		if how == 'hdf5-array':
			dump_signatures(path, SignatureArray(list(arrs), ks, eff), 'hdf5')
		elif how == 'hdf5-gzip':
			dump_signatures(path, SignatureList(list(arrs), ks, eff), 'hdf5', compression='gzip', compression_opts=4)
		else:
			ids = np.array([f'g{i}' for i in range(n)], dtype=object)
			dump_signatures(path, AnnotatedSignatures(SignatureList(list(arrs), ks, eff), ids, SignaturesMeta(id_attr='key')), 'hdf5')
		cont = load_signatures(path)
		closers.append(cont.close)
	else:
		raise ValueError(how)
	mem = list(range(n))
	then = c.get('then')
	if then is None:
		pass
	elif then == 'int-index':
		cont = cont[_idx(c['idx'], c.get('idxtype', 'list'))]
		mem = [mem[i] for i in c['idx']]
	elif then == 'bool-index':
		cont = cont[np.array(c['mask'], dtype=bool) if c.get('idxtype') == 'np' else [bool(b) for b in c['mask']]]
		mem = [m for m, b in zip(mem, c['mask']) if b]
	elif then == 'slice':
		cont = cont[c['slice'][0]:c['slice'][1]]
		mem = mem[c['slice'][0]:c['slice'][1]]
	elif then == 'step-slice':
		cont = cont[::c['step']]
		mem = mem[::c['step']]
	elif then == 'sa-copy':
		cont = SignatureArray(cont, dtype=np.dtype(c['cdt2']))
	elif then == 'sl-copy':
		cont = SignatureList(cont)
	elif then == 'annotated':
		cont = AnnotatedSignatures(cont)
	else:
		raise ValueError(then)
	return cont, mem


def _store_nontrivial(c):
	"""members of at least two integer types, the largest k-mer beyond the range of some member's own type, and a pair of
	sets that intersects without being equal"""
	SU = _su_table(c['sigs'])
	top = max([x for s in c['sigs'] for x in s], default=0)
	return (len(set(c['dts'])) >= 2 and any(not _fits(dt, top) for dt in c['dts'])
	        and any(0 < SU[i][j][0] < SU[i][j][1] for i in range(len(SU)) for j in range(i)))


def k_store(ctx, cases):
	"""the distance does not depend on the container / integer type a signature is stored in: a list of signatures whose
	members have DIFFERENT integer types (unsigned next to signed, wide next to narrow) and values up to the top of each
	member's own type is stored through one constructor / conversion path (SignatureArray from list / tuple / SignatureList
	/ AnnotatedSignatures / SignatureArray with and without dtype=, uninitialized + copy, from_arrays, SignatureList from
	list / SignatureArray / built by append-extend-insert, plain list / tuple wrapped by the bulk functions, HDF5 dump +
	load) in a type that holds every value, optionally followed by integer / boolean / slice indexing or a further
	copy.  Judged: d(x, stored x) == 0 in both orders for every member, and every clause on every cell of jaccarddist_array /
	_matrix / _pairwise over the stored collection against the harness's own integer sets (so each cell has the bits of
	jaccarddist on the ORIGINAL arrays, themselves judged, and of the same sets held in 64-bit unsigned arrays)"""
	from gambit.metric import jaccarddist, jaccarddist_array, jaccarddist_matrix, jaccarddist_pairwise
	for c in cases:
		sigs, dts = c['sigs'], c['dts']
		n = len(sigs)
		SU = _su_table(sigs)
		arrs = [_arr(s, dt) for s, dt in zip(sigs, dts)]
		ctx.case(c, nontrivial=_store_nontrivial(c))
		desc = f'{c["build"]}(dtype={c.get("cdt")})' + (f' then {c["then"]}' if c.get('then') else '') + f' of members typed {dts}'
		closers = []
		omp = _omp(c.get('omp', 1))
		omp.__enter__()
		try:
			# the originals, and the same sets in the widest type
			D0 = [[jaccarddist(arrs[i], arrs[j]) for j in range(n)] for i in range(n)]
			if _judge(ctx, 'store', c, D0, SU, 'jaccarddist on the original arrays'):
				continue
			wide = [np.array(s, dtype='u8') for s in sigs]
			bad = [(i, j) for i in range(n) for j in range(n) if f32_bits(jaccarddist(wide[i], wide[j])) != f32_bits(D0[i][j])]
			if bad:
				i, j = bad[0]
				ctx.violation('store', c, f'd({i},{j}) = {float(D0[i][j])!r} with dtypes ({dts[i]},{dts[j]}) but {float(jaccarddist(wide[i], wide[j]))!r} '
				              'when both sets are held in uint64 arrays: the distance changes with the integer width', pair=[i, j])
				continue
			try:
				cont, mem = _store_build(c, arrs, closers)
				if len(cont) != len(mem):
					raise _Shape(f'the collection has {len(cont)} members for {len(mem)} signatures put there')
			except Exception as e:
				ctx.violation('store', c, f'storing valid signatures by {desc} raised {type(e).__name__}: {e}: no distances')
				continue
			m = len(mem)
			tables = []
			try:
				# identity: the stored member against the caller's original, both orders
				what = None
				for t, p in enumerate(mem):
					x = cont[t]
					for v, order in ((jaccarddist(arrs[p], x), 'd(x, stored x)'), (jaccarddist(x, arrs[p]), 'd(stored x, x)')):
						if float(v) != 0:
							what = (f'{order} = {float(v)!r} != 0 for signature {p} ({dts[p]}) at position {t} of {desc}, stored as {np.asarray(x).dtype}: '
							        f'original {sigs[p][:8]}, stored {[int(y) for y in np.asarray(x)[:8]]}')
							ctx.violation('store', c, what, member=p, position=t, impl=f32_bits(v))
							break
					if what:
						break
				if what:
					continue
				rows = [jaccarddist_array(arrs[i], cont) for i in range(n)]
				if any(r.shape != (m,) for r in rows):
					raise _Shape(f'jaccarddist_array: rows of shapes {[r.shape for r in rows]} for {m} references')
				tables.append(('jaccarddist_array(original, stored)', [(i, mem[t], rows[i][t]) for i in range(n) for t in range(m)]))
				kw = {} if c.get('chunksize') is None else {'chunksize': c['chunksize']}
				M = jaccarddist_matrix(list(arrs), cont, **kw)
				if M.shape != (n, m):
					raise _Shape(f'jaccarddist_matrix: shape {M.shape} for {n} queries and {m} references')
				tables.append(('jaccarddist_matrix(originals, stored)', [(i, mem[t], M[i, t]) for i in range(n) for t in range(m)]))
				S = jaccarddist_matrix(cont, cont, **kw)
				if S.shape != (m, m):
					raise _Shape(f'jaccarddist_matrix: shape {S.shape} for {m} queries and {m} references')
				tables.append(('jaccarddist_matrix(stored, stored)', [(mem[s], mem[t], S[s, t]) for s in range(m) for t in range(m)]))
				flat = bool(c.get('flat'))
				P = jaccarddist_pairwise(cont, flat=flat)
				if P.shape != ((m * (m - 1) // 2,) if flat else (m, m)):
					raise _Shape(f'jaccarddist_pairwise: shape {P.shape} for {m} signatures, flat={flat}')
				if flat:
					cells, k = [], 0
					for s in range(m):
						for t in range(s + 1, m):
							cells.append((mem[s], mem[t], P[k]))
							k += 1
				else:
					cells = [(mem[s], mem[t], P[s, t]) for s in range(m) for t in range(m)]
				tables.append(('jaccarddist_pairwise(stored)', cells))
			except Exception as e:
				ctx.violation('store', c, f'a distance call on the collection stored by {desc} raised {type(e).__name__}: {e} for valid signatures: no distances')
				continue
			for name, cells in tables:
				D = [[None] * n for _ in range(n)]
				bad = False
				for i, j, v in cells:
					if D[i][j] is not None and f32_bits(D[i][j]) != f32_bits(v) and not (v != v and D[i][j] != D[i][j]):
						ctx.violation('store', c, f'{name} after {desc}: two cells for the pair ({i},{j}) differ: {float(D[i][j])!r} and {float(v)!r}', pair=[i, j])
						bad = True
						break
					D[i][j] = v
				if bad or _judge(ctx, 'store', c, D, SU, f'{name} after {desc}'):
					break
		finally:
			omp.__exit__()
			for f in closers:
				try:
					f()
				except Exception:
					pass


def _store_case(rng, rnd, build, mix, then):
	"""one collection: 2-6 members typed from mix, values from windows at the top of the members' own types (a member only
	takes values its type holds), shared between members so that sets intersect; a stored dtype that holds every value"""
	n = rng.randint(max(2, min(len(mix), 4)), 6)
	dts = (list(mix) + [rng.choice(mix) for _ in range(n)])[:n]
	rng.shuffle(dts)
	widest = max(dts, key=_cap)
	def topwin(dt):
		return max(w for w in STORE_WINDOWS if w + STORE_SPAN <= _cap(dt))
	wins = {topwin(widest)} | {topwin(dt) for dt in rng.sample(dts, min(2, n))}
	wins |= set(rng.sample([w for w in STORE_WINDOWS if w + STORE_SPAN <= _cap(widest)], rng.randint(1, 2)))
	base = {w: sorted(rng.sample(range(STORE_SPAN), rng.randint(2, 5))) for w in wins}
	sigs = []
	for i, dt in enumerate(dts):
		r = rng.random()
		prev = [s for s in sigs if s and s[-1] < _cap(dt)]
		if r < 0.07:
			sig = []
		elif r < 0.2 and prev:
			sig = list(rng.choice(prev))            # an equal set, possibly in another type
		else:
			sig = set()
			for w in wins:
				if w + STORE_SPAN <= _cap(dt):
					sig |= {w + x for x in base[w] if rng.random() < 0.7}
					if rng.random() < 0.25:
						sig.add(w + rng.randrange(STORE_SPAN))
			sig = sorted(sig)
		sigs.append(sig)
	if not any(sigs):
		sigs[0] = [1]
	top = max(x for s in sigs for x in s)
	fit = [dt for dt in DTYPES if _fits(dt, top)]
	c = dict(sigs=sigs, dts=dts, build=build, cdt=rng.choice(fit + [max(fit, key=_cap)]), then=then, kspec=rng.random() < 0.3, omp=1 + rnd % 2,
	         chunksize=rng.choice([None, 1, 2]), flat=rng.random() < 0.5)
	if rnd % 3 == 0 and build in ('sa-list', 'sa-tuple', 'sa-kw', 'sa-siglist', 'sa-annot', 'sa-sa', 'sl-list', 'sl-sa'):
		# dtype=None: the stored type is the first member's (documented), so a member whose type holds every value goes first
		first = [i for i in range(n) if _fits(dts[i], top)]
		if first:
			i = rng.choice(first)
			sigs.insert(0, sigs.pop(i))
			dts.insert(0, dts.pop(i))
			c['cdt'] = None
	if build == 'sa-sa':
		c['mid'] = dts[0] if c['cdt'] is None else rng.choice(fit)
	if build == 'from-arrays':
		c['bdt'] = rng.choice(['i8', 'i4'])
	if build in ('plain', 'tuple'):
		c['then'] = then = None
	if then == 'int-index':
		c['idx'] = [rng.randrange(-n, n) for _ in range(rng.randint(2, n + 1))]
		c['idxtype'] = rng.choice(['list', 'tuple', 'np', 'np32'])
	elif then == 'bool-index':
		keep = set(rng.sample(range(n), rng.randint(2, n)))
		c['mask'] = [int(i in keep) for i in range(n)]
		c['idxtype'] = rng.choice(['list', 'np'])
	elif then == 'slice':
		a = rng.randint(0, n - 2)
		c['slice'] = [a, rng.randint(a + 2, n)]
	elif then == 'step-slice':
		c['step'] = rng.choice([-1, 2] if n > 2 else [-1])
	elif then == 'sa-copy':
		c['cdt2'] = rng.choice(fit)
	return c


# ------------------------------------------------------------------------------------------------
# state and aliasing: short scripts of calls over a small pool of shared caller objects (see the section "state and
# aliasing" of the module docstring).  A case carries the pool (k-mer sets, dtypes, collections, index objects) and the
# script as literals; the harness keeps its OWN record of what every collection / index object holds (updated by the
# caller-side changes of the script) and judges every step from that record.
# ------------------------------------------------------------------------------------------------

SEQ_MUTABLE = ('plain', 'list', 'annotated-list')              # the caller may replace an element
SEQ_RESIZABLE = ('plain', 'list')                                # ... and append / pop
SEQ_INPLACE = ('array', 'slice', 'i4bounds', 'annotated')      # one values array: an element is overwritten in place
SEQ_BYREF = ('plain', 'tuple', 'list', 'annotated-list')       # hold the caller's array objects themselves (no copy)
SEQ_CHANGES = ('set', 'append', 'pop', 'setidx', 'rewrite', 'setslice', 'reverse', 'swap', 'move', 'replace', 'elemwrite')
# changes of a list-like collection that keep its LENGTH (its members, their order or their contents differ afterwards)
SEQ_KEEPLEN = ('set', 'set-neg', 'setslice', 'setslice-step', 'reverse', 'swap', 'move', 'replace', 'rewrite', 'elemwrite')
SEQ_COMPUTE = ('dist', 'array', 'matrix', 'pairwise', 'cli', 'par')
_SEQ_STATS = {}


def _stat(key, n=1):
	_SEQ_STATS[key] = _SEQ_STATS.get(key, 0) + n


class _RaisingSeq:
	"""a caller-supplied sequence of signatures whose element number `at` cannot be produced"""

	def __init__(self, items, at):
		self.items, self.at = list(items), at

	def __len__(self):
		return len(self.items)

	def __getitem__(self, i):
		if isinstance(i, slice):
			raise TypeError('no slices')
		if i < 0 or i >= len(self.items):
			raise IndexError(i)
		if i == self.at:
			raise RuntimeError('the sequence supplied by the caller failed')
		return self.items[i]

	def __iter__(self):
		for i in range(len(self.items)):
			yield self[i]


class _Meter:
	"""a caller-supplied progress meter; increment raises once `at` cells have been reported (None: never)"""

	def __init__(self, total, at=None):
		self.total, self.n, self.at, self.closed = total, 0, at, False

	def increment(self, delta=1):
		self.n += delta
		if self.at is not None and self.n >= self.at:
			raise RuntimeError('the progress meter supplied by the caller failed')

	def moveto(self, n):
		self.n = n

	def close(self):
		self.closed = True

	def __enter__(self):
		return self

	def __exit__(self, *exc):
		self.close()


def _omp_here(n):
	"""OpenMP thread count of the calling thread (a new Python thread starts with the default, which is slow here)"""
	import gambit._cython.threads as th
	if n:
		th.omp_set_num_threads(n)


def _fp_arr(a):
	"""the memory of an array as the caller sees it: item size, shape, bytes (a same-width signed / unsigned view is equal)"""
	a = np.asarray(a)
	return (a.dtype.itemsize, a.shape, a.tobytes())


def _fp_coll(cont):
	"""what a caller can observe of a collection: element values and dtypes, lengths, bounds, ids, k-mer spec"""
	from gambit.sigs.base import SignatureArray, SignatureList, AnnotatedSignatures
	if isinstance(cont, AnnotatedSignatures):
		return ('AnnotatedSignatures', _fp_coll(cont.signatures), tuple(cont.ids), repr(cont.meta))
	if isinstance(cont, SignatureArray):
		return ('SignatureArray', _fp_arr(cont.values), tuple(int(x) for x in cont.bounds), repr(cont.kmerspec))
	if isinstance(cont, SignatureList):
		return ('SignatureList', str(np.dtype(cont.dtype)), repr(cont.kmerspec), tuple(_fp_arr(e) for e in cont))
	if isinstance(cont, (list, tuple)):
		return (type(cont).__name__, tuple(_fp_arr(e) for e in cont))
	return (type(cont).__name__, len(cont), str(np.dtype(cont.dtype)), repr(cont.kmerspec), tuple(str(x) for x in cont.ids),
	        tuple(tuple(int(x) for x in cont[i]) for i in range(len(cont))))


def _fp_idx(obj):
	if isinstance(obj, np.ndarray):
		return (obj.dtype.str,) + _fp_arr(obj)
	return (type(obj).__name__, tuple(int(v) for v in obj))


def _f4bits(x):
	"""bit patterns of a result (array or scalars) as an independent uint32 array"""
	return np.array(np.asarray(x, dtype='f4'), dtype='f4', order='C').view('u4').copy()


class _Pool:
	"""the caller's long-lived objects of one script"""

	def __init__(self, c):
		from gambit.util.progress import TestProgressMeter
		self.c = c
		self.sigs = [list(s) for s in c['sigs']]
		self.arrs = [_arr(s, dt) for s, dt in zip(c['sigs'], c['dts'])]
		# the harness's record: content[i] = number of the k-mer set the array object i holds now (the caller may overwrite an
		# array in place); members[t] = array objects (collections holding references) or k-mer sets (collections holding copies)
		self.content = list(range(len(self.sigs)))
		self.members = [list(k['members']) for k in c['colls']]
		self.conts = [k['cont'] for k in c['colls']]
		self.colls = []
		self.files = []
		for t, k in enumerate(c['colls']):
			arrs = [self.arrs[i] for i in k['members']]
			if k['cont'] == 'hdf5':
				self.colls.append(self._hdf5(arrs, t))
			else:
				self.colls.append(_container(arrs, k['cont'], k['cdt']))
		# the caller keeps the SignatureList it wrapped and changes elements through it
		self.inner = [cont.signatures if kind == 'annotated-list' else None for cont, kind in zip(self.colls, self.conts)]
		self.idxvals = [list(x['vals']) for x in c['idxs']]
		self.idxs = [_idx(x['vals'], x['how']) for x in c['idxs']]
		self.outs = {}
		self.pconf = TestProgressMeter.config(allow_decrement=False)
		self.results = []          # (step, array object, bits when returned, shared-buffer key or None)
		self.executor = None

	def _hdf5(self, arrs, t):
		import os
		from gambit.kmers import KmerSpec
		from gambit.sigs import SignaturesMeta, SignatureList, AnnotatedSignatures, dump_signatures, load_signatures
		ks = KmerSpec(11, 'ATGAC')
		path = os.path.join(_scratch(), f'seq-{t}.gs')
		if os.path.exists(path):
			os.remove(path)
		ids = np.array([f'g{i}' for i in range(len(arrs))], dtype=object)
		dump_signatures(path, AnnotatedSignatures(SignatureList([a.astype(ks.index_dtype) for a in arrs], ks, dtype=ks.index_dtype), ids,
		                                          SignaturesMeta(id_attr='key')), 'hdf5')
		f = load_signatures(path)
		self.files.append(f)
		return f

	def close(self):
		for f in self.files:
			try:
				f.close()
			except Exception:
				pass
		if self.executor is not None:
			self.executor.shutdown(wait=True)

	def worker(self):
		if self.executor is None:
			from concurrent.futures import ThreadPoolExecutor
			self.executor = ThreadPoolExecutor(1, initializer=_omp_here, initargs=(self.c.get('omp', 1),))
		return self.executor

	def fingerprint(self):
		fp = {f'signature {i}': (a.dtype.str, bool(a.flags.writeable)) + _fp_arr(a) for i, a in enumerate(self.arrs)}
		for t, cont in enumerate(self.colls):
			fp[f'collection {t} ({self.conts[t]})'] = _fp_coll(cont)
		for t, obj in enumerate(self.idxs):
			fp[f'index object {t} ({self.c["idxs"][t]["how"]})'] = _fp_idx(obj)
		fp['progress configuration'] = (self.pconf.callable, tuple(sorted(self.pconf.kw.items())))
		return fp

	def recorded(self, t):
		"""what collection t must hold according to the harness's own record: (dtype-free) lists of k-mers"""
		return [self.sigs[i] for i in self.resolve(t)]

	def resolve(self, t):
		"""numbers of the k-mer sets collection t holds now"""
		return [self.content[i] for i in self.members[t]] if self.conts[t] in SEQ_BYREF else list(self.members[t])

	def held(self, t):
		return [[int(x) for x in s] for s in self.colls[t]]

	def sel(self, t, m):
		"""pool numbers of the signatures of collection t picked by index object m (None: all)"""
		mem = self.resolve(t)
		return list(mem) if m is None else [mem[v] for v in self.idxvals[m]]

	def out(self, shape, how, fresh=False):
		if how == 'none':
			return None, None
		if how == 'nan' or fresh:
			return np.full(shape, np.nan, dtype='f4'), None
		key = tuple(shape)
		if key not in self.outs:
			self.outs[key] = np.full(shape, 0.25, dtype='f4')
		self.results = [r for r in self.results if r[3] != key]       # documented: an out= buffer is overwritten
		return self.outs[key], key

	def progress(self, how):
		from gambit.util.progress import TestProgressMeter
		return {None: None, 'none': None, 'cls': TestProgressMeter, 'config': self.pconf}[how]


def _seq_describe(st):
	return ' '.join(f'{k}={st[k]}' for k in st if k != 'steps') if st['op'] != 'par' else 'par[' + ' | '.join(_seq_describe(s) for s in st['steps']) + ']'


def _seq_call(P, st, fresh=False):
	"""run one computing step on the pool; returns (cells, result array or None, shared-buffer key); cells are
	(pool number, pool number, value)"""
	from gambit.metric import jaccarddist_array, jaccarddist_matrix, jaccarddist_pairwise
	op = st['op']
	if op == 'dist':
		a, b = st['a'], st['b']
		v = _dist_call(st.get('call', 'positional'), P.arrs[a], P.arrs[b])
		w = _dist_call(st.get('call', 'positional'), P.arrs[b], P.arrs[a])
		return [(P.content[a], P.content[b], v), (P.content[b], P.content[a], w)], None, None
	if op == 'array':
		cols = P.sel(st['refs'], None)
		out, key = P.out((len(cols),), st.get('out', 'none'), fresh)
		R = jaccarddist_array(P.arrs[st['q']], P.colls[st['refs']]) if out is None else jaccarddist_array(P.arrs[st['q']], P.colls[st['refs']], out=out)
		if R.shape != (len(cols),):
			raise _Shape(f'result of shape {R.shape} for {len(cols)} references')
		return [(P.content[st['q']], cols[t], R[t]) for t in range(len(cols))], R, key
	if op == 'matrix':
		rows, cols = P.sel(st['qs'], None), P.sel(st['refs'], st.get('idx'))
		out, key = P.out((len(rows), len(cols)), st.get('out', 'none'), fresh)
		kw = {}
		if st.get('idx') is not None:
			kw['ref_indices'] = P.idxs[st['idx']]
		if st.get('chunksize') is not None:
			kw['chunksize'] = st['chunksize']
		if out is not None:
			kw['out'] = out
		if st.get('progress'):
			kw['progress'] = P.progress(st['progress'])
		M = jaccarddist_matrix(P.colls[st['qs']], P.colls[st['refs']], **kw)
		if M.shape != (len(rows), len(cols)):
			raise _Shape(f'result of shape {M.shape} for {len(rows)} queries and {len(cols)} references')
		return [(rows[i], cols[t], M[i, t]) for i in range(len(rows)) for t in range(len(cols))], M, key
	if op == 'pairwise':
		sel = P.sel(st['sigs'], st.get('idx'))
		m = len(sel)
		flat = bool(st.get('flat'))
		out, key = P.out((m * (m - 1) // 2,) if flat else (m, m), st.get('out', 'none'), fresh)
		kw = dict(flat=flat)
		if st.get('idx') is not None:
			kw['indices'] = P.idxs[st['idx']]
		if out is not None:
			kw['out'] = out
		if st.get('progress'):
			kw['progress'] = P.progress(st['progress'])
		R = jaccarddist_pairwise(P.colls[st['sigs']], **kw)
		if R.shape != ((m * (m - 1) // 2,) if flat else (m, m)):
			raise _Shape(f'result of shape {R.shape} for {m} signatures, flat={flat}')
		if flat:
			cells, k = [], 0
			for s in range(m):
				for t in range(s + 1, m):
					cells.append((sel[s], sel[t], R[k]))
					k += 1
			return cells, R, key
		return [(sel[s], sel[t], R[s, t]) for s in range(m) for t in range(m)], R, key
	raise ValueError(op)


class _Shape(Exception):
	pass


def _seq_fail_call(P, st):
	"""a call that cannot succeed (bad input in the middle of a batch, a caller-supplied sequence / progress meter that
	raises part-way, a wrong out= array); it shares the pool's collections, index objects and out= buffers"""
	from gambit.metric import jaccarddist_array, jaccarddist_matrix, jaccarddist_pairwise
	api, how, at = st['api'], st['how'], st.get('at', 1)
	bad = np.array([0.5, 1.5])
	kw = {}
	if api == 'dist':
		# a non-integer array in either position, the caller's good array in the other
		return _dist_call('keyword' if at % 2 else 'positional', *((P.arrs[st['a']], bad) if how == 'bad-second' else (bad, P.arrs[st['a']])))
	if api == 'array':
		refs = P.colls[st['refs']]
		n = len(P.members[st['refs']])
		if how == 'bad-ref':
			refs = list(refs)
			refs.insert(min(at, len(refs)), bad)
			n += 1
		elif how == 'raising-seq':
			refs = _RaisingSeq(list(refs), min(at, n - 1))
		shape = (n,)
		if how == 'bad-out':
			kw['out'] = np.zeros((n + 1,), dtype='f4') if at % 2 else np.zeros((n,), dtype='f8')
		else:
			kw['out'] = P.out(shape, 'shared')[0]
		return jaccarddist_array(P.arrs[st['q']], refs, **kw)
	if api == 'matrix':
		qs, refs = P.colls[st['qs']], P.colls[st['refs']]
		nq, n = len(P.members[st['qs']]), len(P.members[st['refs']])
		nr = n
		if st.get('idx') is not None:
			kw['ref_indices'] = P.idxs[st['idx']]
			nr = len(P.idxvals[st['idx']])
		if how == 'oob-index':
			vals = list(range(n)) if st.get('idx') is None else list(P.idxvals[st['idx']])
			vals.insert(min(at, len(vals)), n + 2 if at % 2 else -(n + 3))
			kw['ref_indices'] = _idx(vals, st.get('idxtype', 'list'))
			nr = len(vals)
		elif how == 'bad-ref':
			refs = list(refs)
			refs.insert(min(at, len(refs)), bad)
			if 'ref_indices' not in kw:
				nr += 1
			else:
				kw['ref_indices'] = list(range(len(refs)))
				nr = len(refs)
		elif how == 'bad-query':
			qs = list(qs)
			qs.insert(min(at, len(qs)), bad)
			nq += 1
		elif how == 'raising-seq':
			qs = _RaisingSeq(list(qs), min(at, nq - 1))
		elif how == 'raising-progress':
			kw['progress'] = lambda total, initial=0, **k: _Meter(total, max(1, min(at, total)))
		if how == 'chunk0':
			kw['chunksize'] = 0
		elif st.get('chunksize') is not None:
			kw['chunksize'] = st['chunksize']
		if how == 'bad-out':
			kw['out'] = np.zeros((nq, nr + 1), dtype='f4') if at % 2 else np.zeros((nq, nr), dtype='f8')
		else:
			kw['out'] = P.out((nq, nr), 'shared')[0]
		return jaccarddist_matrix(qs, refs, **kw)
	if api == 'pairwise':
		sigs = P.colls[st['sigs']]
		n = len(P.members[st['sigs']])
		m = n
		flat = bool(st.get('flat'))
		if st.get('idx') is not None:
			kw['indices'] = P.idxs[st['idx']]
			m = len(P.idxvals[st['idx']])
		if how == 'oob-index':
			vals = list(range(n)) if st.get('idx') is None else list(P.idxvals[st['idx']])
			vals.insert(min(at, len(vals)), n + 2 if at % 2 else -(n + 3))
			kw['indices'] = _idx(vals, st.get('idxtype', 'list'))
			m = len(vals)
		elif how == 'bad-ref':
			sigs = list(sigs)
			sigs.insert(min(max(at, 1), len(sigs)), bad)
			if 'indices' in kw:
				kw['indices'] = list(range(len(sigs)))
			m = len(sigs)
		elif how == 'raising-progress':
			kw['progress'] = lambda total, initial=0, **k: _Meter(total, max(1, min(at, total)))
		shape = (m * (m - 1) // 2,) if flat else (m, m)
		if how == 'bad-out':
			kw['out'] = np.zeros(tuple(k + 1 for k in shape), dtype='f4') if at % 2 else np.zeros(shape, dtype='f8')
		else:
			kw['out'] = P.out(shape, 'shared')[0]
		return jaccarddist_pairwise(sigs, flat=flat, **kw)
	raise ValueError(api)


def _seq_mutate(P, st):
	"""the caller changes one of the objects between two calls (the harness's record follows)"""
	op = st['op']
	if op == 'set':
		t, p, i = st['coll'], st['pos'], st['sig']
		cont = P.colls[t]
		if P.conts[t] in ('plain', 'list'):
			cont[p] = P.arrs[i]
		elif P.conts[t] == 'annotated-list':
			P.inner[t][p] = P.arrs[i]
		else:
			slot = cont[p]
			if len(slot) != len(P.arrs[i]):
				_stat('caller-side changes skipped')
				return
			np.copyto(slot, P.arrs[i], casting='unsafe')
		P.members[t][p] = i if P.conts[t] in SEQ_BYREF else P.content[i]
	elif op == 'append':
		P.colls[st['coll']].append(P.arrs[st['sig']])
		P.members[st['coll']].append(st['sig'])
	elif op == 'pop':
		P.colls[st['coll']].pop()
		P.members[st['coll']].pop()
	elif op == 'rewrite':
		# the caller overwrites one of its arrays in place (same length): every collection holding that object follows
		i, j = st['sig'], st['to']
		if len(P.arrs[i]) != len(P.sigs[j]) or not _fits(P.c['dts'][i], max(P.sigs[j], default=0)):
			_stat('caller-side changes skipped')
			return
		P.arrs[i][:] = _arr(P.sigs[j], P.c['dts'][i])
		P.content[i] = j
	elif op == 'setidx':
		P.idxs[st['idx']][st['pos']] = st['val']
		P.idxvals[st['idx']][st['pos']] = st['val']
	elif op in ('setslice', 'reverse', 'swap', 'move', 'replace', 'elemwrite'):
		# length-preserving changes through the list / MutableSequence API of a collection holding the caller's arrays (a plain
		# list, a SignatureList, the SignatureList the caller wrapped in AnnotatedSignatures); the record follows with the same
		# operation on a Python list of pool numbers
		t = st['coll']
		if P.conts[t] not in SEQ_MUTABLE:
			raise ValueError(f'{op} on a {P.conts[t]}')
		cont = P.inner[t] if P.conts[t] == 'annotated-list' else P.colls[t]
		mem = P.members[t]
		n = len(mem)
		if op == 'setslice':
			sl = slice(st['start'], st['stop'], st.get('step'))
			if len(range(*sl.indices(n))) != len(st['sigs']):
				raise ValueError('slice assignment of another length')
			cont[sl] = [P.arrs[i] for i in st['sigs']]
			mem[sl] = list(st['sigs'])
		elif op == 'reverse':
			cont.reverse()
			mem.reverse()
		elif op == 'swap':
			p, q = st['pos'], st['other']
			cont[p], cont[q] = cont[q], cont[p]
			mem[p], mem[q] = mem[q], mem[p]
		elif op == 'move':
			cont.insert(st['to'], cont.pop(st['pos']))
			mem.insert(st['to'], mem.pop(st['pos']))
		elif op == 'replace':
			del cont[st['pos']]
			cont.insert(st['to'], P.arrs[st['sig']])
			del mem[st['pos']]
			mem.insert(st['to'], st['sig'])
		else:
			# the caller writes into the element it gets back FROM the collection (same length); the collection holds the caller's
			# array object, so every holder of that object follows
			i, j = mem[st['pos']], st['to']
			e = cont[st['pos']]
			if len(e) != len(P.sigs[j]) or not _fits(P.c['dts'][i], max(P.sigs[j], default=0)):
				_stat('caller-side changes skipped')
				return
			new = _arr(P.sigs[j], P.c['dts'][i])
			e[:] = new
			if e is not P.arrs[i] and len(e) and not np.shares_memory(e, P.arrs[i]):
				P.arrs[i][:] = new
			P.content[i] = j
		if len(mem) != n or len(cont) != n:
			raise ValueError('the change did not keep the length')
		_stat('length-preserving list changes')
	else:
		raise ValueError(op)


def _seq_judge(ctx, c, cells, via):
	"""all cells that stand for the same ordered pair agree; then every clause on the table of the signatures involved"""
	nodes = sorted({i for i, _, _ in cells} | {j for _, j, _ in cells})
	pos = {p: t for t, p in enumerate(nodes)}
	D = [[None] * len(nodes) for _ in nodes]
	for i, j, v in cells:
		old = D[pos[i]][pos[j]]
		if old is not None and f32_bits(old) != f32_bits(v) and not (v != v and old != old):
			ctx.violation('seq', c, f'{via}: two cells for the pair of pool signatures ({i},{j}) differ: {float(old)!r} and {float(v)!r}', pair=[i, j])
			return True
		D[pos[i]][pos[j]] = v
	return _judge(ctx, 'seq', c, D, _su_table([c['sigs'][p] for p in nodes]), f'{via}; d(i,j) numbers the pool signatures {nodes}')


def _seq_cli(ctx, c, P, st, t):
	"""gambit dist on signature files holding what the collections hold now (written by the harness from its own record)"""
	import csv
	import os
	from click.testing import CliRunner
	import gambit.cli
	from gambit.kmers import KmerSpec
	from gambit.sigs import SignatureList, AnnotatedSignatures, SignaturesMeta, dump_signatures
	ks = KmerSpec(11, 'ATGAC')
	d = _scratch()
	paths = {}
	for name, k in (('q', st['qs']), ('r', st.get('rs'))):
		if k is None:
			continue
		paths[name] = os.path.join(d, f'seq-cli-{k}.gs')
		if os.path.exists(paths[name]):
			os.remove(paths[name])
		arrs = [np.array(s, dtype=ks.index_dtype) for s in P.recorded(k)]
		ids = np.array([f'c{k}s{i}' for i in range(len(arrs))], dtype=object)
		dump_signatures(paths[name], AnnotatedSignatures(SignatureList(arrs, ks, dtype=ks.index_dtype), ids, SignaturesMeta(id_attr='key')), 'hdf5')
	out = os.path.join(d, 'seq-cli-out.csv')
	if os.path.exists(out):
		os.remove(out)
	args = ['dist', '--qs', paths['q'], '-o', out] + (['--square'] if 'r' not in paths else ['--rs', paths['r']])
	if st.get('cores'):
		args += ['-c', str(st['cores'])]
	if st.get('bad'):
		# an invocation that cannot succeed, over the same files: only the invocations after it are judged
		args += {'missing-rs': ['--rs', os.path.join(d, 'seq-cli-none.gs')], 'square-and-rs': ['--square', '--rs', paths['q']],
		         'other-k': ['-k', '9', '-p', 'ATGAC']}[st['bad']]
		with _omp(0):
			res = CliRunner().invoke(gambit.cli.cli, args)
		_stat('failing invocations ' + ('refused' if res.exit_code != 0 else 'that returned'))
		return []
	with _omp(0):
		res = CliRunner().invoke(gambit.cli.cli, args)
	rows, cols = P.resolve(st['qs']), P.resolve(st['qs'] if st.get('rs') is None else st['rs'])
	via = f'step {t} gambit dist ({_seq_describe(st)})'
	try:
		if res.exit_code != 0 or res.exception is not None:
			raise RuntimeError(f'exit {res.exit_code}: {res.exception!r} {(res.output or "")[-300:]}')
		with open(out, newline='') as f:
			lines = list(csv.reader(f))
		M = [[float(x) for x in r[1:]] for r in lines[1:]]
		if len(M) != len(rows) or any(len(r) != len(cols) for r in M):
			raise RuntimeError(f'{len(M)} rows for {len(rows)} x {len(cols)} signatures')
	except Exception as e:
		ctx.violation('seq', c, f'{via}: no distance matrix for valid signatures: {type(e).__name__}: {e}', step=t)
		return None
	cells = {}
	for i, a in enumerate(rows):
		for j, b in enumerate(cols):
			v = M[i][j]
			A, B = set(P.sigs[a]), set(P.sigs[b])
			s, u = len(A ^ B), len(A | B)
			what = None
			if not (0 <= v <= 1):
				what = f'outside [0,1]'
			elif (v == 0) != (s == 0):
				what = f'but sets equal is {s == 0}'
			elif (v == 1) != (u > 0 and s == u):
				what = f'but disjoint-and-not-both-empty is {u > 0 and s == u}'
			elif u and abs(Fraction(v) - Fraction(s, u)) > Fraction(1, 2 ** 24) + Fraction(51, 10 ** 6):
				what = f'is not the distance {s}/{u} of the two sets printed with 4 decimals'
			elif cells.get((a, b), v) != v or cells.get((b, a), v) != v:
				what = f'but another cell for the same two signatures (either order) prints {cells.get((a, b), cells.get((b, a)))!r}'
			if what:
				ctx.violation('seq', c, f'{via}: cell ({i},{j}) = {v!r} {what} (pool signatures {a} and {b})', step=t)
				return None
			cells[(a, b)] = v
	return M


def _seq_nontrivial(c):
	"""at least two computing steps share a caller object, and the pool has two pairs of sets that intersect without
	being equal"""
	use = {}
	n = 0

	def walk(steps):
		nonlocal n
		for st in steps:
			if st['op'] == 'par':
				walk(st['steps'])
				continue
			if st['op'] not in SEQ_COMPUTE and st['op'] != 'fail':
				continue
			n += st['op'] != 'fail'
			for f, tag in (('qs', 'coll'), ('refs', 'coll'), ('sigs', 'coll'), ('rs', 'coll'), ('idx', 'idx'), ('q', 'sig'), ('a', 'sig'), ('b', 'sig')):
				if st.get(f) is not None:
					use[(tag, st[f])] = use.get((tag, st[f]), 0) + 1
	walk(c['steps'])
	SU = _su_table(c['sigs'])
	pairs = sum(1 for i in range(len(SU)) for j in range(i) if 0 < SU[i][j][0] < SU[i][j][1])
	return n >= 2 and any(v >= 2 for v in use.values()) and pairs >= 2


def k_seq(ctx, cases):
	"""statefulness and aliasing: a short script of calls (jaccarddist / jaccarddist_array / _matrix / _pairwise / gambit
	dist) over a small pool of SHARED caller objects -- signature arrays, collections of several types and sizes, index
	objects, out= buffers, a progress configuration -- with the caller changing an object between two calls, calls that
	fail part-way, calls from a second thread and two calls at once.  Every computing step is judged by every clause of
	the property on the harness's own record of what the objects hold; after every step the caller's objects must be what
	they were (out= buffers excepted: documented), the same call repeated must give the same bits, and no array returned
	earlier may have changed"""
	for c in cases:
		ctx.case(c, nontrivial=_seq_nontrivial(c))
		try:
			P = _Pool(c)
		except Exception as e:
			ctx.violation('seq', c, f'building the collections of valid signatures raised {type(e).__name__}: {e}')
			continue
		omp = _omp(c.get('omp', 1))
		omp.__enter__()
		try:
			_seq_run(ctx, c, P)
		finally:
			omp.__exit__()
			P.close()


def _seq_run(ctx, c, P):
	mode = c.get('thread', 0)

	def on(t, fn):
		"""run fn on the main thread or on the script's worker thread"""
		if mode == 1 or (mode == 2 and t % 2):
			return P.worker().submit(fn).result()
		return fn()

	def unchanged(before, t, st):
		after = P.fingerprint()
		diff = [k for k in before if before[k] != after[k]]
		if diff:
			ctx.violation('seq', c, f'step {t} ({_seq_describe(st)}) modified an object of the caller: {", ".join(diff)}', step=t, objects=diff)
			return False
		return True

	def aliased(t, st):
		for (t0, arr, bits, key) in P.results:
			now = _f4bits(arr)
			if now.shape != bits.shape or (now != bits).any():
				ctx.violation('seq', c, f'the array returned by step {t0} changed during step {t} ({_seq_describe(st)}): a result is not the '
				              f'caller\'s own (was bits {bits.ravel()[:8].tolist()}, now {now.ravel()[:8].tolist()})', step=t, earlier=t0)
				return True
		return False

	for t, st in enumerate(c['steps']):
		op = st['op']
		via = f'step {t} ({_seq_describe(st)})'
		if op in SEQ_CHANGES:
			try:
				_seq_mutate(P, st)
			except Exception as e:
				ctx.violation('seq', c, f'{via}: the caller can no longer change its own object after the calls before: {type(e).__name__}: {e}', step=t)
				return
			_stat('caller-side changes')
			continue
		before = P.fingerprint()
		if op == 'fail':
			try:
				on(t, lambda: _seq_fail_call(P, st))
				_stat(f'failing calls that returned ({st["api"]} {st["how"]})')
			except Exception as e:
				_stat(f'failing calls refused ({type(e).__name__})')
			if not unchanged(before, t, st) or aliased(t, st):
				return
			continue
		if op == 'cli':
			M = _seq_cli(ctx, c, P, st, t)
			if M is None or not unchanged(before, t, st):
				return
			if not st.get('bad'):
				_stat('steps judged')
				M2 = _seq_cli(ctx, c, P, st, t)
				if M2 is None:
					return
				if M2 != M:
					ctx.violation('seq', c, f'step {t} ({_seq_describe(st)}): the same invocation on the same files prints different cells the second time', step=t)
					return
				_stat('steps repeated')
			continue
		subs = st['steps'] if op == 'par' else [st]
		try:
			if op == 'par':
				import threading
				from concurrent.futures import ThreadPoolExecutor
				gate = threading.Barrier(len(subs))
				def one(s):
					gate.wait(10)
					return _seq_call(P, s)
				with ThreadPoolExecutor(len(subs), initializer=_omp_here, initargs=(c.get('omp', 1),)) as ex:
					futs = [ex.submit(one, s) for s in subs]
					got = [f.result() for f in futs]
			else:
				got = [on(t, lambda: _seq_call(P, st))]
		except Exception as e:
			ctx.violation('seq', c, f'{via} raised {type(e).__name__}: {e} for valid signatures and documented options: no distances', step=t)
			return
		snaps = []
		for s, (cells, R, key) in zip(subs, got):
			if _seq_judge(ctx, c, cells, f'step {t} ({_seq_describe(s)})'):
				return
			_stat('steps judged')
			snaps.append(_f4bits(R if R is not None else [v for _, _, v in cells]))
			if R is not None:
				P.results.append((t, R, snaps[-1], key))
		if not unchanged(before, t, st) or aliased(t, st):
			return
		# the same call once more (a fresh out= array where one was passed; on the other thread when the script alternates):
		# same bits, and every array returned so far stays what it was
		for s, snap in zip(subs, snaps):
			try:
				cells2, R2, _ = on(t + 1, lambda: _seq_call(P, s, fresh=True))
			except Exception as e:
				ctx.violation('seq', c, f'step {t} ({_seq_describe(s)}) repeated raised {type(e).__name__}: {e}', step=t)
				return
			again = _f4bits(R2 if R2 is not None else [v for _, _, v in cells2])
			if again.shape != snap.shape or (again != snap).any():
				if not _seq_judge(ctx, c, cells2, f'step {t} ({_seq_describe(s)}) repeated'):
					ctx.violation('seq', c, f'step {t} ({_seq_describe(s)}): the same call on the same objects gives different bits the second time', step=t)
				return
			_stat('steps repeated')
		if not unchanged(before, t, st) or aliased(t, st):
			return
	# the collections hold what the harness recorded (its own sanity, and nothing was written through a retained reference)
	for k in range(len(P.colls)):
		if P.held(k) != P.recorded(k):
			ctx.violation('seq', c, f'at the end of the script collection {k} ({P.conts[k]}) holds {P.held(k)} but the caller put {P.recorded(k)} there')
			return


def _keeplen_change(rng, how, t, cur, content, pool, dts):
	"""one change of kind `how` (SEQ_KEEPLEN) to collection t that keeps its length but not what it holds; cur = pool numbers of
	the array objects it holds, content = number of the k-mer set each array object holds (both updated); None if this pool
	offers no such change"""
	n = len(cur)
	before = [pool[content[i]] for i in cur]
	cur0, content0 = list(cur), list(content)

	def other(now):
		opts = [i for i in range(len(pool)) if pool[content[i]] != now]
		return rng.choice(opts) if opts else None

	def same_length(i):
		return [j for j in range(len(pool)) if len(pool[j]) == len(pool[content[i]]) and pool[j] != pool[content[i]] and _fits(dts[i], max(pool[j], default=0))]

	st = None
	if how in ('set', 'set-neg'):
		p = rng.randrange(n)
		i = other(before[p])
		if i is None:
			return None
		cur[p] = i
		st = dict(op='set', coll=t, pos=p - n if how == 'set-neg' else p, sig=i)
	elif how in ('setslice', 'setslice-step'):
		if how == 'setslice':
			start = rng.randrange(n)
			k = rng.randint(1, n - start)
			sl = (rng.choice([start, start - n]), None if start + k == n and rng.random() < 0.5 else start + k, None)
		else:
			sl = rng.choice([(None, None, 2), (None, None, -1), (1, None, 2), (-1, None, -2)])
		pos = list(range(*slice(*sl).indices(n)))
		if not pos:
			return None
		sigs = [rng.randrange(len(pool)) for _ in pos]
		q = rng.randrange(len(pos))
		sigs[q] = other(before[pos[q]])
		if sigs[q] is None:
			return None
		for p, i in zip(pos, sigs):
			cur[p] = i
		st = dict(op='setslice', coll=t, start=sl[0], stop=sl[1], step=sl[2], sigs=sigs)
	elif how == 'reverse':
		cur.reverse()
		st = dict(op='reverse', coll=t)
	elif how == 'swap':
		pairs = [(p, q) for p in range(n) for q in range(n) if before[p] != before[q]]
		if not pairs:
			return None
		p, q = rng.choice(pairs)
		cur[p], cur[q] = cur[q], cur[p]
		st = dict(op='swap', coll=t, pos=p, other=rng.choice([q, q - n]))
	elif how == 'move':
		pairs = [(p, q) for p in range(n) for q in range(n) if p != q]
		rng.shuffle(pairs)
		for p, q in pairs:
			new = list(cur)
			new.insert(q, new.pop(p))
			if [pool[content[i]] for i in new] != before:
				cur[:] = new
				st = dict(op='move', coll=t, pos=rng.choice([p, p - n]), to=q)
				break
	elif how == 'replace':
		for _ in range(8):
			p, q, i = rng.randrange(n), rng.randrange(n), rng.randrange(len(pool))
			new = list(cur)
			del new[p]
			new.insert(q, i)
			if [pool[content[k]] for k in new] != before:
				cur[:] = new
				st = dict(op='replace', coll=t, pos=p, to=q, sig=i)
				break
	elif how in ('rewrite', 'elemwrite'):
		slots = [(p, j) for p in range(n) for j in same_length(cur[p])]
		if not slots:
			return None
		p, j = rng.choice(slots)
		content[cur[p]] = j
		st = dict(op='rewrite', sig=cur[p], to=j) if how == 'rewrite' else dict(op='elemwrite', coll=t, pos=rng.choice([p, p - n]), to=j)
	else:
		raise ValueError(how)
	if st is None or [pool[content[i]] for i in cur] == before:
		cur[:], content[:] = cur0, content0
		return None
	return st


def _seq_case(rng, rnd, nsteps, cli=False, hdf5=False, thread=0, conts=None, idxhow=None, uniform=None):
	"""one script: a pool of k-mer sets (empty, equal, nested, overlapping; every fourth pool with values beyond a narrower
	type), three collections (two of the same length, one of another), two or three index objects (negative indices too),
	and nsteps steps over them, objects chosen with repetition; the generator follows the lengths so that every index
	object is used only with collections it is valid for"""
	wide = rnd % 4 == 0 and not cli and not hdf5 and not uniform
	lift = rng.choice([2 ** 16, 2 ** 32]) if wide else 0
	core = sorted(rng.sample(range(30), 6))
	pool = [[], core, core[:3], core[3:], [core[0]], list(core)]
	for _ in range(rng.randint(2, 3)):
		pool.append(sorted(set(rng.sample(core, rng.randint(1, 5))) | set(rng.sample(range(30), rng.randint(0, 3)))))
	if wide:
		pool += [sorted(set(s) | {lift + x for x in rng.sample(core, 2)}) for s in pool[-2:]]
	rng.shuffle(pool)
	if uniform:
		# every signature in ONE integer type (also the declared type of every collection): low values or a window at the top of it
		off = rng.choice([0, 0, _cap(uniform) - 30])
		pool = [[off + x for x in s] for s in pool]
	top = max(x for s in pool for x in s)
	fit = [dt for dt in DTYPES if _fits(dt, top)]
	dts = [rng.choice([dt for dt in DTYPES if _fits(dt, max(s, default=0))]) for s in pool]
	if uniform:
		fit, dts = [uniform], [uniform] * len(pool)
	n1 = rng.randint(2, 4)
	sizes = [n1, n1, rng.choice([s for s in range(2, 7) if s != n1])]
	rng.shuffle(sizes)
	types = ['plain', 'plain', 'tuple', 'list', 'list', 'array', 'array', 'slice', 'i4bounds', 'annotated', 'annotated-list']
	colls = []
	for t, size in enumerate(sizes):
		colls.append(dict(cont='hdf5' if hdf5 and t == 0 else conts[t] if conts else rng.choice(types), cdt=rng.choice([dt for dt in fit if dt[1] != '2' or top < 2 ** 15] or fit),
		                  members=[rng.randrange(len(pool)) for _ in range(size)]))
	idxs = []
	for _ in range(rng.randint(2, 3)):
		lim = rng.choice(sizes)
		idxs.append(dict(how=rng.choice(['list', 'tuple', 'np', 'np32', 'npint-list']), vals=[rng.randrange(-lim, lim) for _ in range(rng.randint(1, 5))]))
	if idxhow:
		# index objects that fit every collection, counting from the end as well
		lim = min(sizes)
		idxs = [dict(how=idxhow, vals=[rng.randrange(-lim, 0)] + [rng.randrange(-lim, lim) for _ in range(rng.randint(1, 3))]) for _ in range(2)]
	cur = [list(k['members']) for k in colls]
	curidx = [list(x['vals']) for x in idxs]
	content = list(range(len(pool)))      # which k-mer set each array object holds (followed like the interpreter does)

	def holds(t, p):
		return content[cur[t][p]] if colls[t]['cont'] in SEQ_BYREF else cur[t][p]

	def pick_idx(L):
		ok = [m for m, v in enumerate(curidx) if all(-L <= x < L for x in v)]
		return rng.choice(ok) if ok and rng.random() < 0.65 else None

	def compute(api=None, par=False):
		api = api or rng.choice(['dist', 'array', 'matrix', 'matrix', 'pairwise', 'pairwise'])
		out = rng.choice(['none', 'nan']) if par else rng.choice(['none', 'none', 'nan', 'shared', 'shared'])
		prog = rng.choice([None, None, 'cls', 'config'])
		if api == 'dist':
			return dict(op='dist', a=rng.randrange(len(pool)), b=rng.randrange(len(pool)), call=rng.choice(CALLS))
		if api == 'array':
			return dict(op='array', q=rng.randrange(len(pool)), refs=rng.randrange(3), out=out)
		if api == 'matrix':
			k = rng.randrange(3)
			return dict(op='matrix', qs=rng.randrange(3), refs=k, idx=pick_idx(len(cur[k])), chunksize=rng.choice([None, None, 1, 2, 3]), out=out, progress=prog)
		k = rng.randrange(3)
		return dict(op='pairwise', sigs=k, idx=pick_idx(len(cur[k])), flat=rng.random() < 0.5, out=out, progress=prog)

	def mutate(last):
		"""the caller changes an object the last computing step used (any object if there is none)"""
		used = [last[f] for f in ('refs', 'sigs', 'qs') if last and last.get(f) is not None]
		usedidx = [last['idx']] if last and last.get('idx') is not None else []
		if rng.random() < (0.6 if uniform else 0.3):
			# a change through the list API that keeps the LENGTH of a collection holding the caller's arrays (the one just used)
			cs = [t for t in used if colls[t]['cont'] in SEQ_MUTABLE] or [t for t in range(3) if colls[t]['cont'] in SEQ_MUTABLE]
			if cs:
				t = rng.choice(cs)
				ch = _keeplen_change(rng, rng.choice(SEQ_KEEPLEN), t, cur[t], content, pool, dts)
				if ch:
					return ch
		r = rng.random()
		if r < 0.22:
			# overwrite an array object in place: one the last step passed directly or through a collection holding references
			objs = [last[f] for f in ('q', 'a', 'b') if last and last.get(f) is not None] + [i for t in used if colls[t]['cont'] in SEQ_BYREF for i in cur[t]]
			for i in rng.sample(objs, len(objs)) + rng.sample(range(len(pool)), len(pool)):
				opts = [j for j in range(len(pool)) if len(pool[j]) == len(pool[content[i]]) and pool[j] != pool[content[i]] and _fits(dts[i], max(pool[j], default=0))]
				if opts:
					content[i] = rng.choice(opts)
					return dict(op='rewrite', sig=i, to=content[i])
		r = rng.random()
		if usedidx and r < 0.25:
			r = 1.0
		elif used and not any(colls[t]['cont'] in SEQ_MUTABLE + SEQ_INPLACE for t in used):
			used = []
		def cands(kinds, cond=lambda t: True):
			pref = [t for t in used if colls[t]['cont'] in kinds and cond(t)]
			return pref or [t for t in range(3) if colls[t]['cont'] in kinds and cond(t)]
		if r < 0.6:
			cs = cands(SEQ_MUTABLE + SEQ_INPLACE)
			if cs:
				t = rng.choice(cs)
				p = rng.randrange(len(cur[t]))
				now = pool[holds(t, p)]
				opts = [i for i in range(len(pool)) if pool[content[i]] != now and (colls[t]['cont'] in SEQ_MUTABLE or len(pool[content[i]]) == len(now))]
				if opts:
					i = rng.choice(opts)
					cur[t][p] = i if colls[t]['cont'] in SEQ_BYREF else content[i]
					return dict(op='set', coll=t, pos=p, sig=i)
		if r < 0.75:
			cs = cands(SEQ_RESIZABLE, lambda t: len(cur[t]) < 7)
			if cs:
				t = rng.choice(cs)
				cur[t].append(rng.randrange(len(pool)))
				return dict(op='append', coll=t, sig=cur[t][-1])
		if r < 0.88:
			cs = cands(SEQ_RESIZABLE, lambda t: len(cur[t]) > 2)
			if cs:
				t = rng.choice(cs)
				cur[t].pop()
				return dict(op='pop', coll=t)
		cs = [m for m in usedidx if idxs[m]['how'] != 'tuple'] or [m for m in range(len(idxs)) if idxs[m]['how'] != 'tuple']
		if cs:
			m = rng.choice(cs)
			lim = min(len(x) for x in cur)
			p = rng.randrange(len(curidx[m]))
			v = rng.choice([x for x in range(-lim, lim) if x != curidx[m][p]])
			curidx[m][p] = v
			return dict(op='setidx', idx=m, pos=p, val=v)
		return None

	def again(st):
		"""the step once more after a change of the caller (an index object that no longer fits the collection is dropped)"""
		st = dict(st)
		if st.get('idx') is not None:
			L = len(cur[st['refs'] if st['op'] == 'matrix' else st['sigs']])
			if not all(-L <= x < L for x in curidx[st['idx']]):
				st['idx'] = None
		return st

	def failing():
		api = rng.choice(['matrix', 'matrix', 'pairwise', 'array'])
		how = rng.choice({'matrix': ['oob-index', 'bad-ref', 'bad-query', 'raising-seq', 'raising-progress', 'bad-out', 'chunk0'],
		                  'pairwise': ['oob-index', 'bad-ref', 'raising-progress', 'bad-out'], 'array': ['bad-ref', 'raising-seq', 'bad-out']}[api])
		base = dict(compute(api), out='shared')
		fail = dict(base, op='fail', api=api, how=how, at=rng.randint(1, 4), idxtype=rng.choice(['list', 'np']))
		good = dict(base)
		f = {'matrix': 'qs', 'pairwise': 'sigs'}.get(api)
		if f:
			same = [t for t in range(3) if t != base[f] and len(cur[t]) == len(cur[base[f]])]
			if same:
				good[f] = rng.choice(same)
				if api == 'pairwise' and good.get('idx') is not None:
					L = len(cur[good[f]])
					if not all(-L <= x < L for x in curidx[good['idx']]):
						good['idx'] = None
		else:
			good['q'] = rng.randrange(len(pool))
		return [fail, good]

	steps = []
	while len(steps) < nsteps:
		r = rng.random()
		if r < (0.4 if uniform else 0.2) and steps:
			last = next((x for x in reversed(steps) if x['op'] in ('dist', 'array', 'matrix', 'pairwise')), None)
			m = mutate(last)
			if m:
				steps.append(m)
				if last:
					steps.append(again(last))
		elif r < 0.36:
			steps += failing()
		elif r < 0.42:
			steps.append(dict(op='par', steps=[compute(par=True), compute(par=True)]))
		else:
			steps.append(compute())
	if nsteps and steps[-1]['op'] not in ('dist', 'array', 'matrix', 'pairwise'):
		steps.append(compute())
	if cli:
		for _ in range(rng.randint(2, 3)):
			k = rng.randrange(3)
			at = rng.randint(0, len(steps))
			steps.insert(at, dict(op='cli', qs=k, rs=rng.choice([None, rng.randrange(3)]), cores=rng.choice([None, 1, 2])))
			if rng.random() < 0.5:
				steps.insert(at, dict(op='cli', qs=k, rs=None, cores=rng.choice([None, 2]), bad=rng.choice(['missing-rs', 'square-and-rs', 'other-k'])))
	return dict(sigs=pool, dts=dts, colls=colls, idxs=idxs, steps=steps, omp=1 + rnd % 2, thread=thread)


def _seq_systematic(rng, rnd0):
	"""the small products behind the random scripts, one script each: (1) every changeable collection type x every role it
	can play x every change the caller can make to it, between two identical calls; (2) every way a call can fail part-way x
	api x collection type, between good calls of the same shape on the same thread and out= buffer; (3) one index object
	(counting from the end too) / one query collection against two collections of different sizes, in both orders"""
	rnd = rnd0
	roles = {'matrix-refs': lambda k, m: dict(op='matrix', qs=1, refs=k, idx=m, chunksize=2, out='none', progress=None),
	         'matrix-qs': lambda k, m: dict(op='matrix', qs=k, refs=1, idx=None, chunksize=None, out='none', progress=None),
	         'pairwise': lambda k, m: dict(op='pairwise', sigs=k, idx=m, flat=False, out='none', progress=None),
	         'array-refs': lambda k, m: dict(op='array', q=0, refs=k, out='none')}
	others = ['plain', 'list', 'array', 'tuple']
	# (1) a change of the caller between two identical calls
	def rewrites(c, i):
		return [j for j in range(len(c['sigs'])) if len(c['sigs'][j]) == len(c['sigs'][i]) and c['sigs'][j] != c['sigs'][i] and _fits(c['dts'][i], max(c['sigs'][j], default=0))]
	for cont in SEQ_BYREF + SEQ_INPLACE:
		for role in roles:
			for change in ('set', 'append', 'pop', 'rewrite'):
				if (change == 'set' and cont == 'tuple') or (change in ('append', 'pop') and cont not in SEQ_RESIZABLE) or (change == 'rewrite' and cont not in SEQ_BYREF):
					continue
				rnd += 1
				c = _seq_case(rng, rnd, 0, conts=[cont, rng.choice(others), rng.choice(others)], idxhow='list')
				mem = c['colls'][0]['members']
				call = roles[role](0, None)
				if change == 'set':
					slots = [(p, i) for p in range(len(mem)) for i in range(len(c['sigs'])) if c['sigs'][i] != c['sigs'][mem[p]]
					         and (cont in SEQ_MUTABLE or len(c['sigs'][i]) == len(c['sigs'][mem[p]]))]
					if not slots:
						continue
					p, i = rng.choice(slots)
					ch = dict(op='set', coll=0, pos=p, sig=i)
				elif change == 'append':
					ch = dict(op='append', coll=0, sig=rng.randrange(len(c['sigs'])))
				elif change == 'rewrite':
					slots = [(i, j) for i in set(mem) for j in rewrites(c, i)]
					if not slots:
						continue
					i, j = rng.choice(slots)
					ch = dict(op='rewrite', sig=i, to=j)
				else:
					if len(mem) < 3:
						continue
					ch = dict(op='pop', coll=0)
				c['steps'] = [call, ch, dict(call), dict(call, out='shared')]
				yield 'state-change-between-calls', c
	def ratio(x, y):
		return Fraction(len(set(x) ^ set(y)), len(set(x) | set(y)) or 1)
	for rep in range(12):
		# an array passed directly, overwritten in place between two identical calls (the distance to the other one changes)
		rnd += 1
		c = _seq_case(rng, rnd, 0, idxhow='list')
		S = c['sigs']
		slots = [(i, j, b) for i in range(len(S)) for j in rewrites(c, i) for b in range(len(S)) if b != i and ratio(S[i], S[b]) != ratio(S[j], S[b])]
		if not slots:
			continue
		i, j, b = rng.choice(slots)
		call = dict(op='dist', a=(i, b)[rep % 2], b=(b, i)[rep % 2], call=CALLS[rep % 3]) if rep < 6 else dict(op='array', q=i, refs=rep % 3, out='none')
		c['steps'] = [call, dict(op='rewrite', sig=i, to=j), dict(call), dict(call)]
		yield 'state-change-between-calls', c
	for role in ('matrix-refs', 'pairwise'):
		for how in ('list', 'np', 'np32', 'npint-list'):
			rnd += 1
			c = _seq_case(rng, rnd, 0, conts=[rng.choice(others), rng.choice(others), rng.choice(others)], idxhow=how)
			vals = c['idxs'][0]['vals']
			p = rng.randrange(len(vals))
			lim = min(len(k['members']) for k in c['colls'])
			call = roles[role](0, 0)
			c['steps'] = [call, dict(op='setidx', idx=0, pos=p, val=rng.choice([x for x in range(-lim, lim) if x != vals[p]])), dict(call), dict(call, out='shared')]
			yield 'state-change-between-calls', c
	# (2) a call that fails part-way between good calls of the same shape
	fails = {'matrix': ['oob-index', 'bad-ref', 'bad-query', 'raising-seq', 'raising-progress', 'bad-out', 'chunk0'],
	         'pairwise': ['oob-index', 'bad-ref', 'raising-progress', 'bad-out'], 'array': ['bad-ref', 'raising-seq', 'bad-out'],
	         'dist': ['bad-first', 'bad-second']}
	for api in fails:
		for how in fails[api]:
			for cont in ('plain', 'array', 'list'):
				rnd += 1
				c = _seq_case(rng, rnd, 0, conts=[cont, rng.choice(others), rng.choice(others)], idxhow='list')
				n = [len(k['members']) for k in c['colls']]
				same = next(t for t in (1, 2) if n[t] == n[0]) if n[0] in n[1:] else 0
				other = next(t for t in (1, 2) if t != same)
				at = rng.randint(1, 3)
				if api == 'matrix':
					good = dict(op='matrix', qs=0, refs=other, idx=None, chunksize=rng.choice([None, 1, 2]), out='shared', progress=None)
					after = dict(good, qs=same)
				elif api == 'pairwise':
					good = dict(op='pairwise', sigs=0, idx=None, flat=bool(rnd % 2), out='shared', progress=None)
					after = dict(good, sigs=same)
				elif api == 'dist':
					good = dict(op='dist', a=rng.randrange(len(c['sigs'])), b=rng.randrange(len(c['sigs'])), call=CALLS[rnd % 2])
					after = dict(good, b=rng.randrange(len(c['sigs'])))
				else:
					good = dict(op='array', q=rng.randrange(len(c['sigs'])), refs=0, out='shared')
					after = dict(good, q=rng.randrange(len(c['sigs'])))
				c['steps'] = [good, dict(good, op='fail', api=api, how=how, at=at, idxtype=rng.choice(['list', 'np'])), after, dict(good)]
				c['thread'] = (0, 0, 1)[rnd % 3]
				yield 'state-failed-call-between', c
	# (3) one object against two collections of different sizes, both orders
	for api in ('matrix', 'pairwise', 'array'):
		for how in ('list', 'tuple', 'np', 'np32', 'npint-list'):
			rnd += 1
			c = _seq_case(rng, rnd, 0, idxhow=how)
			n = [len(k['members']) for k in c['colls']]
			x = 0
			y = next(t for t in (1, 2) if n[t] != n[x])
			if api == 'matrix':
				mk = lambda k: dict(op='matrix', qs=3 - x - y, refs=k, idx=0, chunksize=rng.choice([None, 2]), out='none', progress=None)
			elif api == 'pairwise':
				mk = lambda k: dict(op='pairwise', sigs=k, idx=0, flat=bool(rnd % 2), out='none', progress=None)
			else:
				mk = lambda k: dict(op='array', q=1, refs=k, out='none')
			for order in ((x, y, x), (y, x, y)):
				yield 'state-one-object-two-collections', dict(c, steps=[mk(k) for k in order])


def _seq_uniform(rng, rnd0, ndt):
	"""collections whose members ALL have the collection's declared integer type (so that every member could be held in one
	packed array of that type) and that keep their LENGTH over the script: collection type holding the caller's arrays (plain
	list / SignatureList / SignatureList wrapped in AnnotatedSignatures) x role in a bulk call x length-preserving change of the
	caller (SEQ_KEEPLEN) x ndt integer types (rotating through all six).  Script: call, change, the same call, another bulk call on
	the same collection, a second (random) change, both calls again (one into the shared out= buffer)"""
	roles = {'matrix-refs': lambda: dict(op='matrix', qs=1, refs=0, idx=None, chunksize=rng.choice([None, 1, 2]), out='none', progress=None),
	         'matrix-refs-idx': lambda: dict(op='matrix', qs=1, refs=0, idx=0, chunksize=rng.choice([None, 2]), out='none', progress=None),
	         'matrix-qs': lambda: dict(op='matrix', qs=0, refs=1, idx=None, chunksize=None, out='none', progress=None),
	         'matrix-both': lambda: dict(op='matrix', qs=0, refs=0, idx=None, chunksize=rng.choice([None, 3]), out='none', progress=None),
	         'pairwise': lambda: dict(op='pairwise', sigs=0, idx=None, flat=False, out='none', progress=None),
	         'pairwise-flat': lambda: dict(op='pairwise', sigs=0, idx=None, flat=True, out='none', progress=None),
	         'pairwise-idx': lambda: dict(op='pairwise', sigs=0, idx=0, flat=rng.random() < 0.5, out='none', progress=None),
	         'array-refs': lambda: dict(op='array', q=rng.randrange(6), refs=0, out='none')}
	others = ['plain', 'list', 'list', 'array', 'tuple', 'annotated-list']
	rnd = rnd0
	for ci, cont in enumerate(SEQ_MUTABLE):
		for ri, role in enumerate(roles):
			for hi, how in enumerate(SEQ_KEEPLEN):
				for di in range(ndt):
					rnd += 1
					d = DTYPES[(rnd0 + ci + ri + hi + di) % len(DTYPES)]
					for attempt in range(4):
						c = _seq_case(rng, rnd, 0, conts=[cont, rng.choice(others), rng.choice(others)], idxhow=rng.choice(['list', 'np', 'tuple', 'npint-list']), uniform=d)
						cur, content = list(c['colls'][0]['members']), list(range(len(c['sigs'])))
						ch = _keeplen_change(rng, how, 0, cur, content, c['sigs'], c['dts'])
						if ch:
							break
					else:
						continue
					call, call2 = roles[role](), roles[rng.choice([r for r in roles if r != role])]()
					steps = [call, ch, dict(call), call2]
					ch2 = _keeplen_change(rng, rng.choice(SEQ_KEEPLEN), 0, cur, content, c['sigs'], c['dts'])
					if ch2:
						steps += [ch2, dict(call, out='shared'), dict(call2)]
					c['steps'] = steps
					c['thread'] = (0, 0, 0, 1, 2)[rnd % 5]
					yield c


def finish(ctx):
	if _REFUSED:
		ctx.extra['out_of_domain_forms_refused'] = dict(_REFUSED)
	if _SEQ_STATS:
		ctx.extra['state_sequences'] = dict(sorted(_SEQ_STATS.items()))


KINDS = {'triple': k_triple, 'big': k_big, 'width': k_width, 'pairwise': k_pairwise,
         'form': k_form, 'bulk': k_bulk, 'addx': k_addx, 'mid': k_mid, 'cli': k_cli, 'seq': k_seq, 'store': k_store}
SHRINK = False


def generate(ctx):
	rng = ctx.rng
	ctx.rule(RULE)
	n = ctx.pick(4, 5)
	subsets = [[i for i in range(n) if m >> i & 1] for m in range(1 << n)]
	cnt = 0
	for A in subsets:
		for B in subsets:
			for C in subsets:
				cnt += 1
				da, db, dc = DTYPES[cnt % 6], DTYPES[(cnt // 6) % 6], DTYPES[(cnt // 36) % 6]
				yield 'triple', dict(a=A, b=B, c=C, da=da, db=db, dc=dc, x=n)
	ctx.count('stream:exhaustive-subset-triples', cnt)
	ctx.exhaustive = True
	ctx.extra['exhaustive_scope'] = f'all triples of subsets of a {n}-element universe, dtype triple cycling through all combinations'
	for _ in range(ctx.pick(150, 1500)):
		size = rng.choice([3, 10, 60, 500, 4000])
		univ = size * rng.choice([2, 3, 8])
		base = sorted(rng.sample(range(univ), size))
		def variant():
			keep = [x for x in base if rng.random() < rng.choice([0.5, 0.9, 0.99])]
			extra = rng.sample(range(univ, 2 * univ), rng.randint(0, max(1, size // 10)))
			return sorted(set(keep) | set(extra))
		da, db, dc = (rng.choice(DTYPES[1:3] + DTYPES[4:]) for _ in range(3))
		ctx.count('stream:random-triples')
		yield 'triple', dict(a=variant(), b=variant(), c=variant(), da=da, db=db, dc=dc, x=2 * univ + 1)
	# width independence with values beyond the narrower type's range, residues colliding mod 2^16 / 2^32
	for da, db, lim in (('u4', 'u2', 2 ** 16), ('i4', 'u2', 2 ** 16), ('u8', 'u2', 2 ** 16), ('i8', 'i2', 2 ** 15),
	                    ('u8', 'u4', 2 ** 32), ('i8', 'u4', 2 ** 32), ('u8', 'i4', 2 ** 31)):
		for _ in range(ctx.pick(6, 40)):
			small = sorted(rng.sample(range(min(lim, 5000)), rng.randint(1, 8)))
			big = sorted({lim * rng.randint(1, 3) + x for x in rng.sample(small, rng.randint(1, len(small)))} |
			             {lim + rng.randrange(lim) for _ in range(rng.randint(0, 2))})
			A = sorted(set(rng.sample(small, rng.randint(0, len(small)))) | set(big))
			B = small
			ctx.count('stream:width-collisions')
			yield 'width', dict(a=A, b=B, da=da, db=db)
	# all-pairs entry point: collections with several empty signatures and duplicates
	for cont in ('array', 'list', 'plain'):
		for dt in ('u2', 'u4', 'i8'):
			for _ in range(ctx.pick(3, 15)):
				pool = [[], [], [], sorted(rng.sample(range(50), 4)), sorted(rng.sample(range(50), 7)), [3], [3], sorted(rng.sample(range(50), 2))]
				rng.shuffle(pool)
				ctx.count('stream:pairwise-empties')
				yield 'pairwise', dict(sigs=pool[:rng.randint(2, len(pool))], dtype=dt, container=cont)
	yield 'pairwise', dict(sigs=[[], []], dtype='u2', container='array')
	yield 'pairwise', dict(sigs=[[], [1], []], dtype='u2', container='plain')
	# ---- audit streams (see the coverage table in the module docstring) -----------------------------------------------
	# storage forms x call forms x values up to the top of each integer type
	offsets = [0, 2 ** 15 - 20, 2 ** 16 - 40, 2 ** 31 - 20, 2 ** 32 - 40, 2 ** 63 - 20, 2 ** 64 - 41]
	for rnd in range(ctx.pick(260, 2500)):
		off = offsets[rnd % len(offsets)]
		span = 40
		base = sorted(rng.sample(range(span), rng.choice([1, 2, 4, 9, 20])))
		def sub():
			r = rng.random()
			if r < 0.08:
				return []
			if r < 0.2:
				return [off + x for x in base]
			keep = [x for x in base if rng.random() < 0.7] + rng.sample(range(span), rng.randint(0, 3))
			return [off + x for x in sorted(set(keep))]
		fit = [dt for dt in DTYPES if _fits(dt, off + span)]
		c = dict(a=sub(), b=sub(), c=sub(), call=CALLS[rnd % 3], salt=rnd)
		for k in 'abc':
			c['d' + k] = rng.choice(fit)
			c['f' + k] = rng.choice(FORMS)
		if rnd % 9 == 0:
			c['f' + rng.choice('abc')] = rng.choice(FOREIGN)
		if rnd % 5 == 0:
			c['b'] = list(c['a'])          # equal sets, different form / width
		ctx.count('stream:storage-forms')
		yield 'form', c
	# bulk entry points x collection types x options
	conts = ['array', 'list', 'plain', 'tuple', 'slice', 'i4bounds', 'annotated', 'annotated-list']
	for rnd in range(ctx.pick(210, 1500)):
		api = ('matrix', 'array', 'pairwise')[rnd % 3]
		wide = rnd % 4 == 0
		univ = 30
		lift = rng.choice([2 ** 16, 2 ** 32]) if wide else 0
		core = sorted(rng.sample(range(univ), 6))
		pool = [[], [], core, core, core[:3], core[3:], [core[0]]]
		for _ in range(3):
			pool.append(sorted(set(rng.sample(core, rng.randint(1, 5))) | set(rng.sample(range(univ), rng.randint(0, 4)))))
		if wide:
			# the same residues beyond the narrower type's range: must not be confused with the low ones
			pool += [sorted(set(s) | {lift + x for x in rng.sample(core, 2)}) for s in pool[-2:]]
		rng.shuffle(pool)
		sigs = pool[:rng.randint(3, 9)]
		top = max([x for s in sigs for x in s], default=0)
		fit = [dt for dt in DTYPES if _fits(dt, top)]
		cont = rng.choice(conts)
		if cont in ('plain', 'tuple', 'list', 'annotated-list'):
			dts = [rng.choice([dt for dt in DTYPES if _fits(dt, max(s, default=0))]) for s in sigs]
		else:
			dts = [rng.choice(fit)] * len(sigs)
		c = dict(sigs=sigs, dts=dts, api=api, container=cont, cdt=rng.choice([dt for dt in fit if dt[1] != '2' or top < 2 ** 15] or fit),
		         out=rng.choice(['none', 'nan', 'stale', 'strided', 'fortran']), progress=rng.random() < 0.3,
		         omp=0 if rnd % 40 == 7 else 2 if rnd % 4 == 1 else 1)
		if rng.random() < 0.6:
			m = rng.randint(1, len(sigs) + 2)
			c['idx'] = [rng.randrange(len(sigs)) for _ in range(m)]
			c['idxtype'] = rng.choice(['list', 'np', 'np32', 'npint-list'] + (['tuple'] if api != 'pairwise' else []))
		if api == 'matrix':
			c['qcontainer'] = rng.choice(['plain', 'array', 'list', 'tuple'])
			c['chunksize'] = rng.choice([None, 1, 2, 3, len(sigs), len(sigs) + 3])
			c['npchunk'] = rng.random() < 0.3
		if api == 'array':
			c['threads'] = rng.random() < 0.3
			if cont in ('annotated', 'annotated-list') and 'idx' in c and c['idxtype'] == 'npint-list':
				c['idxtype'] = 'list'
		if api == 'pairwise':
			c['flat'] = rng.random() < 0.5
			if c['out'] == 'fortran' and c['flat']:
				c['out'] = 'strided'
		ctx.count('stream:bulk-options')
		yield 'bulk', c
	# sequences whose elements have different widths, the first one the narrowest: a collection-level dtype taken from the
	# first element must not narrow the others (values beyond the narrow type, residues colliding with low values)
	for rnd in range(ctx.pick(45, 300)):
		narrow, lim = rng.choice([('u2', 2 ** 16), ('i2', 2 ** 15), ('u4', 2 ** 32), ('i4', 2 ** 31)])
		core = sorted(rng.sample(range(min(lim, 3000)), 6))
		first = sorted(rng.sample(core, rng.randint(0, 5)))
		sigs, dts = [first], [narrow]
		for _ in range(rng.randint(2, 6)):
			low = rng.sample(core, rng.randint(0, 5))
			r = rng.random()
			hi = [] if r < 0.3 else [lim * rng.randint(1, 3) + x for x in rng.sample(core, rng.randint(1, 3))]
			sig = sorted(set(low) | set(hi))
			sigs.append(sig)
			dts.append(rng.choice([dt for dt in DTYPES if _fits(dt, max(sig, default=0))][:3 if not hi else None]))
		api = ('matrix', 'pairwise', 'array')[rnd % 3]
		c = dict(sigs=sigs, dts=dts, api=api, container=rng.choice(['plain', 'tuple', 'list', 'annotated-list']), cdt=narrow,
		         qcontainer=rng.choice(['plain', 'tuple', 'list']), out=rng.choice(['none', 'stale']), progress=False, omp=1 + rnd % 2,
		         chunksize=rng.choice([None, 2]), flat=rnd % 2 == 0)
		if rnd % 4 == 0:
			c['idx'] = [rng.randrange(len(sigs)) for _ in range(rng.randint(2, len(sigs) + 1))]
			c['idxtype'] = 'list'
		ctx.count('stream:bulk-mixed-width-sequences')
		yield 'bulk', c
	# file-backed collection (HDF5Signatures) as references / as the all-pairs input
	for rnd in range(ctx.pick(6, 30)):
		core = sorted(rng.sample(range(200), 8))
		sigs = [[], core, core[:4], sorted(set(core[2:]) | set(rng.sample(range(200), 3))), [], core] + \
		       [sorted(rng.sample(range(200), rng.randint(1, 12))) for _ in range(rng.randint(0, 4))]
		rng.shuffle(sigs)
		c = dict(sigs=sigs, dts=['u4'] * len(sigs), api=('matrix', 'pairwise', 'array')[rnd % 3], container='hdf5', cdt='u4', qcontainer='plain',
		         out=rng.choice(['none', 'stale']), progress=False, chunksize=rng.choice([None, 2, 5]), flat=bool(rnd % 2), omp=2)
		if rnd % 2:
			c['idx'] = [rng.randrange(len(sigs)) for _ in range(rng.randint(2, len(sigs)))]
			c['idxtype'] = 'list'
		ctx.count('stream:bulk-file-backed')
		yield 'bulk', c
	# many references at once: the parallel loop really splits the work; all triples of the table
	for rnd in range(ctx.pick(4, 20)):
		n = rng.choice([40, 90, 150])
		univ = rng.choice([12, 40, 300])
		sigs = [sorted(rng.sample(range(univ), rng.randint(0, min(univ, 14)))) for _ in range(n)]
		for _ in range(n // 10):
			sigs[rng.randrange(n)] = list(sigs[rng.randrange(n)])
		api = ('array', 'matrix', 'pairwise', 'array')[rnd % 4]
		if api == 'pairwise':
			sigs = sigs[:40]
		c = dict(sigs=sigs, dts=[('u2', 'u4', 'i8', 'u8')[rnd % 4]] * len(sigs), api=api, container='array',
		         cdt=('u2', 'u4', 'i8', 'u8')[rnd % 4], qcontainer='plain', out=('none', 'stale')[rnd % 2], progress=False, chunksize=(None, 37)[rnd % 2],
		         threads=rnd % 4 == 3, flat=False, nq=12, omp=(0, 4, 2, 3)[rnd % 4])
		ctx.count('stream:bulk-many-references')
		yield 'bulk', c
	# storing: members of DIFFERENT integer types with values up to the top of each member's own type, through every
	# constructor / conversion path; first the product path x dtype mix (the following conversion cycles), then random
	cnt = 0
	for build in STORE_BUILDS:
		for mix in STORE_MIXES[:14]:
			cnt += 1
			ctx.count('stream:storage-paths-x-dtype-mixes')
			yield 'store', _store_case(rng, cnt, build, mix, STORE_THEN[cnt % len(STORE_THEN)])
	for rnd in range(ctx.pick(260, 2500)):
		ctx.count('stream:storage-mixed-dtype-collections')
		yield 'store', _store_case(rng, rnd, rng.choice(STORE_BUILDS), rng.choice(STORE_MIXES), rng.choice(STORE_THEN))
	# adding common k-mers at every position, chains, stored dtypes
	for rnd in range(ctx.pick(150, 1500)):
		da, db = rng.choice(DTYPES), rng.choice(DTYPES)
		bits = min(8 * int(dt[1]) - (dt[0] == 'i') for dt in (da, db))
		top = 2 ** bits - 1
		lo = rng.choice([0, 5, top - 200]) if rnd % 3 else 5
		univ = range(lo, lo + 120)
		A = set(rng.sample(univ, rng.choice([1, 3, 10, 40])))
		B = set(x for x in A if rng.random() < 0.7) | set(rng.sample(univ, rng.randint(0, 5)))
		if A == B:
			B = B ^ {lo + 60}
		cand = [x for x in list(range(max(0, lo - 5), lo + 125)) + [0, top - 1, top] if 0 <= x <= top and x not in A and x not in B]
		xs = rng.sample(sorted(set(cand)), min(len(set(cand)), rng.randint(1, 6)))
		ctx.count('stream:add-common-positions')
		yield 'addx', dict(a=sorted(A), b=sorted(B), da=da, db=db, xs=xs, omp=2 if rnd % 50 == 3 else 1)
	# exhaustive: every pair of subsets of {1..4}, every absent k-mer of {0..5} (below, between, above)
	cnt = 0
	subs = [[i + 1 for i in range(4) if m >> i & 1] for m in range(16)]
	for A in subs:
		for B in subs:
			if A != B:
				for x in range(6):
					if x not in A and x not in B:
						cnt += 1
						yield 'addx', dict(a=A, b=B, da=DTYPES[cnt % 6], db=DTYPES[(cnt // 6) % 6], xs=[x])
	ctx.count('stream:add-common-exhaustive-small', cnt)
	# size classes between 4000 and 2^24
	for rnd in range(ctx.pick(8, 40)):
		size = rng.choice(ctx.pick([20000, 70000, 300000], [20000, 70000, 300000, 1000000, 3000000]))
		if rnd == 0:
			size = ctx.pick(1000000, 6000000)
		mode = ('overlap', 'near', 'touch', 'nested')[rnd % 4]
		univ = size * rng.choice([2, 5, 1000])
		dts = [rng.choice(['u8', 'i8'] + (['u4'] if 2 * univ < 2 ** 32 else []) + (['i4'] if 2 * univ < 2 ** 31 else [])) for _ in range(3)]
		ctx.count('stream:mid-size-triples')
		yield 'mid', dict(seed=rng.randrange(2 ** 32), size=size, univ=univ, mode=mode, dts=dts)
	# command line channel
	for rnd in range(ctx.pick(6, 30)):
		core = sorted(rng.sample(range(4 ** 11), 9))
		sigs = [[], core, core[:5], core[4:], sorted(set(core[:7]) | set(rng.sample(range(4 ** 11), 4))), [], list(core)] + \
		       [sorted(rng.sample(core, rng.randint(1, 8))) for _ in range(rng.randint(0, 3))]
		rng.shuffle(sigs)
		ctx.count('stream:cli-dist')
		yield 'cli', dict(sigs=sigs[:rng.randint(3, len(sigs))], mode=('square', 'qr')[rnd % 2], cores=(1, 2, 2, 1, None, 1)[rnd % 6])
	# state and aliasing: scripts of calls over shared caller objects (and, where nothing is changed in between, the same
	# script backwards: every object meets the collections / sizes / options in both orders)
	def twin(c):
		return not any(s['op'] in SEQ_CHANGES for s in c['steps'])
	for rnd in range(ctx.pick(450, 4000)):
		c = _seq_case(rng, rnd, rng.randint(2, 6), thread=(0, 0, 0, 1, 0, 2, 0)[rnd % 7])
		ctx.count('stream:state-sequences')
		yield 'seq', c
		if twin(c):
			ctx.count('stream:state-sequences-reversed')
			yield 'seq', dict(c, steps=c['steps'][::-1])
	for rep in range(ctx.pick(2, 10)):
		for stream, c in _seq_systematic(rng, 1000 * rep):
			ctx.count('stream:' + stream)
			yield 'seq', c
	# collections of ONE integer type (members and declared type agree) that keep their length while the caller replaces,
	# reorders or overwrites members between bulk calls: the product, then random scripts with the same changes
	for c in _seq_uniform(rng, rng.randrange(6), ctx.pick(2, 6)):
		ctx.count('stream:state-uniform-dtype-length-preserving-changes')
		yield 'seq', c
	for rnd in range(ctx.pick(150, 1500)):
		c = _seq_case(rng, rnd, rng.randint(3, 7), thread=(0, 0, 0, 1, 0, 2, 0)[rnd % 7], uniform=DTYPES[rnd % 6],
		              conts=[rng.choice(['list', 'list', 'plain', 'annotated-list']), rng.choice(['list', 'plain', 'array', 'tuple', 'annotated-list']),
		                     rng.choice(['list', 'plain', 'array', 'slice', 'annotated'])])
		ctx.count('stream:state-sequences-uniform-dtype')
		yield 'seq', c
	for rnd in range(ctx.pick(24, 150)):
		c = _seq_case(rng, rnd, rng.randint(2, 5), hdf5=True)
		ctx.count('stream:state-sequences-file-backed')
		yield 'seq', c
	for rnd in range(ctx.pick(12, 60)):
		c = _seq_case(rng, rnd, rng.randint(1, 3), cli=True)
		ctx.count('stream:state-sequences-cli')
		yield 'seq', c
	yield 'big', dict(name='add_common_2p24')
	yield 'big', dict(name='one_not_disjoint_2p25')
