"""C15 -- the genomic distance behaves as a metric on signatures.

Tie: T (Gen/MetricPyx.v) + B: gambit.metric.jaccarddist on triples of sets; every axiom is evaluated
exactly (binary32 values as fractions); each distance is also compared with the generated model.

Coverage audit (item -> stream that drives it ON THE IMPLEMENTATION; "P" = property predicate judged there,
"M" = also compared with the generated model; kinds in brackets):
  clauses
    range [0,1]; 0 iff equal; 1 iff disjoint and not both empty; bitwise symmetry; triangle (slack 2^-22)
                                   -> exhaustive-subset-triples, random-triples [triple] P+M; every audit stream below P
    width independence             -> [triple] (vs u8), width-collisions [width] (values beyond the narrow type, bulk path),
                                      storage-forms, bulk-mixed-width-sequences, bulk-options(wide) P
    strict decrease, common k-mer  -> [triple] (only x above the maximum, u8, pair ab); add-common-positions and
                                      add-common-exhaustive-small [addx]: x below / between / above / top of the narrow type,
                                      chains of several k-mers, stored dtypes, both orders, bulk function P
  quantifier
    small universe, exhaustive     -> exhaustive-subset-triples (4 elements quick / 5 thorough), add-common-exhaustive-small
    large universes, random        -> random-triples (<= 4000 elements, values < 2^17); mid-size-triples [mid] 2*10^4 .. 10^6
                                      elements (6*10^6 thorough; near-equal, touching, nested, overlapping) P+M; [big] named 2^24 / 2^25 cases
    integer widths                 -> all 6 dtypes per set; values at the top of every type incl. >= 2^63 in u8: storage-forms
    empty / single / repeated sets -> exhaustive triples; pairwise-empties; bulk-options (pool with empties, duplicates, subsets)
  observe at / entry points reaching the same kernel
    gambit.metric.jaccarddist      -> all of the above; keyword arguments, the same object passed twice, and the raw extension
                                      function gambit._cython.metric.jaccarddist: storage-forms [form] P
    storage of the signature       -> storage-forms: strided, negative stride, column of a 2-D array, view inside a larger
                                      buffer, unaligned, ndarray subclass, np.memmap, element of a SignatureArray P; read-only and
                                      byte-swapped arrays are OUTSIDE the domain: judged "a value satisfying P, or an error"
                                      (no model comparison; refusals counted in coverage.out_of_domain_forms_refused)
    jaccarddist_array              -> width-collisions (1 reference); bulk-options [bulk]: SignatureArray / slice of one (offset
                                      bounds) / int32 bounds / SignatureList / list / tuple / AnnotatedSignatures, pre-indexed
                                      references, out= (fresh, stale, strided), rows computed from 4 threads P
    jaccarddist_matrix             -> bulk-options: query and reference collection types, ref_indices (repeats; list / tuple /
                                      int64 / int32 array / list of NumPy ints), chunksize (1..n+3, Python or NumPy int), out= (stale
                                      from an earlier call, strided, Fortran order), progress meter P
    jaccarddist_pairwise           -> pairwise-empties (square + flat); bulk-options: indices (repeats), flat, out=, progress P
    file-backed collection         -> bulk-file-backed (HDF5Signatures as references / all-pairs input) P
    parallel kernel                -> bulk-many-references (40..150 references, OpenMP threads 2 / 3 / 4 / default; most other bulk
                                      cases run with 1 or 2 threads because one default-width call costs ~0.2 s here) P
    caller objects reused          -> [bulk] judges jaccarddist on the same array objects after the bulk call; [form] checks the
                                      arrays still hold their values; out arrays carry stale results of an earlier call
    gambit dist (CLI)              -> cli-dist [cli]: --square and --qs/--rs, -c 1/2/default, 4-decimal cells judged with the
                                      print rounding allowed for (|AuB| <= 1000 keeps 0 and 1 exact) P
  not driven here: gambit.metric.jaccard (the index, property C02); gambit.query.query / `gambit query` (need a reference
    database: C04/C05/C09 drive jaccarddist_matrix there); unsorted or duplicated arrays, negative values, non-integer
    dtypes, Python lists as signatures (outside "signatures"; C02's dtype stream judges refusals); the Cython kernel is
    not re-compiled by mutations in this sandbox (only its Python callers can be mutated)."""
from fractions import Fraction

import numpy as np

from harness.c02 import _arr, f32_bits, round_ratio_f32, DTYPES

PROP = 'C15'
RULE = ('triples (A,B,C) of sorted duplicate-free arrays with per-set dtypes; checked: range, d=0 iff equal, d=1 iff '
        'disjoint and not both empty, bitwise symmetry, triangle inequality with slack 2^-22, width independence, strict '
        'decrease when a new common element is added; non-trivial: the three sets pairwise distinct and pairwise '
        'intersecting. Audit streams judge the same clauses on: storage-forms (strided / reversed / column / interior / '
        'unaligned / subclass / memmap / SignatureArray-element views, values up to the top of each integer type, keyword and '
        'raw-extension calls, same object twice; read-only and byte-swapped arrays: a correct value or an error); bulk-* '
        '(jaccarddist_array / _matrix / _pairwise over collection types, ref_indices / indices with repeats, chunksize, out= '
        'arrays that are stale / strided / Fortran-ordered, progress, threads, OpenMP thread counts, mixed-width sequences, '
        'file-backed collections, 40-150 references; all cells for one pair must agree and the table must satisfy every '
        'clause, then jaccarddist on the same objects again); add-common-* (absent k-mers added at any position, chains, '
        'stored dtypes, both orders, bulk function: strictly decreasing; non-trivial: sets intersect, differ, and some k-mer '
        'is not above the maximum); mid-size-triples (seeded sets of 2*10^4..10^6 elements); cli-dist (printed 4-decimal '
        'matrices of gambit dist); non-trivial for collections: at least two pairs that intersect without being equal')
TRUSTED = ['tools/pyx2v.py (Cython subset -> Gallina; C integer / binary32 semantics)',
           'Flocq binary32 model of C float division (validated bit-for-bit by the run)']
ASSUMPTIONS = ['inputs are sorted and duplicate-free', 'rounding-sensitive statements are claimed for |AuB| <= 2^24 '
               '(every k <= 12); beyond that see known findings C15-f1/f2',
               'read-only and non-native-byte-order arrays are outside the domain (the wrappers refuse them): judged by the '
               'property predicate alone when a value is returned; the Coq model covers the two-signature kernel only, the bulk '
               'entry points, storage forms and the CLI are judged by the property predicate and the integer ratio oracle']

SLACK = Fraction(1, 2 ** 22)


def setup(ctx):
	from vf import impl
	impl.check_import()


def _val(x):
	return Fraction(float(x))


def k_triple(ctx, cases):
	from gambit.metric import jaccarddist
	reqs = []
	for c in cases:
		for x, y in (('a', 'b'), ('b', 'c'), ('a', 'c')):
			X, Y = set(c[x]), set(c[y])
			reqs.append((204, [len(X ^ Y), len(X | Y)]))
	ans = ctx.model(reqs) if ctx.model_ok else None
	for n, c in enumerate(cases):
		S = {k: set(c[k]) for k in 'abc'}
		arr = {k: _arr(c[k], c['d' + k]) for k in 'abc'}
		nontriv = all(S[x] != S[y] and S[x] & S[y] for x, y in (('a', 'b'), ('b', 'c'), ('a', 'c')))
		small = sum(len(c[k]) for k in 'abc') < 40
		ctx.case(c if small else {k: len(c[k]) for k in 'abc'}, nontrivial=nontriv)
		d = {}
		bad = False
		for j, (x, y) in enumerate((('a', 'b'), ('b', 'c'), ('a', 'c'))):
			v = jaccarddist(arr[x], arr[y])
			w = jaccarddist(arr[y], arr[x])
			d[x + y] = v
			u = len(S[x] | S[y])
			s = len(S[x] ^ S[y])
			val = _val(v)
			what = None
			if f32_bits(v) != f32_bits(w):
				what = f'd({x},{y}) and d({y},{x}) differ bitwise'
			elif not (0 <= val <= 1):
				what = f'd({x},{y}) = {float(v)!r} outside [0,1]'
			elif (val == 0) != (S[x] == S[y]):
				what = f'd({x},{y}) = {float(v)!r} but sets equal is {S[x] == S[y]}'
			elif (val == 1) != (not (S[x] & S[y]) and bool(S[x] | S[y])):
				what = f'd({x},{y}) = {float(v)!r} but disjoint-and-nonempty is {not (S[x] & S[y]) and bool(S[x] | S[y])}'
			else:
				# width independence: same values in the widest type
				wide = jaccarddist(np.array(c[x], dtype='u8'), np.array(c[y], dtype='u8'))
				if f32_bits(wide) != f32_bits(v):
					what = f'd({x},{y}) changes with the integer width: {float(v)!r} vs {float(wide)!r}'
			if what:
				ctx.violation('triple', c, what, pair=x + y, impl=f32_bits(v), s=s, u=u)
				bad = True
				break
			if ans is not None and ans[3 * n + j] != f32_bits(v):
				want = round_ratio_f32(s, u) if u else 0
				if u <= 2 ** 24 and ans[3 * n + j] != want:
					ctx.violation('triple', c, f'metric.pyx as translated: (float){s}/(float){u} -> bits {ans[3 * n + j]}, correctly rounded {want}',
					              impl=f32_bits(v), model=ans[3 * n + j])
				else:
					ctx.broke('correspondence triple (ratio)', f'{x}{y} s={s} u={u}: impl {f32_bits(v)} model {ans[3 * n + j]}')
				bad = True
				break
		if bad:
			continue
		if _val(d['ac']) > _val(d['ab']) + _val(d['bc']) + SLACK:
			ctx.violation('triple', c, f'triangle inequality fails: d(a,c)={float(d["ac"])!r} > d(a,b)+d(b,c)+2^-22 = '
			              f'{float(d["ab"])!r}+{float(d["bc"])!r}', impl=[f32_bits(d[k]) for k in ('ab', 'bc', 'ac')])
			continue
		# adding a k-mer absent from both strictly decreases the distance (A != B)
		if 'x' in c and S['a'] != S['b'] and c['x'] not in S['a'] and c['x'] not in S['b']:
			a2 = np.array(sorted(S['a'] | {c['x']}), dtype='u8')
			b2 = np.array(sorted(S['b'] | {c['x']}), dtype='u8')
			v2 = jaccarddist(a2, b2)
			if not _val(v2) < _val(d['ab']):
				ctx.violation('triple', c, f'adding common k-mer {c["x"]} does not decrease the distance: {float(d["ab"])!r} -> {float(v2)!r}',
				              before=f32_bits(d['ab']), after=f32_bits(v2))


def k_big(ctx, cases):
	"""named inputs beyond the 2^24 bound (DESIGN.md section 6-f)"""
	from gambit.metric import jaccarddist
	for c in cases:
		ctx.case(c, nontrivial=True)
		if c['name'] == 'add_common_2p24':
			a = np.arange(0, 2 ** 24, dtype='u4')
			b = np.arange(0, 2 ** 24 - 1, dtype='u4')
			d1 = jaccarddist(a, b)
			a2 = np.arange(0, 2 ** 24 + 1, dtype='u4')
			b2 = np.concatenate([b, np.array([2 ** 24], dtype='u4')])
			d2 = jaccarddist(a2, b2)
			if not float(d2) < float(d1):
				ctx.violation('big', c, f'A={{0..2^24-1}}, B={{0..2^24-2}}: adding 2^24 to both leaves the distance at {float(d2)!r} '
				              f'(was {float(d1)!r}), not strictly smaller', before=f32_bits(d1), after=f32_bits(d2))
		elif c['name'] == 'one_not_disjoint_2p25':
			a = np.arange(0, 2 ** 25, dtype='u4')
			b = np.arange(2 ** 25 - 1, 2 ** 26 - 1, dtype='u4')
			d = jaccarddist(a, b)
			if float(d) == 1.0:
				ctx.violation('big', c, 'A={0..2^25-1}, B={2^25-1..2^26-2} share one element but the distance is exactly 1.0',
				              impl=f32_bits(d))


def k_width(ctx, cases):
	"""the distance does not depend on the integer width either signature is stored in -- through the
	two-signature function and through the bulk functions (a query wider than the references must not be
	narrowed)"""
	from gambit.metric import jaccarddist, jaccarddist_array, jaccarddist_matrix
	from gambit.sigs.base import SignatureArray, SignatureList
	for c in cases:
		A, B = c['a'], c['b']
		s, u = len(set(A) ^ set(B)), len(set(A) | set(B))
		want = round_ratio_f32(s, u) if u else 0
		ctx.case(c, nontrivial=bool(set(A) & set(B)) and set(A) != set(B))
		a, b = _arr(A, c['da']), _arr(B, c['db'])
		obs = {}
		obs['jaccarddist'] = f32_bits(jaccarddist(a, b))
		obs['jaccarddist swapped'] = f32_bits(jaccarddist(b, a))
		obs['jaccarddist u8,u8'] = f32_bits(jaccarddist(np.array(A, dtype='u8'), np.array(B, dtype='u8')))
		obs['jaccarddist_array(query, SignatureArray)'] = f32_bits(jaccarddist_array(a, SignatureArray([b]))[0])
		obs['jaccarddist_array(query, SignatureList)'] = f32_bits(jaccarddist_array(a, SignatureList([b]))[0])
		obs['jaccarddist_array(query, list)'] = f32_bits(jaccarddist_array(a, [b])[0])
		obs['jaccarddist_matrix'] = f32_bits(jaccarddist_matrix([a], SignatureArray([b]))[0, 0])
		obs['jaccarddist_array(ref as query, SignatureArray)'] = f32_bits(jaccarddist_array(b, SignatureArray([a]))[0])
		for name, bits in obs.items():
			if bits != want:
				ctx.violation('width', c, f'{name} with widths ({c["da"]},{c["db"]}) has bits {bits}; the distance of the two sets '
				              f'({s}/{u}) has bits {want}: the value depends on the integer width / the API used', impl=obs, spec=want)
				break


def k_pairwise(ctx, cases):
	"""the metric axioms through the all-pairs entry point (collections with several empty / equal signatures)"""
	from gambit.metric import jaccarddist, jaccarddist_pairwise
	from gambit.sigs.base import SignatureArray, SignatureList
	for c in cases:
		sigs = [np.array(s, dtype=c['dtype']) for s in c['sigs']]
		n = len(sigs)
		ctx.case(c, nontrivial=sum(1 for s in c['sigs'] if not s) >= 2 or len({tuple(s) for s in c['sigs']}) < n)
		cont = {'array': SignatureArray(sigs, dtype=c['dtype']), 'list': SignatureList(sigs, dtype=c['dtype']), 'plain': list(sigs)}[c['container']]
		sq = jaccarddist_pairwise(cont)
		fl = jaccarddist_pairwise(cont, flat=True)
		k = 0
		bad = None
		for i in range(n):
			for j in range(n):
				A, B = set(c['sigs'][i]), set(c['sigs'][j])
				v = sq[i, j]
				want = f32_bits(jaccarddist(sigs[i], sigs[j])) if i != j else 0
				if f32_bits(v) != want:
					bad = f'pairwise[{i},{j}] = {float(v)!r} but jaccarddist gives bits {want}'
				elif (float(v) == 0) != (A == B):
					bad = f'pairwise[{i},{j}] = {float(v)!r} but sets equal is {A == B}'
				elif (float(v) == 1) != (not (A & B) and bool(A | B)):
					bad = f'pairwise[{i},{j}] = {float(v)!r} but disjoint-and-not-both-empty is {not (A & B) and bool(A | B)}'
				elif f32_bits(sq[j, i]) != f32_bits(v):
					bad = f'pairwise matrix not symmetric at ({i},{j})'
				if j > i:
					if bad is None and f32_bits(fl[k]) != f32_bits(v):
						bad = f'condensed form differs from the square form for pair ({i},{j})'
					k += 1
				if bad:
					break
			if bad:
				break
		if bad:
			ctx.violation('pairwise', c, bad + f' (signatures {c["sigs"][i]} and {c["sigs"][j]}, container {c["container"]})')


# ------------------------------------------------------------------------------------------------
# audit streams: every clause judged on whatever the implementation returns, for other storage
# forms, call forms, entry points, options, sizes and channels than the triple stream drives
# ------------------------------------------------------------------------------------------------

FORMS = ['plain', 'strided', 'reversed', 'column', 'interior', 'unaligned', 'subclass', 'memmap', 'sigitem']
FOREIGN = ['readonly', 'swapped']      # outside the documented domain: judged "a value that satisfies the property, or an error"
CALLS = ['positional', 'keyword', 'raw']
_SCRATCH = []
_REFUSED = {}


def _scratch():
	if not _SCRATCH:
		from vf import impl
		_SCRATCH.append(impl.scratch_dir('gambit-verif-c15-'))
	return _SCRATCH[0]


class _Sub(np.ndarray):
	"""a caller's ndarray subclass"""


def _fits(dt, top):
	"""can dtype dt hold the non-negative value top as a value (signed types: without using the sign bit)"""
	bits = 8 * int(dt[1]) - (1 if dt[0] == 'i' else 0)
	return top < 2 ** bits


def _form(vals, dt, form, salt=0):
	"""the sorted values vals as a 1-D array of dtype dt in the given storage form"""
	import os
	base = _arr(vals, dt)
	n = len(vals)
	junk = np.array([0, -1], dtype='i8').astype(base.dtype)   # 0 and the all-ones pattern
	if form == 'plain':
		return base
	if form == 'strided':
		step = 2 + salt % 2
		off = salt % 2
		buf = np.resize(junk, n * step + 2)
		v = buf[off:off + n * step:step]
		v[:] = base
		return v
	if form == 'reversed':
		return np.ascontiguousarray(base[::-1])[::-1]
	if form == 'column':
		m = np.resize(junk, (n, 3))
		m = np.ascontiguousarray(m)
		m[:, 1] = base
		return m[:, 1]
	if form == 'interior':
		buf = np.concatenate([junk[:1], junk[:1], base, junk[1:], junk[1:]])
		return buf[2:2 + n]
	if form == 'unaligned':
		w = base.dtype.itemsize
		raw = bytearray(1 + w * n + w)
		v = np.frombuffer(raw, dtype=base.dtype, count=n, offset=1)
		v[:] = base
		return v
	if form == 'subclass':
		return base.view(_Sub)
	if form == 'memmap':
		if n == 0:
			return base
		path = os.path.join(_scratch(), f'mm{salt % 50}')
		v = np.memmap(path, dtype=base.dtype, mode='w+', shape=(n,))
		v[:] = base
		return v
	if form == 'sigitem':
		from gambit.sigs.base import SignatureArray
		return SignatureArray([junk, base, junk[::-1].copy()], dtype=base.dtype)[1]
	if form == 'readonly':
		v = base.copy()
		v.setflags(write=False)
		return v
	if form == 'swapped':
		return base.astype(base.dtype.newbyteorder())
	raise ValueError(form)


class _omp:
	"""run a block with the OpenMP thread count of the parallel kernel set to n (0: leave the default), as `gambit dist -c n`
	does through gambit._cython.threads.omp_set_num_threads; restored afterwards"""

	def __init__(self, n):
		self.n = n

	def __enter__(self):
		import gambit._cython.threads as th
		self.th, self.old = th, th.omp_get_max_threads()
		if self.n:
			th.omp_set_num_threads(self.n)

	def __exit__(self, *exc):
		self.th.omp_set_num_threads(self.old)


def _dist_call(call, x, y):
	from gambit.metric import jaccarddist
	if call == 'keyword':
		return jaccarddist(coords1=x, coords2=y)
	if call == 'raw':
		import gambit._cython.metric as cm
		return cm.jaccarddist(x.view('u%d' % x.dtype.itemsize), y.view('u%d' % y.dtype.itemsize))
	return jaccarddist(x, y)


def _want(s, u):
	return round_ratio_f32(s, u) if u else 0


def _judge(ctx, kind, c, D, SU, via):
	"""every clause of the property on the table D of implementation values (None = no value) for signatures whose
	pairwise (|A^B|, |AuB|) are SU; True if a violation was reported"""
	n = len(D)
	for i in range(n):
		for j in range(n):
			v = D[i][j]
			if v is None:
				continue
			s, u = SU[i][j]
			f = float(v)
			what = None
			if f != f or not (0 <= f <= 1):
				what = f'd({i},{j}) = {f!r} outside [0,1]'
			elif (f == 0) != (s == 0):
				what = f'd({i},{j}) = {f!r} but sets equal is {s == 0}'
			elif (f == 1) != (u > 0 and s == u):
				what = f'd({i},{j}) = {f!r} but disjoint-and-not-both-empty is {u > 0 and s == u}'
			elif D[j][i] is not None and f32_bits(D[j][i]) != f32_bits(v):
				what = f'd({i},{j}) = {f!r} and d({j},{i}) = {float(D[j][i])!r} differ bitwise'
			elif u <= 2 ** 24 and f32_bits(v) != _want(s, u):
				what = (f'd({i},{j}) = {f!r} (bits {f32_bits(v)}) but the two sets ({s}/{u}) stored as plain 64-bit arrays have '
				        f'distance bits {_want(s, u)}: the value depends on the storage / width / entry point')
			if what:
				ctx.violation(kind, c, f'{via}: {what}', pair=[i, j], s=s, u=u, impl=f32_bits(v) if f == f else 'nan')
				return True
	if n <= 8:
		for i in range(n):
			for j in range(n):
				for k in range(n):
					if D[i][j] is None or D[j][k] is None or D[i][k] is None:
						continue
					if _val(D[i][k]) > _val(D[i][j]) + _val(D[j][k]) + SLACK:
						ctx.violation(kind, c, f'{via}: triangle inequality fails: d({i},{k})={float(D[i][k])!r} > d({i},{j})+d({j},{k})+2^-22 = '
						              f'{float(D[i][j])!r}+{float(D[j][k])!r}', triple=[i, j, k])
						return True
	else:
		# binary32 values >= 2^-24 in [0,1]: binary64 sums of two of them plus 2^-22 are exact
		M = np.array([[np.nan if x is None else float(x) for x in row] for row in D], dtype='f8')
		bad = M[:, None, :] > M[:, :, None] + M[None, :, :] + float(SLACK)
		if bad.any():
			i, j, k = (int(t) for t in np.argwhere(bad)[0])
			ctx.violation(kind, c, f'{via}: triangle inequality fails: d({i},{k})={M[i, k]!r} > d({i},{j})+d({j},{k})+2^-22 = {M[i, j]!r}+{M[j, k]!r}',
			              triple=[i, j, k])
			return True
	return False


def _su_table(sigs):
	sets = [set(s) for s in sigs]
	return [[(len(A ^ B), len(A | B)) for B in sets] for A in sets]


def k_form(ctx, cases):
	"""gambit.metric.jaccarddist on signatures held in other storage forms (strided / reversed / column views, views
	inside a larger buffer, unaligned, ndarray subclass, memory-mapped, element of a SignatureArray), with values up to
	the top of each integer type, the same object passed twice, keyword and raw-extension call forms; read-only and
	byte-swapped arrays are outside the documented domain and judged "a correct value or an error" """
	for c in cases:
		names = 'abc'
		SU = _su_table([c[k] for k in names])
		forms = [c['f' + k] for k in names]
		arrs = [_form(c[k], c['d' + k], c['f' + k], salt=c.get('salt', 0) + t) for t, k in enumerate(names)]
		ctx.case(c, nontrivial=all(0 < SU[i][j][0] < SU[i][j][1] for i, j in ((0, 1), (1, 2), (0, 2))))
		D = [[None] * 3 for _ in range(3)]
		bad = False
		for i in range(3):
			for j in range(3):
				foreign = forms[i] in FOREIGN or forms[j] in FOREIGN
				try:
					D[i][j] = _dist_call('positional' if foreign else c['call'], arrs[i], arrs[j])
				except Exception as e:
					if foreign:
						key = f'{"+".join(sorted({f for f in (forms[i], forms[j]) if f in FOREIGN}))}: {type(e).__name__}'
						_REFUSED[key] = _REFUSED.get(key, 0) + 1
						continue
					ctx.violation('form', c, f'jaccarddist ({c["call"]}) raised {type(e).__name__}: {e} for two valid signatures in forms '
					              f'{forms[i]}/{forms[j]} (dtypes {c["d" + names[i]]}/{c["d" + names[j]]}): no distance', pair=[i, j])
					bad = True
					break
			if bad:
				break
		if bad:
			continue
		if _judge(ctx, 'form', c, D, SU, f'jaccarddist[{c["call"]}] forms {forms}'):
			continue
		for t, k in enumerate(names):
			if [int(x) for x in arrs[t]] != list(c[k]):
				ctx.violation('form', c, f'signature {k} ({forms[t]}) was modified by the calls: now {[int(x) for x in arrs[t]][:20]}', which=k)
				break
		del arrs


def _container(arrs, cont, cdt):
	"""the signatures arrs as the collection type cont (cdt: dtype of single-array containers)"""
	import os
	from gambit.sigs.base import SignatureArray, SignatureList, AnnotatedSignatures
	if cont == 'plain':
		return list(arrs)
	if cont == 'tuple':
		return tuple(arrs)
	if cont == 'list':
		return SignatureList(arrs, dtype=np.dtype(cdt))
	if cont == 'array':
		return SignatureArray(arrs, dtype=np.dtype(cdt))
	if cont == 'slice':
		pad = np.array([0, 1, 2], dtype=cdt)
		return SignatureArray([pad, pad[:1]] + list(arrs) + [pad], dtype=np.dtype(cdt))[2:2 + len(arrs)]
	if cont == 'i4bounds':
		sa = SignatureArray(arrs, dtype=np.dtype(cdt))
		return SignatureArray.from_arrays(sa.values, sa.bounds.astype('i4'), None)
	if cont == 'annotated':
		return AnnotatedSignatures(SignatureArray(arrs, dtype=np.dtype(cdt)))
	if cont == 'annotated-list':
		return AnnotatedSignatures(SignatureList(arrs, dtype=np.dtype(cdt)))
	if cont == 'hdf5':
		from gambit.kmers import KmerSpec
		from gambit.sigs import SignaturesMeta, dump_signatures, load_signatures
		ks = KmerSpec(11, 'ATGAC')
		path = os.path.join(_scratch(), 'bulk.gs')
		if os.path.exists(path):
			os.remove(path)
		ids = np.array([f'g{i}' for i in range(len(arrs))], dtype=object)
		dump_signatures(path, AnnotatedSignatures(SignatureList([a.astype(ks.index_dtype) for a in arrs], ks, dtype=ks.index_dtype), ids,
		                                          SignaturesMeta(id_attr='key')), 'hdf5')
		return load_signatures(path)
	raise ValueError(cont)


def _out(shape, how):
	if how == 'none':
		return None
	if how == 'nan':
		return np.full(shape, np.nan, dtype='f4')
	if how == 'stale':
		return np.full(shape, 0.25, dtype='f4')
	if how == 'fortran':
		return np.full(shape, np.nan, dtype='f4', order='F')
	if how == 'strided':
		big = np.full(tuple(2 * k + 3 for k in shape), np.nan, dtype='f4')
		return big[tuple(slice(1, 1 + 2 * k, 2) for k in shape)]
	raise ValueError(how)


def _idx(idx, how):
	if idx is None:
		return None
	return {'list': lambda: list(idx), 'tuple': lambda: tuple(idx), 'np': lambda: np.array(idx, dtype='i8'),
	        'np32': lambda: np.array(idx, dtype='i4'), 'npint-list': lambda: [np.int64(i) for i in idx]}[how]()


def k_bulk(ctx, cases):
	"""every clause through the bulk entry points (jaccarddist_array / jaccarddist_matrix / jaccarddist_pairwise) with their
	options: collection types, ref_indices / indices (repeats, NumPy or Python integers), chunksize, caller-supplied out
	arrays (stale contents, strided, Fortran order), progress meter, calls from several threads; then the two-signature
	function again on the same array objects (inputs must be left as they were)"""
	from gambit.metric import jaccarddist, jaccarddist_array, jaccarddist_matrix, jaccarddist_pairwise
	from gambit.util.progress import TestProgressMeter
	for c in cases:
		sigs = c['sigs']
		n = len(sigs)
		SU = _su_table(sigs)
		arrs = [_arr(s, dt) for s, dt in zip(sigs, c['dts'])]
		small = sum(map(len, sigs)) < 60
		ctx.case(c if small else dict(c, sigs=[len(s) for s in sigs]),
		         nontrivial=sum(1 for i in range(n) for j in range(i) if 0 < SU[i][j][0] < SU[i][j][1]) >= 2)
		idx = c.get('idx')
		sel = list(range(n)) if idx is None else idx
		prog = TestProgressMeter if c.get('progress') else None
		via = f'{c["api"]} on {c["container"]}'
		entries = []
		qn = c.get('nq', n)      # matrix / array: only the first nq signatures are used as queries
		try:
			cont = _container(arrs, c['container'], c['cdt'])
			omp = _omp(c.get('omp', 1))
			omp.__enter__()
			if c['api'] == 'matrix':
				qs = _container(arrs[:qn], c['qcontainer'], c['cdt'])
				kw = {}
				if idx is not None:
					kw['ref_indices'] = _idx(idx, c['idxtype'])
				if c.get('chunksize') is not None:
					kw['chunksize'] = np.int64(c['chunksize']) if c.get('npchunk') else c['chunksize']
				out = _out((qn, len(sel)), c['out'])
				if c['out'] == 'stale':
					jaccarddist_matrix(qs[::-1] if isinstance(qs, (list, tuple)) else qs, cont, out=out, **kw)
				M = jaccarddist_matrix(qs, cont, out=out, progress=prog, **kw)
				entries = [(i, sel[t], M[i, t]) for i in range(qn) for t in range(len(sel))]
			elif c['api'] == 'array':
				refs = cont if idx is None else cont[_idx(idx, c['idxtype'])] if not isinstance(cont, (list, tuple)) else [cont[i] for i in idx]
				outs = [_out((len(sel),), c['out']) for _ in range(qn)]
				def row(i):
					return jaccarddist_array(arrs[i], refs, out=outs[i]) if outs[i] is not None else jaccarddist_array(arrs[i], refs)
				if c.get('threads'):
					from concurrent.futures import ThreadPoolExecutor
					with ThreadPoolExecutor(4) as ex:
						rows = list(ex.map(row, range(qn)))
				else:
					rows = [row(i) for i in range(qn)]
				entries = [(i, sel[t], rows[i][t]) for i in range(qn) for t in range(len(sel))]
			elif c['api'] == 'pairwise':
				m = len(sel)
				flat = bool(c.get('flat'))
				out = _out((m * (m - 1) // 2,) if flat else (m, m), c['out'])
				kw = {} if idx is None else {'indices': _idx(idx, c['idxtype'])}
				if c['out'] == 'stale':
					jaccarddist_pairwise(cont, out=out, flat=flat, **({} if idx is None else {'indices': _idx(idx[::-1], c['idxtype'])}))
				P = jaccarddist_pairwise(cont, flat=flat, out=out, progress=prog, **kw)
				if flat:
					k = 0
					for s in range(m):
						for t in range(s + 1, m):
							entries.append((sel[s], sel[t], P[k]))
							k += 1
					if k != len(P):
						ctx.violation('bulk', c, f'{via}: condensed output has {len(P)} cells for {m} signatures')
						continue
				else:
					entries = [(sel[s], sel[t], P[s, t]) for s in range(m) for t in range(m)]
			else:
				raise ValueError(c['api'])
		except Exception as e:
			ctx.violation('bulk', c, f'{via} raised {type(e).__name__}: {e} for valid signatures and documented options: no distances')
			continue
		finally:
			omp.__exit__()
		# all cells standing for the same ordered pair agree; then the clauses on the table
		D = [[None] * n for _ in range(n)]
		bad = False
		for i, j, v in entries:
			if D[i][j] is not None and f32_bits(D[i][j]) != f32_bits(v) and not (v != v and D[i][j] != D[i][j]):
				ctx.violation('bulk', c, f'{via}: two cells for the pair ({i},{j}) differ: {float(D[i][j])!r} and {float(v)!r}', pair=[i, j])
				bad = True
				break
			D[i][j] = v
		if bad or _judge(ctx, 'bulk', c, D, SU, via):
			continue
		# the same caller objects afterwards
		if n <= 12:
			D2 = [[jaccarddist(arrs[i], arrs[j]) for j in range(n)] for i in range(n)]
			_judge(ctx, 'bulk', c, D2, SU, f'jaccarddist on the same array objects after {via}')


def k_addx(ctx, cases):
	"""strict decrease when k-mers absent from both sets are added to both, one after the other, at any position (below
	the minimum, between elements, above the maximum, at the top of the narrower integer type), in the stored dtypes,
	both argument orders and through the bulk function"""
	from gambit.metric import jaccarddist, jaccarddist_array
	from gambit.sigs.base import SignatureArray
	for c in cases:
		A, B = set(c['a']), set(c['b'])
		ctx.case(c, nontrivial=bool(A & B) and A != B and any(x < max(A | B) for x in c['xs']))
		if A == B:
			continue
		prev = None
		for step, x in enumerate([None] + list(c['xs'])):
			if x is not None:
				if x in A or x in B:
					continue
				A, B = A | {x}, B | {x}
			a, b = _arr(sorted(A), c['da']), _arr(sorted(B), c['db'])
			with _omp(c.get('omp', 1)):
				cur = {'jaccarddist(a,b)': jaccarddist(a, b), 'jaccarddist(b,a)': jaccarddist(b, a),
				       'jaccarddist_array(a,SignatureArray[b])': jaccarddist_array(a, SignatureArray([b]))[0],
				       'jaccarddist_array(b,[a])': jaccarddist_array(b, [a])[0]}
			if prev is not None:
				worse = [k for k in cur if not _val(cur[k]) < _val(prev[k])]
				if worse:
					k = worse[0]
					ctx.violation('addx', c, f'{k}: adding common k-mer {x} (step {step}, sets now {len(A)}/{len(B)} elements, dtypes {c["da"]}/{c["db"]}) '
					              f'does not decrease the distance: {float(prev[k])!r} -> {float(cur[k])!r}', before=f32_bits(prev[k]), after=f32_bits(cur[k]), x=x)
					break
			prev = cur


def _mid_sets(c):
	"""three sorted duplicate-free uint64 arrays determined by the case (seeded NumPy generator)"""
	g = np.random.Generator(np.random.PCG64(c['seed']))
	size, univ = c['size'], c['univ']
	base = np.unique(g.integers(0, univ, size=size, dtype=np.uint64))
	mode = c['mode']
	if mode == 'overlap':
		def var(p):
			keep = base[g.random(base.size) < p]
			extra = g.integers(univ, 2 * univ, size=max(1, size // 20), dtype=np.uint64)
			return np.unique(np.concatenate([keep, extra]))
		return [var(0.9), var(0.99), var(0.5)]
	if mode == 'near':
		i, j = sorted(int(t) for t in g.choice(base.size, 2, replace=False))
		return [base, np.delete(base, i), np.delete(base, [i, j])]
	if mode == 'touch':
		top = base[-1]
		hi = np.unique(g.integers(int(top), int(top) + univ, size=size, dtype=np.uint64))
		hi = np.unique(np.concatenate([[top], hi]))
		return [base, hi, np.array([base[0], hi[-1]], dtype=np.uint64)]
	if mode == 'nested':
		mid = base[g.random(base.size) < 0.999]
		return [mid[g.random(mid.size) < 0.5], mid, base]
	raise ValueError(mode)


def k_mid(ctx, cases):
	"""size classes between the random triples (<= 4000 elements) and the named 2^24 cases: 10^4 .. 10^6 elements, sets
	given by a seed; every clause on the triple, both orders, plus the generated model on (|A^B|, |AuB|)"""
	from gambit.metric import jaccarddist
	for c in cases:
		U = _mid_sets(c)
		n = len(U)
		# every generated value is below 2*univ; a dtype that cannot hold a set as values is replaced by u8 (never truncate)
		dts = [dt if (u.size == 0 or _fits(dt, int(u[-1]))) else 'u8' for u, dt in zip(U, c['dts'])]
		arrs = [u.astype('u' + dt[1]).view(dt) for u, dt in zip(U, dts)]
		SU = [[None] * n for _ in range(n)]
		for i in range(n):
			for j in range(n):
				inter = int(np.intersect1d(U[i], U[j], assume_unique=True).size)
				union = int(U[i].size + U[j].size - inter)
				SU[i][j] = (union - inter, union)
		ctx.case(c, nontrivial=all(0 < SU[i][j][0] < SU[i][j][1] for i in range(n) for j in range(i)))
		D = [[jaccarddist(arrs[i], arrs[j]) for j in range(n)] for i in range(n)]
		if _judge(ctx, 'mid', c, D, SU, f'jaccarddist on sets of {[int(u.size) for u in U]} elements'):
			continue
		if ctx.model_ok:
			pairs = [(i, j) for i in range(n) for j in range(n) if i != j]
			ans = ctx.model([(204, list(SU[i][j])) for i, j in pairs])
			for (i, j), m in zip(pairs, ans):
				if m != f32_bits(D[i][j]):
					ctx.broke('correspondence mid (ratio)', f'{c} pair {i},{j} s,u={SU[i][j]}: impl {f32_bits(D[i][j])} model {m}')
					break


def k_cli(ctx, cases):
	"""the same distances through the command line (gambit dist --square / --qs --rs, printed with 4 decimals): with
	|AuB| <= 1000 the rounding to 4 decimals keeps 0 and 1 exact, so every clause is judged on the printed numbers
	(triangle slack widened by the print rounding, 1.5e-4)"""
	import csv
	import os
	from click.testing import CliRunner
	import gambit.cli
	from gambit.kmers import KmerSpec
	from gambit.sigs import SignatureList, AnnotatedSignatures, SignaturesMeta, dump_signatures
	ks = KmerSpec(11, 'ATGAC')
	d = _scratch()
	for c in cases:
		sigs = c['sigs']
		n = len(sigs)
		SU = _su_table(sigs)
		ctx.case(c, nontrivial=sum(1 for i in range(n) for j in range(i) if 0 < SU[i][j][0] < SU[i][j][1]) >= 2)
		paths = {}
		for name in ('q', 'r'):
			paths[name] = os.path.join(d, f'cli-{name}.gs')
			if os.path.exists(paths[name]):
				os.remove(paths[name])
			arrs = [np.array(s, dtype=ks.index_dtype) for s in sigs]
			ids = np.array([f'{name}{i}' for i in range(n)], dtype=object)
			dump_signatures(paths[name], AnnotatedSignatures(SignatureList(arrs, ks, dtype=ks.index_dtype), ids, SignaturesMeta(id_attr='key')), 'hdf5')
		out = os.path.join(d, 'cli-out.csv')
		if os.path.exists(out):
			os.remove(out)
		args = ['dist', '--qs', paths['q'], '-o', out] + (['--square'] if c['mode'] == 'square' else ['--rs', paths['r']])
		if c.get('cores'):
			args += ['-c', str(c['cores'])]
		with _omp(0):        # `-c` sets the process-wide thread count; put it back afterwards
			res = CliRunner().invoke(gambit.cli.cli, args)
		try:
			if res.exit_code != 0 or res.exception is not None:
				raise RuntimeError(f'exit {res.exit_code}: {res.exception!r} {(res.output or "")[-300:]}')
			with open(out, newline='') as f:
				rows = list(csv.reader(f))
			M = [[float(x) for x in r[1:]] for r in rows[1:]]
			if len(M) != n or any(len(r) != n for r in M):
				raise RuntimeError(f'{len(M)} rows for {n} signatures')
		except Exception as e:
			ctx.violation('cli', c, f'gambit {" ".join(args[:1] + args[-2:])}: no distance matrix for valid signatures: {type(e).__name__}: {e}')
			continue
		what = None
		for i in range(n):
			for j in range(n):
				s, u = SU[i][j]
				v = M[i][j]
				if not (0 <= v <= 1):
					what = f'cell ({i},{j}) = {v!r} outside [0,1]'
				elif (v == 0) != (s == 0):
					what = f'cell ({i},{j}) = {v!r} but sets equal is {s == 0}'
				elif (v == 1) != (u > 0 and s == u):
					what = f'cell ({i},{j}) = {v!r} but disjoint-and-not-both-empty is {u > 0 and s == u}'
				elif M[j][i] != v:
					what = f'cells ({i},{j}) = {v!r} and ({j},{i}) = {M[j][i]!r} differ'
				elif u and abs(Fraction(v) - Fraction(s, u)) > Fraction(1, 2 ** 24) + Fraction(51, 10 ** 6):
					what = f'cell ({i},{j}) = {v!r} is not the distance {s}/{u} of the two sets printed with 4 decimals'
				if what:
					break
			if what:
				break
		if not what:
			for i in range(n):
				for j in range(n):
					for k in range(n):
						if Fraction(M[i][k]) > Fraction(M[i][j]) + Fraction(M[j][k]) + SLACK + Fraction(15, 10 ** 5):
							what = what or f'triangle inequality fails on the printed cells ({i},{k}) > ({i},{j}) + ({j},{k}): {M[i][k]} > {M[i][j]} + {M[j][k]}'
		if what:
			ctx.violation('cli', c, f'gambit dist {c["mode"]}: {what} (signatures {sigs})')


def finish(ctx):
	if _REFUSED:
		ctx.extra['out_of_domain_forms_refused'] = dict(_REFUSED)


KINDS = {'triple': k_triple, 'big': k_big, 'width': k_width, 'pairwise': k_pairwise,
         'form': k_form, 'bulk': k_bulk, 'addx': k_addx, 'mid': k_mid, 'cli': k_cli}
SHRINK = False


def generate(ctx):
	rng = ctx.rng
	ctx.rule(RULE)
	n = ctx.pick(4, 5)
	subsets = [[i for i in range(n) if m >> i & 1] for m in range(1 << n)]
	cnt = 0
	for A in subsets:
		for B in subsets:
			for C in subsets:
				cnt += 1
				da, db, dc = DTYPES[cnt % 6], DTYPES[(cnt // 6) % 6], DTYPES[(cnt // 36) % 6]
				yield 'triple', dict(a=A, b=B, c=C, da=da, db=db, dc=dc, x=n)
	ctx.count('stream:exhaustive-subset-triples', cnt)
	ctx.exhaustive = True
	ctx.extra['exhaustive_scope'] = f'all triples of subsets of a {n}-element universe, dtype triple cycling through all combinations'
	for _ in range(ctx.pick(150, 1500)):
		size = rng.choice([3, 10, 60, 500, 4000])
		univ = size * rng.choice([2, 3, 8])
		base = sorted(rng.sample(range(univ), size))
		def variant():
			keep = [x for x in base if rng.random() < rng.choice([0.5, 0.9, 0.99])]
			extra = rng.sample(range(univ, 2 * univ), rng.randint(0, max(1, size // 10)))
			return sorted(set(keep) | set(extra))
		da, db, dc = (rng.choice(DTYPES[1:3] + DTYPES[4:]) for _ in range(3))
		ctx.count('stream:random-triples')
		yield 'triple', dict(a=variant(), b=variant(), c=variant(), da=da, db=db, dc=dc, x=2 * univ + 1)
	# width independence with values beyond the narrower type's range, residues colliding mod 2^16 / 2^32
	for da, db, lim in (('u4', 'u2', 2 ** 16), ('i4', 'u2', 2 ** 16), ('u8', 'u2', 2 ** 16), ('i8', 'i2', 2 ** 15),
	                    ('u8', 'u4', 2 ** 32), ('i8', 'u4', 2 ** 32), ('u8', 'i4', 2 ** 31)):
		for _ in range(ctx.pick(6, 40)):
			small = sorted(rng.sample(range(min(lim, 5000)), rng.randint(1, 8)))
			big = sorted({lim * rng.randint(1, 3) + x for x in rng.sample(small, rng.randint(1, len(small)))} |
			             {lim + rng.randrange(lim) for _ in range(rng.randint(0, 2))})
			A = sorted(set(rng.sample(small, rng.randint(0, len(small)))) | set(big))
			B = small
			ctx.count('stream:width-collisions')
			yield 'width', dict(a=A, b=B, da=da, db=db)
	# all-pairs entry point: collections with several empty signatures and duplicates
	for cont in ('array', 'list', 'plain'):
		for dt in ('u2', 'u4', 'i8'):
			for _ in range(ctx.pick(3, 15)):
				pool = [[], [], [], sorted(rng.sample(range(50), 4)), sorted(rng.sample(range(50), 7)), [3], [3], sorted(rng.sample(range(50), 2))]
				rng.shuffle(pool)
				ctx.count('stream:pairwise-empties')
				yield 'pairwise', dict(sigs=pool[:rng.randint(2, len(pool))], dtype=dt, container=cont)
	yield 'pairwise', dict(sigs=[[], []], dtype='u2', container='array')
	yield 'pairwise', dict(sigs=[[], [1], []], dtype='u2', container='plain')
	# ---- audit streams (see the coverage table in the module docstring) -----------------------------------------------
	# storage forms x call forms x values up to the top of each integer type
	offsets = [0, 2 ** 15 - 20, 2 ** 16 - 40, 2 ** 31 - 20, 2 ** 32 - 40, 2 ** 63 - 20, 2 ** 64 - 41]
	for rnd in range(ctx.pick(260, 2500)):
		off = offsets[rnd % len(offsets)]
		span = 40
		base = sorted(rng.sample(range(span), rng.choice([1, 2, 4, 9, 20])))
		def sub():
			r = rng.random()
			if r < 0.08:
				return []
			if r < 0.2:
				return [off + x for x in base]
			keep = [x for x in base if rng.random() < 0.7] + rng.sample(range(span), rng.randint(0, 3))
			return [off + x for x in sorted(set(keep))]
		fit = [dt for dt in DTYPES if _fits(dt, off + span)]
		c = dict(a=sub(), b=sub(), c=sub(), call=CALLS[rnd % 3], salt=rnd)
		for k in 'abc':
			c['d' + k] = rng.choice(fit)
			c['f' + k] = rng.choice(FORMS)
		if rnd % 9 == 0:
			c['f' + rng.choice('abc')] = rng.choice(FOREIGN)
		if rnd % 5 == 0:
			c['b'] = list(c['a'])          # equal sets, different form / width
		ctx.count('stream:storage-forms')
		yield 'form', c
	# bulk entry points x collection types x options
	conts = ['array', 'list', 'plain', 'tuple', 'slice', 'i4bounds', 'annotated', 'annotated-list']
	for rnd in range(ctx.pick(210, 1500)):
		api = ('matrix', 'array', 'pairwise')[rnd % 3]
		wide = rnd % 4 == 0
		univ = 30
		lift = rng.choice([2 ** 16, 2 ** 32]) if wide else 0
		core = sorted(rng.sample(range(univ), 6))
		pool = [[], [], core, core, core[:3], core[3:], [core[0]]]
		for _ in range(3):
			pool.append(sorted(set(rng.sample(core, rng.randint(1, 5))) | set(rng.sample(range(univ), rng.randint(0, 4)))))
		if wide:
			# the same residues beyond the narrower type's range: must not be confused with the low ones
			pool += [sorted(set(s) | {lift + x for x in rng.sample(core, 2)}) for s in pool[-2:]]
		rng.shuffle(pool)
		sigs = pool[:rng.randint(3, 9)]
		top = max([x for s in sigs for x in s], default=0)
		fit = [dt for dt in DTYPES if _fits(dt, top)]
		cont = rng.choice(conts)
		if cont in ('plain', 'tuple', 'list', 'annotated-list'):
			dts = [rng.choice([dt for dt in DTYPES if _fits(dt, max(s, default=0))]) for s in sigs]
		else:
			dts = [rng.choice(fit)] * len(sigs)
		c = dict(sigs=sigs, dts=dts, api=api, container=cont, cdt=rng.choice([dt for dt in fit if dt[1] != '2' or top < 2 ** 15] or fit),
		         out=rng.choice(['none', 'nan', 'stale', 'strided', 'fortran']), progress=rng.random() < 0.3,
		         omp=0 if rnd % 40 == 7 else 2 if rnd % 4 == 1 else 1)
		if rng.random() < 0.6:
			m = rng.randint(1, len(sigs) + 2)
			c['idx'] = [rng.randrange(len(sigs)) for _ in range(m)]
			c['idxtype'] = rng.choice(['list', 'np', 'np32', 'npint-list'] + (['tuple'] if api != 'pairwise' else []))
		if api == 'matrix':
			c['qcontainer'] = rng.choice(['plain', 'array', 'list', 'tuple'])
			c['chunksize'] = rng.choice([None, 1, 2, 3, len(sigs), len(sigs) + 3])
			c['npchunk'] = rng.random() < 0.3
		if api == 'array':
			c['threads'] = rng.random() < 0.3
			if cont in ('annotated', 'annotated-list') and 'idx' in c and c['idxtype'] == 'npint-list':
				c['idxtype'] = 'list'
		if api == 'pairwise':
			c['flat'] = rng.random() < 0.5
			if c['out'] == 'fortran' and c['flat']:
				c['out'] = 'strided'
		ctx.count('stream:bulk-options')
		yield 'bulk', c
	# sequences whose elements have different widths, the first one the narrowest: a collection-level dtype taken from the
	# first element must not narrow the others (values beyond the narrow type, residues colliding with low values)
	for rnd in range(ctx.pick(45, 300)):
		narrow, lim = rng.choice([('u2', 2 ** 16), ('i2', 2 ** 15), ('u4', 2 ** 32), ('i4', 2 ** 31)])
		core = sorted(rng.sample(range(min(lim, 3000)), 6))
		first = sorted(rng.sample(core, rng.randint(0, 5)))
		sigs, dts = [first], [narrow]
		for _ in range(rng.randint(2, 6)):
			low = rng.sample(core, rng.randint(0, 5))
			r = rng.random()
			hi = [] if r < 0.3 else [lim * rng.randint(1, 3) + x for x in rng.sample(core, rng.randint(1, 3))]
			sig = sorted(set(low) | set(hi))
			sigs.append(sig)
			dts.append(rng.choice([dt for dt in DTYPES if _fits(dt, max(sig, default=0))][:3 if not hi else None]))
		api = ('matrix', 'pairwise', 'array')[rnd % 3]
		c = dict(sigs=sigs, dts=dts, api=api, container=rng.choice(['plain', 'tuple', 'list', 'annotated-list']), cdt=narrow,
		         qcontainer=rng.choice(['plain', 'tuple', 'list']), out=rng.choice(['none', 'stale']), progress=False, omp=1 + rnd % 2,
		         chunksize=rng.choice([None, 2]), flat=rnd % 2 == 0)
		if rnd % 4 == 0:
			c['idx'] = [rng.randrange(len(sigs)) for _ in range(rng.randint(2, len(sigs) + 1))]
			c['idxtype'] = 'list'
		ctx.count('stream:bulk-mixed-width-sequences')
		yield 'bulk', c
	# file-backed collection (HDF5Signatures) as references / as the all-pairs input
	for rnd in range(ctx.pick(6, 30)):
		core = sorted(rng.sample(range(200), 8))
		sigs = [[], core, core[:4], sorted(set(core[2:]) | set(rng.sample(range(200), 3))), [], core] + \
		       [sorted(rng.sample(range(200), rng.randint(1, 12))) for _ in range(rng.randint(0, 4))]
		rng.shuffle(sigs)
		c = dict(sigs=sigs, dts=['u4'] * len(sigs), api=('matrix', 'pairwise', 'array')[rnd % 3], container='hdf5', cdt='u4', qcontainer='plain',
		         out=rng.choice(['none', 'stale']), progress=False, chunksize=rng.choice([None, 2, 5]), flat=bool(rnd % 2), omp=2)
		if rnd % 2:
			c['idx'] = [rng.randrange(len(sigs)) for _ in range(rng.randint(2, len(sigs)))]
			c['idxtype'] = 'list'
		ctx.count('stream:bulk-file-backed')
		yield 'bulk', c
	# many references at once: the parallel loop really splits the work; all triples of the table
	for rnd in range(ctx.pick(4, 20)):
		n = rng.choice([40, 90, 150])
		univ = rng.choice([12, 40, 300])
		sigs = [sorted(rng.sample(range(univ), rng.randint(0, min(univ, 14)))) for _ in range(n)]
		for _ in range(n // 10):
			sigs[rng.randrange(n)] = list(sigs[rng.randrange(n)])
		api = ('array', 'matrix', 'pairwise', 'array')[rnd % 4]
		if api == 'pairwise':
			sigs = sigs[:40]
		c = dict(sigs=sigs, dts=[('u2', 'u4', 'i8', 'u8')[rnd % 4]] * len(sigs), api=api, container='array',
		         cdt=('u2', 'u4', 'i8', 'u8')[rnd % 4], qcontainer='plain', out=('none', 'stale')[rnd % 2], progress=False, chunksize=(None, 37)[rnd % 2],
		         threads=rnd % 4 == 3, flat=False, nq=12, omp=(0, 4, 2, 3)[rnd % 4])
		ctx.count('stream:bulk-many-references')
		yield 'bulk', c
	# adding common k-mers at every position, chains, stored dtypes
	for rnd in range(ctx.pick(150, 1500)):
		da, db = rng.choice(DTYPES), rng.choice(DTYPES)
		bits = min(8 * int(dt[1]) - (dt[0] == 'i') for dt in (da, db))
		top = 2 ** bits - 1
		lo = rng.choice([0, 5, top - 200]) if rnd % 3 else 5
		univ = range(lo, lo + 120)
		A = set(rng.sample(univ, rng.choice([1, 3, 10, 40])))
		B = set(x for x in A if rng.random() < 0.7) | set(rng.sample(univ, rng.randint(0, 5)))
		if A == B:
			B = B ^ {lo + 60}
		cand = [x for x in list(range(max(0, lo - 5), lo + 125)) + [0, top - 1, top] if 0 <= x <= top and x not in A and x not in B]
		xs = rng.sample(sorted(set(cand)), min(len(set(cand)), rng.randint(1, 6)))
		ctx.count('stream:add-common-positions')
		yield 'addx', dict(a=sorted(A), b=sorted(B), da=da, db=db, xs=xs, omp=2 if rnd % 50 == 3 else 1)
	# exhaustive: every pair of subsets of {1..4}, every absent k-mer of {0..5} (below, between, above)
	cnt = 0
	subs = [[i + 1 for i in range(4) if m >> i & 1] for m in range(16)]
	for A in subs:
		for B in subs:
			if A != B:
				for x in range(6):
					if x not in A and x not in B:
						cnt += 1
						yield 'addx', dict(a=A, b=B, da=DTYPES[cnt % 6], db=DTYPES[(cnt // 6) % 6], xs=[x])
	ctx.count('stream:add-common-exhaustive-small', cnt)
	# size classes between 4000 and 2^24
	for rnd in range(ctx.pick(8, 40)):
		size = rng.choice(ctx.pick([20000, 70000, 300000], [20000, 70000, 300000, 1000000, 3000000]))
		if rnd == 0:
			size = ctx.pick(1000000, 6000000)
		mode = ('overlap', 'near', 'touch', 'nested')[rnd % 4]
		univ = size * rng.choice([2, 5, 1000])
		dts = [rng.choice(['u8', 'i8'] + (['u4'] if 2 * univ < 2 ** 32 else []) + (['i4'] if 2 * univ < 2 ** 31 else [])) for _ in range(3)]
		ctx.count('stream:mid-size-triples')
		yield 'mid', dict(seed=rng.randrange(2 ** 32), size=size, univ=univ, mode=mode, dts=dts)
	# command line channel
	for rnd in range(ctx.pick(6, 30)):
		core = sorted(rng.sample(range(4 ** 11), 9))
		sigs = [[], core, core[:5], core[4:], sorted(set(core[:7]) | set(rng.sample(range(4 ** 11), 4))), [], list(core)] + \
		       [sorted(rng.sample(core, rng.randint(1, 8))) for _ in range(rng.randint(0, 3))]
		rng.shuffle(sigs)
		ctx.count('stream:cli-dist')
		yield 'cli', dict(sigs=sigs[:rng.randint(3, len(sigs))], mode=('square', 'qr')[rnd % 2], cores=(1, 2, 2, 1, None, 1)[rnd % 6])
	yield 'big', dict(name='add_common_2p24')
	yield 'big', dict(name='one_not_disjoint_2p25')
