"""C05 -- bulk and parallel distance computations agree bit-for-bit with the pairwise one.

Tie: T (Gen/MetricPyx.v, regenerated from metric.pyx: the prange loop `_jaccarddist_parallel` and
its arbitrary-iteration-order variant) + B: gambit.metric.jaccarddist_array / jaccarddist_matrix /
jaccarddist_pairwise and gambit.util.misc.chunk_slices are run on the same inputs as the hand model
(Model/C05.v) for every container (SignatureArray, HDF5Signatures on a scratch file, SignatureList,
plain list) x dtype x chunk size x index selection x caller-supplied buffer x OpenMP thread count
x repeated runs; every cell is compared, as a binary32 bit pattern, with
gambit.metric.jaccarddist of the pair the cell stands for (the property's predicate) and with the
model."""
import itertools
import os

# idle OpenMP threads must sleep, not spin: the machine is shared and thread counts up to 16 are used
# (libgomp reads this when the first compiled extension is loaded, which happens after this import)
os.environ.setdefault('OMP_WAIT_POLICY', 'PASSIVE')

import numpy as np

from harness.c02 import f32_bits, _arr

PROP = 'C05'
RULE = ('bulk call (array / matrix / pairwise) on a collection x container x dtype x chunk size x index selection x '
        'out buffer x thread count; non-trivial: at least two cells, two cells with different values, and at least one of: '
        'a chunk boundary strictly inside the references, an explicit index selection, a caller-supplied buffer, '
        'more than one OpenMP thread')
TRUSTED = ['tools/pyx2v.py (Cython subset -> Gallina: prange = iterations run one after the other in some order, '
           'begin/end per iteration; memoryview slice = clamped slice)',
           'OpenMP / Cython privatisation of begin,end: interleavings below iteration granularity are not modelled '
           '(explored here with 1..16 threads, more threads than references, repeated runs)',
           'indexing a SignatureArray / SignatureList / HDF5Signatures with an int, a slice or an index list behaves '
           'like the plain list (property C20, proved there)',
           'NumPy basic-slice views (out[i, a:b], out[a:b]) alias the buffer; np.empty / fill_diagonal / fancy '
           'assignment out[cols, i] = out[i, cols] as modelled in Model/C05.v']
ASSUMPTIONS = ['signatures are sorted and duplicate-free (outside that the pair distance itself is unspecified)',
               'number of references < 2^31 (the prange index is a C int), array lengths < 2^62',
               'progress meter absent (progress=None)']

CONT = {'array': 0, 'hdf5': 1, 'siglist': 2, 'pylist': 3}
GOOD_DT = ['u2', 'u4', 'u8', 'i2', 'i4', 'i8']
ERRNAME = {3: 'ValueError', 6: 'IndexError'}
NAN_BITS = 2143289344

_state = {}


def setup(ctx):
	from vf import impl
	impl.check_import()
	from gambit._cython import threads
	_state['dir'] = impl.scratch_dir('gambit-verif-c05-')
	_state['h5'] = {}
	_state['nfile'] = 0
	_state['threads0'] = threads.omp_get_max_threads()


def teardown(ctx):
	for h in _state.get('h5', {}).values():
		try:
			h.close()
		except Exception:
			pass
	_state['h5'] = {}
	try:
		from gambit._cython import threads
		threads.omp_set_num_threads(_state.get('threads0', 16))
	except Exception:
		pass


# ---- building implementation inputs ---------------------------------------------------------------

def _kind(dt):
	return [{'u': 0, 'i': 1}.get(dt[0], 2), int(dt[1:]) if dt[1:].isdigit() else 0]


def _sig(vals, dt):
	if dt in GOOD_DT:
		return _arr(vals, dt)
	return np.array(vals, dtype=dt)


def _container(cont, sigs, dt):
	from gambit.sigs.base import SignatureArray, SignatureList, dump_signatures, load_signatures
	from gambit.kmers import KmerSpec
	ks = KmerSpec(11, 'AT')
	arrs = [_sig(s, dt) for s in sigs]
	if cont == 'pylist':
		return arrs
	if cont == 'siglist':
		return SignatureList(arrs, ks, dtype=np.dtype(dt))
	if cont == 'array':
		return SignatureArray(arrs, ks, dtype=np.dtype(dt))
	if cont == 'view':
		pad = [_sig([7, 9], dt)] + arrs + [_sig([3], dt)]
		return SignatureArray(pad, ks, dtype=np.dtype(dt))[1:len(pad) - 1]
	if cont == 'hdf5':
		key = (dt, tuple(tuple(s) for s in sigs))
		h = _state['h5'].get(key)
		if h is None or not h:
			if len(_state['h5']) > 150:
				for old in list(_state['h5'])[:75]:
					try:
						_state['h5'].pop(old).close()
					except Exception:
						pass
			_state['nfile'] += 1
			path = os.path.join(_state['dir'], f'c{_state["nfile"]}.gs')
			dump_signatures(path, SignatureArray(arrs, ks, dtype=np.dtype(dt)), 'hdf5')
			h = load_signatures(path)
			_state['h5'][key] = h
		return h
	raise ValueError(cont)


def _contcode(cont):
	return CONT['array' if cont == 'view' else cont]


def _outbuf(spec):
	"""spec = None | dict(shape=[...], dtype='f4', layout='C'|'F'|'strided') -> ndarray filled with NaN"""
	if spec is None:
		return None
	shape = tuple(spec['shape'])
	dt = np.dtype(spec.get('dtype', 'f4'))
	layout = spec.get('layout', 'C')
	fill = np.nan if dt.kind == 'f' else 77
	if layout == 'F':
		return np.full(shape, fill, dtype=dt, order='F')
	if layout == 'strided':
		big = np.full(tuple(2 * s for s in shape), fill, dtype=dt)
		return big[tuple(slice(0, 2 * s, 2) for s in shape)]
	return np.full(shape, fill, dtype=dt)


def _wire_out(spec, ndim):
	if spec is None:
		return None
	shape = list(spec['shape'])
	isf32 = np.dtype(spec.get('dtype', 'f4')) == np.dtype('f4')
	if len(shape) == ndim == 1:
		cells = [NAN_BITS] * max(0, shape[0])
	elif len(shape) == ndim == 2:
		cells = [[NAN_BITS] * max(0, shape[1]) for _ in range(max(0, shape[0]))]
	else:
		cells = []
	return [[shape, isf32, cells]]


def _set_threads(t):
	from gambit._cython import threads
	threads.omp_set_num_threads(int(t))


def _bits(a):
	a = np.ascontiguousarray(a, dtype=np.float32)
	return a.view(np.uint32).astype(np.int64).tolist()


def _call(fn, out):
	"""-> ('ok', bits, same_buffer) | ('err', name)"""
	try:
		r = fn()
	except (ValueError, IndexError) as e:
		return ('err', type(e).__name__)
	except Exception as e:
		return ('err', type(e).__name__ + ':' + str(e)[:80])
	if not isinstance(r, np.ndarray) or r.dtype != np.float32:
		return ('err', f'returned {type(r).__name__} {getattr(r, "dtype", None)}')
	same = True
	if out is not None:
		same = (r is out)
	return ('ok', _bits(r), same)


def _model_outcome(m):
	if m[0] == 0:
		return ('ok', m[1])
	return ('err', ERRNAME.get(m[1], f'Kernel{m[1]}'))


def _pairbits(cache, a, b, da, db):
	from gambit.metric import jaccarddist
	key = (tuple(a), tuple(b), da, db)
	v = cache.get(key)
	if v is None:
		v = f32_bits(jaccarddist(_sig(a, da), _sig(b, db)))
		cache[key] = v
	return v


def _norm(n, i):
	j = i + n if i < 0 else i
	return j if 0 <= j < n else None


def _select(lst, idxs):
	out = []
	for i in idxs:
		j = _norm(len(lst), i)
		if j is None:
			return None
		out.append(lst[j])
	return out


def _report(ctx, kind, c, runs, expect, model, what_for):
	"""runs: outcomes of the repeated implementation runs; expect: ('ok', bits) from pairwise jaccarddist calls or
	('err', name) / None when the property does not fix the outcome; model: outcome of the model or None"""
	first = runs[0]
	for k, r in enumerate(runs[1:], 1):
		if r != first:
			ctx.violation(kind, c, f'{what_for}: run {k} differs from run 0 under the same inputs (threads={c.get("threads")})',
			              impl=[first, r])
			return
	if first[0] == 'ok' and not first[2]:
		ctx.violation(kind, c, f'{what_for}: result is not the caller-supplied buffer', impl=first[1])
		return
	got = first[:2]
	if expect is not None and got != expect:
		if got[0] == 'err' and expect[0] == 'ok':
			what = f'{what_for} raised {got[1]} although every cell is determined by the pairwise distance (expected {len(expect[1])} row(s)/cell(s))'
		elif got[0] == 'ok' and expect[0] == 'ok':
			what = f'{what_for}: a cell differs bit-wise from gambit.metric.jaccarddist of the pair it stands for'
		else:
			what = f'{what_for}: outcome {got} but expected {expect}'
		ctx.violation(kind, c, what, impl=got, spec=expect, model=model)
		return
	if model is not None and got != model:
		ctx.broke(f'correspondence {kind}', f'{c}: impl {got} model {model}')


def _nontrivial(c, cells, n_refs):
	flat = [x for row in cells for x in (row if isinstance(row, list) else [row])]
	if len(flat) < 2 or len(set(flat)) < 2:
		return False
	cs = c.get('chunksize')
	return bool((cs is not None and 0 < cs < n_refs) or c.get('ri') is not None or c.get('indices') is not None
	            or c.get('out') is not None or c.get('threads', 1) > 1)


# ---- kinds ------------------------------------------------------------------------------------------

def k_array(ctx, cases):
	from gambit.metric import jaccarddist_array
	reqs = [(502, [_contcode(c['cont']), _kind(c['dq']), _kind(c['dr']), c['q'], c['refs'], _wire_out(c.get('out'), 1)])
	        for c in cases]
	ans = ctx.model(reqs) if ctx.model_ok else None
	cache = {}
	for n, c in enumerate(cases):
		good = c['dq'] in GOOD_DT and c['dr'] in GOOD_DT
		q = _sig(c['q'], c['dq'])
		refs = _container(c['cont'], c['refs'], c['dr'])
		_set_threads(c.get('threads', 1))
		runs = []
		for _ in range(c.get('reps', 1)):
			out = _outbuf(c.get('out'))
			runs.append(_call(lambda: jaccarddist_array(q, refs, out=out), out))
		expect = None
		o = c.get('out')
		if good:
			if o is not None and (list(o['shape']) != [len(c['refs'])] or np.dtype(o.get('dtype', 'f4')) != np.dtype('f4')):
				expect = ('err', 'ValueError')
			else:
				expect = ('ok', [_pairbits(cache, c['q'], r, c['dq'], c['dr']) for r in c['refs']])
		model = _model_outcome(ans[n]) if ans is not None else None
		ctx.case(c, nontrivial=bool(expect and expect[0] == 'ok' and _nontrivial(c, expect[1], len(c['refs']))))
		_report(ctx, 'array', c, runs, expect, model, 'jaccarddist_array')


def k_matrix(ctx, cases):
	from gambit.metric import jaccarddist_matrix
	reqs = []
	for c in cases:
		reqs.append((503, [_contcode(c['cont']), _kind(c['dq']), _kind(c['dr']), c['queries'], c['refs'],
		                   None if c.get('ri') is None else [c['ri']], _wire_out(c.get('out'), 2),
		                   None if c.get('chunksize') is None else [c['chunksize']]]))
	ans = ctx.model(reqs) if ctx.model_ok else None
	cache = {}
	for n, c in enumerate(cases):
		good = c['dq'] in GOOD_DT and c['dr'] in GOOD_DT
		queries = [_sig(q, c['dq']) for q in c['queries']]
		if c.get('qcont'):
			queries = _container(c['qcont'], c['queries'], c['dq'])
		refs = _container(c['cont'], c['refs'], c['dr'])
		ri = c.get('ri')
		ri_impl = ri
		if ri is not None and c.get('ri_kind', 'list') != 'list':
			ri_impl = np.array(ri, dtype=c['ri_kind']) if ri else np.empty(0, dtype=c['ri_kind'])
		_set_threads(c.get('threads', 1))
		runs = []
		for _ in range(c.get('reps', 1)):
			out = _outbuf(c.get('out'))
			runs.append(_call(lambda: jaccarddist_matrix(queries, refs, ref_indices=ri_impl, out=out,
			                                              chunksize=c.get('chunksize')), out))
		nq = len(c['queries'])
		nr = len(c['refs']) if ri is None else len(ri)
		sel = c['refs'] if ri is None else _select(c['refs'], ri)
		o = c.get('out')
		cs = c.get('chunksize')
		expect = None
		if o is not None and (list(o['shape']) != [nq, nr] or np.dtype(o.get('dtype', 'f4')) != np.dtype('f4')):
			expect = ('err', 'ValueError')
		elif cs is not None and cs <= 0:
			expect = ('err', 'ValueError')
		elif sel is None:
			# an index out of range: IndexError as soon as its chunk is reached (needs at least one chunk)
			expect = ('err', 'IndexError')
		elif good:
			expect = ('ok', [[_pairbits(cache, q, r, c['dq'], c['dr']) for r in sel] for q in c['queries']])
		model = _model_outcome(ans[n]) if ans is not None else None
		ctx.case(c, nontrivial=bool(expect and expect[0] == 'ok' and _nontrivial(c, expect[1], nr)))
		_report(ctx, 'matrix', c, runs, expect, model, 'jaccarddist_matrix')


def k_pairwise(ctx, cases):
	from gambit.metric import jaccarddist_pairwise
	reqs = []
	for c in cases:
		flat = bool(c.get('flat'))
		reqs.append((505 if flat else 504, [_contcode(c['cont']), _kind(c['d']), c['sigs'],
		                                    None if c.get('indices') is None else [c['indices']],
		                                    _wire_out(c.get('out'), 1 if flat else 2)]))
	ans = ctx.model(reqs) if ctx.model_ok else None
	offs = ctx.model([(512, [len(c['sigs']) if c.get('indices') is None else len(c['indices']), i, j])
	                  for c in cases[:40] for i, j in [(0, 1), (1, 2), (1, 3)]]) if ctx.model_ok else None
	cache = {}
	for n, c in enumerate(cases):
		flat = bool(c.get('flat'))
		good = c['d'] in GOOD_DT
		sigs = _container(c['cont'], c['sigs'], c['d'])
		idx = c.get('indices')
		idx_impl = idx
		if idx is not None and c.get('idx_kind', 'list') != 'list':
			idx_impl = np.array(idx, dtype=c['idx_kind']) if idx else np.empty(0, dtype=c['idx_kind'])
		_set_threads(c.get('threads', 1))
		runs = []
		for _ in range(c.get('reps', 1)):
			out = _outbuf(c.get('out'))
			runs.append(_call(lambda: jaccarddist_pairwise(sigs, indices=idx_impl, flat=flat, out=out), out))
		sel = c['sigs'] if idx is None else _select(c['sigs'], idx)
		m = len(c['sigs']) if idx is None else len(idx)
		shape = [m * (m - 1) // 2] if flat else [m, m]
		o = c.get('out')
		expect = None
		if o is not None and (list(o['shape']) != shape or np.dtype(o.get('dtype', 'f4')) != np.dtype('f4')):
			expect = ('err', 'ValueError')
		elif sel is None:
			expect = ('err', 'IndexError') if m >= 2 else None
		elif good:
			if flat:
				# cell at offset n*i - i(i+1)/2 + (j-i-1) is the pair (i, j), i < j
				cells = [None] * shape[0]
				for i in range(m):
					for j in range(i + 1, m):
						cells[m * i - i * (i + 1) // 2 + (j - i - 1)] = _pairbits(cache, sel[i], sel[j], c['d'], c['d'])
				expect = ('ok', cells)
			else:
				# zero diagonal; cell (i, j) = d(s_i, s_j) computed in that argument order (so symmetry is checked)
				expect = ('ok', [[0 if i == j else _pairbits(cache, sel[i], sel[j], c['d'], c['d']) for j in range(m)]
				                 for i in range(m)])
		model = _model_outcome(ans[n]) if ans is not None else None
		ctx.case(c, nontrivial=bool(expect and expect[0] == 'ok' and m >= 3 and _nontrivial(dict(c, threads=c.get('threads', 1)), expect[1], m)))
		_report(ctx, 'pairwise', c, runs, expect, model, 'jaccarddist_pairwise' + (' (flat)' if flat else ''))
	if offs is not None:
		k = 0
		for c in cases[:40]:
			m = len(c['sigs']) if c.get('indices') is None else len(c['indices'])
			for i, j in [(0, 1), (1, 2), (1, 3)]:
				if offs[k] != m * i - i * (i + 1) // 2 + (j - i - 1):
					ctx.broke('correspondence condensed_offset', f'n={m} i={i} j={j}: model {offs[k]}')
				k += 1


def k_chunks(ctx, cases):
	from gambit.util.misc import chunk_slices
	ans = ctx.model([(501, [c['n'], c['size']]) for c in cases]) if ctx.model_ok else None
	for n, c in enumerate(cases):
		try:
			sl = list(chunk_slices(c['n'], c['size']))
			got = ('ok', [[s.start, s.stop] for s in sl])
			bad_step = [s for s in sl if s.step is not None]
		except ValueError:
			got, bad_step = ('err', 'ValueError'), []
		except Exception as e:
			got, bad_step = ('err', type(e).__name__), []
		ctx.case(c, nontrivial=c['size'] > 0 and c['n'] > c['size'])
		if c['size'] <= 0:
			if got != ('err', 'ValueError'):
				ctx.violation('chunks', c, f'chunk_slices({c["n"]}, {c["size"]}) did not raise ValueError', impl=got)
			ok = True
		else:
			covered = []
			if got[0] == 'ok':
				for a, b in got[1]:
					covered += list(range(c['n']))[a:b]
			ok = got[0] == 'ok' and not bad_step and covered == list(range(max(0, c['n'])))
			if not ok:
				ctx.violation('chunks', c, f'chunk_slices({c["n"]}, {c["size"]}) does not cover range(n) exactly once in order',
				              impl=got, spec=list(range(max(0, c['n']))))
		if ok and ans is not None and _model_outcome(ans[n]) != got:
			ctx.broke('correspondence chunks', f'{c}: impl {got} model {ans[n]}')


def k_schedule(ctx, cases):
	"""the compiled prange loop itself, called directly on (values, bounds), many threads / repetitions,
	against the generated model run sequentially and in the iteration order pi"""
	import gambit._cython.metric as cm
	reqs = []
	for c in cases:
		vals = [x for r in c['refs'] for x in r]
		bounds = [0]
		for r in c['refs']:
			bounds.append(bounds[-1] + len(r))
		c['_vb'] = (vals, bounds)
		init = [NAN_BITS] * len(c['refs'])
		reqs.append((506, [c['pi'], c['q'], vals, bounds, init]))
		reqs.append((507, [c['q'], vals, bounds, init]))
		reqs.append((511, c['refs']))
	ans = ctx.model(reqs) if ctx.model_ok else None
	cache = {}
	for n, c in enumerate(cases):
		vals, bounds = c.pop('_vb')
		# the kernel takes unsigned arrays (the wrapper views signed ones as unsigned)
		q = _arr(c['q'], 'u' + c['dq'][1])
		v = _arr(vals, 'u' + c['dr'][1])
		b = np.array(bounds, dtype=np.intp)
		expect = [_pairbits(cache, c['q'], r, c['dq'], c['dr']) for r in c['refs']]
		ctx.case(c, nontrivial=len(set(expect)) >= 2 and c['threads'] > 1)
		_set_threads(c['threads'])
		bad = None
		for rep in range(c.get('reps', 1)):
			out = np.full(len(c['refs']), np.nan, dtype=np.float32)
			cm._jaccarddist_parallel(q, v, b, out)
			got = _bits(out)
			if got != expect:
				bad = (rep, got)
				break
		if bad:
			ctx.violation('schedule', c, f'_jaccarddist_parallel with {c["threads"]} threads, run {bad[0]}: cells differ from the '
			              f'pairwise distances', impl=bad[1], spec=expect)
			continue
		if ans is not None:
			mo, ms, mc = ans[3 * n], ans[3 * n + 1], ans[3 * n + 2]
			if mc != [vals, bounds]:
				ctx.broke('correspondence concatenated representation', f'{c["refs"]}: model {mc}')
			if ms != [0, expect]:
				ctx.broke('correspondence schedule (sequential model)', f'{c}: impl {expect} model {ms}')
			elif mo != ms:
				ctx.broke('model: iteration order changes the result', f'{c}: order {mo} sequential {ms}')


KINDS = {'array': k_array, 'matrix': k_matrix, 'pairwise': k_pairwise, 'chunks': k_chunks, 'schedule': k_schedule}
SHRINK = False
BATCH = 400


# ---- generators -------------------------------------------------------------------------------------

def _rand_sig(rng, size, universe):
	size = min(size, universe)
	return sorted(rng.sample(range(universe), size))


def _rand_coll(rng, n, maxsize, universe):
	"""collection with empty signatures, one-element signatures and duplicates of each other"""
	out = []
	for _ in range(n):
		t = rng.random()
		if out and t < 0.2:
			out.append(list(rng.choice(out)))
		elif t < 0.3:
			out.append([])
		elif t < 0.4:
			out.append([rng.randrange(universe)])
		else:
			out.append(_rand_sig(rng, rng.randint(1, maxsize), universe))
	return out


def _rand_indices(rng, n, allow_neg=True):
	if n == 0:
		return []
	k = rng.choice([1, n, n + 2, 2 * n, rng.randint(0, n + 3)])
	lo = -n if allow_neg else 0
	return [rng.randint(lo, n - 1) for _ in range(k)]


def generate(ctx):
	rng = ctx.rng
	ctx.rule(RULE)
	conts = ['array', 'hdf5', 'siglist', 'pylist', 'view']
	tcycle = itertools.cycle(range(1, 17))
	dcycle = itertools.cycle([(a, b) for a in GOOD_DT for b in GOOD_DT])

	# -- chunk_slices: exhaustive small scope
	nmax = ctx.pick(14, 40)
	for n in range(0, nmax + 1):
		for size in range(-2, n + 4):
			ctx.count('stream:chunks-exhaustive')
			yield 'chunks', dict(n=n, size=size)
	yield 'chunks', dict(n=-3, size=2)
	yield 'chunks', dict(n=10 ** 6, size=10 ** 5 - 1)

	# -- jaccarddist_array: exhaustive over collections of <= 3 signatures from the subsets of {0, 1}, and of {3,5,8} tails
	pool = [[], [0], [1], [0, 1]]
	count = 0
	for k in range(0, 4):
		for refs in itertools.product(pool, repeat=k):
			for q in pool:
				for cont in ('array', 'siglist', 'pylist'):
					dq, dr = next(dcycle)
					count += 1
					yield 'array', dict(cont=cont, dq=dq, dr=dr, q=q, refs=[list(r) for r in refs], threads=next(tcycle))
	ctx.count('stream:array-exhaustive', count)
	ctx.exhaustive = True
	ctx.extra['exhaustive_scope'] = ('chunk_slices(n, size) for all 0 <= n <= %d, -2 <= size <= n+3; jaccarddist_array for every '
	                                 'collection of <= 3 signatures drawn from the 4 subsets of {0,1} x 4 queries x 3 in-memory '
	                                 'containers (dtype pair and thread count cycling); jaccarddist_matrix for every chunk size '
	                                 '1..n+2 and None on fixed families of n <= 5 references x 5 containers' % nmax)

	# -- fixed families (empty / one-element / duplicate signatures; n = 0, 1, 2, ...)
	fams = [
		[],
		[[]],
		[[4]],
		[[], []],
		[[1, 2, 3], [1, 2, 3]],
		[[], [5], [5]],
		[[1, 2, 3], [], [2, 3, 4, 9], [1, 2, 3]],
		[[0, 2, 4, 6], [1, 3, 5], [0, 1, 2, 3, 4, 5, 6], [6], [], ],
		[[10, 20, 30], [10, 20], [10], [20, 30, 40, 50], [10, 20, 30]],
	]
	qfams = [[], [[2, 3]], [[], [1, 2, 3, 10]], [[5], [0, 2, 4, 6], [10, 20, 30]]]

	# -- jaccarddist_matrix: every chunk size 1..n+2 and None x containers x index selections
	for refs in fams:
		n = len(refs)
		for cont in conts:
			for queries in qfams:
				sels = [None]
				if n:
					sels += [list(range(n - 1, -1, -1)), [0] * (n + 1), [-1, 0, -1], _rand_indices(rng, n)]
				else:
					sels += [[]]
				for ri in sels:
					nr = n if ri is None else len(ri)
					for cs in [None] + list(range(1, nr + 3)):
						dq, dr = next(dcycle)
						ctx.count('stream:matrix-families')
						yield 'matrix', dict(cont=cont, dq=dq, dr=dr, queries=queries, refs=refs, ri=ri,
						                     ri_kind=rng.choice(['list', 'i8', 'i4', 'u2']) if ri is not None and min(ri, default=0) >= 0 else rng.choice(['list', 'i8', 'i2']),
						                     chunksize=cs, threads=next(tcycle),
						                     out=rng.choice([None, None, dict(shape=[len(queries), nr], layout=rng.choice(['C', 'F', 'strided']))]))

	# -- jaccarddist_pairwise: families x containers x flat x selections x buffers
	for sigs in fams:
		n = len(sigs)
		for cont in conts:
			for flat in (False, True):
				sels = [None]
				if n:
					sels += [list(range(n - 1, -1, -1)), [0, 0, n - 1], [-1], _rand_indices(rng, n)]
				else:
					sels += [[]]
				for idx in sels:
					m = n if idx is None else len(idx)
					shape = [m * (m - 1) // 2] if flat else [m, m]
					for out in (None, dict(shape=shape, layout='C'), dict(shape=shape, layout='strided')):
						ctx.count('stream:pairwise-families')
						yield 'pairwise', dict(cont=cont, d=rng.choice(GOOD_DT), sigs=sigs, indices=idx,
						                       idx_kind=rng.choice(['list', 'i8']), flat=flat, out=out, threads=next(tcycle))

	# -- the prange loop itself: more threads than references, repeated runs under the dynamic schedule
	nsched = ctx.pick(120, 1200)
	for _ in range(nsched):
		n = rng.choice([0, 1, 2, 3, 5, 8, 17, 40])
		refs = _rand_coll(rng, n, rng.choice([3, 30, 300]), rng.choice([8, 64, 4096]))
		q = _rand_sig(rng, rng.choice([0, 1, 5, 50, 300]), 4096)
		pi = list(range(n))
		rng.shuffle(pi)
		dq, dr = next(dcycle)
		ctx.count('stream:schedule')
		yield 'schedule', dict(q=q, refs=refs, pi=pi, dq=dq, dr=dr, threads=rng.randint(1, 16), reps=ctx.pick(8, 40))

	# -- random structured bulk calls
	nrand = ctx.pick(260, 3000)
	for _ in range(nrand):
		n = rng.choice([0, 1, 2, 3, 4, 6, 9, 13, 24])
		universe = rng.choice([6, 40, 1000, 60000])
		refs = _rand_coll(rng, n, rng.choice([2, 10, 120]), universe)
		cont = rng.choice(conts)
		dq, dr = next(dcycle)
		threads = rng.randint(1, 16)
		which = rng.choice(['array', 'matrix', 'matrix', 'pairwise'])
		reps = rng.choice([1, 1, 3])
		if which == 'array':
			out = rng.choice([None, dict(shape=[n], layout=rng.choice(['C', 'strided']))])
			ctx.count('stream:random-array')
			yield 'array', dict(cont=cont, dq=dq, dr=dr, q=_rand_sig(rng, rng.randint(0, 60), universe), refs=refs,
			                    out=out, threads=threads, reps=reps)
		elif which == 'matrix':
			queries = _rand_coll(rng, rng.choice([0, 1, 2, 5]), rng.choice([2, 10, 120]), universe)
			if refs and rng.random() < 0.4:
				queries = queries + [list(rng.choice(refs))]
			ri = rng.choice([None, _rand_indices(rng, n)]) if n else rng.choice([None, []])
			nr = n if ri is None else len(ri)
			cs = rng.choice([None, 1, 2, 3, max(1, nr - 1), max(1, nr), nr + 1, nr + 2, rng.randint(1, nr + 3)])
			out = rng.choice([None, None, dict(shape=[len(queries), nr], layout=rng.choice(['C', 'F', 'strided']))])
			ctx.count('stream:random-matrix')
			yield 'matrix', dict(cont=cont, qcont=rng.choice([None, None, 'array', 'siglist']), dq=dq, dr=dr, queries=queries,
			                     refs=refs, ri=ri, ri_kind=rng.choice(['list', 'i8']), chunksize=cs, out=out,
			                     threads=threads, reps=reps)
		else:
			flat = rng.random() < 0.5
			idx = rng.choice([None, _rand_indices(rng, n)]) if n else rng.choice([None, []])
			m = n if idx is None else len(idx)
			shape = [m * (m - 1) // 2] if flat else [m, m]
			out = rng.choice([None, dict(shape=shape, layout=rng.choice(['C', 'F', 'strided']))])
			ctx.count('stream:random-pairwise')
			yield 'pairwise', dict(cont=cont, d=dr, sigs=refs, indices=idx, idx_kind=rng.choice(['list', 'i8']), flat=flat,
			                       out=out, threads=threads, reps=reps)

	# -- malformed stream: wrong buffers, chunk sizes, indices, dtypes
	refs = [[1, 2, 3], [], [2, 3, 4, 9], [1, 2, 3]]
	queries = [[2, 3], [1]]
	for cont in conts:
		for out in (dict(shape=[3]), dict(shape=[5]), dict(shape=[4], dtype='f8'), dict(shape=[4], dtype='i4'),
		            dict(shape=[4, 1]), dict(shape=[2, 2]), dict(shape=[3], dtype='f8')):
			ctx.count('stream:malformed-array-out')
			yield 'array', dict(cont=cont, dq='u2', dr='u4', q=[2, 3], refs=refs, out=out, threads=2)
		for out in (dict(shape=[2, 3]), dict(shape=[4, 2]), dict(shape=[8]), dict(shape=[2, 4], dtype='f8'),
		            dict(shape=[2, 4, 1]), dict(shape=[1, 4], dtype='f8')):
			for cs in (None, 2):
				ctx.count('stream:malformed-matrix-out')
				yield 'matrix', dict(cont=cont, dq='u2', dr='u4', queries=queries, refs=refs, ri=None, chunksize=cs, out=out, threads=2)
		for cs in (0, -1, -5):
			for out in (None, dict(shape=[2, 4]), dict(shape=[2, 3])):
				ctx.count('stream:malformed-chunksize')
				yield 'matrix', dict(cont=cont, dq='u2', dr='u4', queries=queries, refs=refs, ri=None, chunksize=cs, out=out, threads=1)
			yield 'matrix', dict(cont=cont, dq='u2', dr='u4', queries=[], refs=[], ri=None, chunksize=cs, out=None, threads=1)
		for ri in ([0, 4], [-5], [1, 2, 3, 4, 0], [0, 1, 2, 7]):
			for cs in (None, 1, 2, 3):
				ctx.count('stream:malformed-indices')
				yield 'matrix', dict(cont=cont, dq='u2', dr='u4', queries=queries, refs=refs, ri=ri, chunksize=cs, out=None, threads=1)
			for flat in (False, True):
				yield 'pairwise', dict(cont=cont, d='u4', sigs=refs, indices=ri, flat=flat, out=None, threads=1)
		for flat, out in ((False, dict(shape=[4, 3])), (False, dict(shape=[6])), (False, dict(shape=[4, 4], dtype='f8')),
		                  (True, dict(shape=[5])), (True, dict(shape=[4, 4])), (True, dict(shape=[6], dtype='f8')),
		                  (True, dict(shape=[7], dtype='f8'))):
			ctx.count('stream:malformed-pairwise-out')
			yield 'pairwise', dict(cont=cont, d='u4', sigs=refs, indices=None, flat=flat, out=out, threads=2)
	for cont in ('array', 'siglist', 'pylist'):
		for dq, dr in (('u1', 'u2'), ('u2', 'u1'), ('f4', 'u2'), ('u2', 'f8'), ('i1', 'i1')):
			for r in (refs, []):
				ctx.count('stream:malformed-dtype')
				yield 'array', dict(cont=cont, dq=dq, dr=dr, q=[2, 3], refs=r, threads=1)
				yield 'matrix', dict(cont=cont, dq=dq, dr=dr, queries=queries, refs=r, ri=None, chunksize=None, out=None, threads=1)
