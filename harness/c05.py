"""C05 -- bulk and parallel distance computations agree bit-for-bit with the pairwise one.

Tie: T (Gen/MetricPyx.v, regenerated from metric.pyx: the prange loop `_jaccarddist_parallel` and
its arbitrary-iteration-order variant) + B: gambit.metric.jaccarddist_array / jaccarddist_matrix /
jaccarddist_pairwise and gambit.util.misc.chunk_slices are run on the same inputs as the hand model
(Model/C05.v) for every container (SignatureArray, HDF5Signatures on a scratch file, SignatureList,
plain list) x dtype x chunk size x index selection x caller-supplied buffer x OpenMP thread count
x repeated runs; every cell is compared, as a binary32 bit pattern, with
gambit.metric.jaccarddist of the pair the cell stands for (the property's predicate) and with the
model.

Coverage audit (statement / quantifier / API item -> stream that drives it ON THE IMPLEMENTATION; P = the
property predicate "cell == jaccarddist(pair) bitwise, right buffer, runs agree" is judged there, M = the model
is compared as well).  "audit-*" streams were added by the audit; kinds api / sequence / concurrent /
envthreads are P only (outside the Coq model, see the comment above XCONT_HOMOG).
  one query x many refs (jaccarddist_array)      array-exhaustive, random-array, audit-*              P M
  query x reference matrix                       matrix-families, random-matrix, audit-*              P M
  all pairs, square (symmetry, zero diagonal)    pairwise-families, random-pairwise (cell (i,j) is
                                                 compared with d(s_i, s_j) in THAT argument order)    P M
  all pairs, condensed                           the same streams with flat=True; offsets op 512      P M
  containers: SignatureArray / view, HDF5 file,  all of the above (5 names)                           P M
    SignatureList, plain list
  other holders: tuple, AnnotatedSignatures      WAS MISSING -> audit-containers (28 names), also as  P
    (array / list / file), gzip-compressed file,   the QUERIES container and inside audit-random-api,
    file in a sub-group, file written through      audit-call-sequences
    the per-signature path with string ids and an
    odd file name, file with 32-bit bounds,
    from_arrays with i2/i4/u4/u8 bounds, strided
    values, junk before/after the values,
    SignatureArray made by int-array / bool-mask /
    stepped-slice indexing, copy constructor,
    subclasses, list of non-contiguous signatures,
    SignatureList over one SignatureArray
  queries and references the same object         WAS MISSING -> audit-same-object                     P
  dtype: 6 x 6 (query, refs) pairs               dcycle in every stream; values were all < 60000:     P M
    values >= 2^16 / 2^32 / 2^63, colliding        WAS MISSING -> audit-wide-values (modelled kinds)
    modulo 2^16 / 2^32
  one list holding signatures of several dtypes  WAS MISSING -> audit-mixed-dtype-lists               P
  collections: empty / one element / duplicates  fams, _rand_coll everywhere                          P M
  n = 0, 1, 2 ... 40 references                  fams, schedule, random-*                             P M
  hundreds / a thousand references, one 10^5-    WAS MISSING -> audit-many-references                 P
    element signature among short ones
  chunk size 1..n+2, None, <= 0                  matrix-families, malformed-chunksize, chunks-*       P M
  chunk size >= 2^31 ... 10^30                   WAS MISSING -> audit-huge-chunksize (modelled kind)  P M
  chunk size as NumPy scalar / bool              WAS MISSING -> audit-chunksize-forms (np.uint64 and  P
                                                 float: an error is accepted, a wrong cell is not)
  index selections: repeats, negative, reversed, matrix- / pairwise-families, random-*, malformed-    P M
    out of range; list, i2/i4/i8/u2 arrays         indices
  selections as tuple, range, array.array, lists WAS MISSING -> audit-index-forms                     P
    of NumPy scalars, i1/u1/u8/intp/big-endian/
    strided/read-only arrays
  selection as a boolean mask                    WAS MISSING -> audit-bool-selection (error accepted) P
  out buffers: C, F, every-other-element; wrong  *-families, random-*, malformed-*-out                P M
    shape / dtype / ndim
  out buffers: negative strides, offset block,   WAS MISSING -> audit-out-layouts (modelled kinds),    P M
    transpose, row- / column-strided, ndarray      audit-random-api
    subclass, np.memmap on disk
  one buffer / index object / container reused   WAS MISSING -> audit-call-sequences (also: an array   P
    across calls; results of earlier calls         the function allocated must keep its values after
                                                   later calls)
  thread counts 1..16 via omp_set_num_threads,   every stream (tcycle / randint), schedule (reps 8)   P M
    more threads than refs, repeated runs
  thread count from OMP_NUM_THREADS / OMP_DYNAMIC WAS MISSING -> audit-env-threads (fresh interpreter)  P
    / OMP_THREAD_LIMIT / OMP_SCHEDULE
  callers in several Python threads at once      WAS MISSING -> audit-concurrent-callers              P
  call forms: keywords only                      all old streams; positional / omitted arguments,
                                                 flat as np.bool_ / int, progress=False / True /
                                                 meter class / factory / ProgressConfig (the form
                                                 query(), `gambit dist` and `gambit tree` use),
                                                 strided query: WAS MISSING -> audit-call-forms       P
  gambit dist / gambit tree / gambit.query.query CLI cells: C16 / C17 checks; query(): C04 / C09; their
                                                 call forms are reproduced in audit-call-forms
  _jaccarddist_parallel directly                 schedule; non-contiguous query / values / bounds / out:
                                                 WAS MISSING -> audit-kernel-strided                  P M
Not covered: read-only signature arrays (gambit.metric.jaccarddist itself refuses them, so the predicate is
undefined); interleavings below one prange iteration (explored, see TRUSTED); > 2^31 references."""
import itertools
import os

# idle OpenMP threads must sleep, not spin: the machine is shared and thread counts up to 16 are used
# (libgomp reads this when the first compiled extension is loaded, which happens after this import)
os.environ.setdefault('OMP_WAIT_POLICY', 'PASSIVE')

import numpy as np

from harness.c02 import f32_bits, _arr

PROP = 'C05'
RULE = ('bulk call (array / matrix / pairwise) on a collection x container x dtype x chunk size x index selection x '
        'out buffer x thread count; non-trivial: at least two cells, two cells with different values, and at least one of: '
        'a chunk boundary strictly inside the references, an explicit index selection, a caller-supplied buffer, '
        'more than one OpenMP thread.  api: the same calls with the references / queries held in any of 28 holder types, '
        'indices / chunk size / flat written as tuples, ranges, NumPy scalars and arrays of any integer dtype, positional or '
        'omitted arguments, progress meters, lists of mixed dtype, values over the whole dtype range; non-trivial: two '
        'different cells and one such form present.  sequence: 2-7 calls sharing container, index object and buffers; '
        'non-trivial: a later call has two different cells.  concurrent: 2-4 calls from Python threads at once.  envthreads: '
        'calls in a fresh interpreter whose thread count comes from OMP_* variables; non-trivial: more than one thread.  '
        'api / sequence / concurrent / envthreads are judged by the property predicate only (no model)')
TRUSTED = ['tools/pyx2v.py (Cython subset -> Gallina: prange = iterations run one after the other in some order, '
           'begin/end per iteration; memoryview slice = clamped slice)',
           'OpenMP / Cython privatisation of begin,end: interleavings below iteration granularity are not modelled '
           '(explored here with 1..16 threads, more threads than references, repeated runs)',
           'indexing a SignatureArray / SignatureList / HDF5Signatures with an int, a slice or an index list behaves '
           'like the plain list (property C20, proved there)',
           'NumPy basic-slice views (out[i, a:b], out[a:b]) alias the buffer; np.empty / fill_diagonal / fancy '
           'assignment out[cols, i] = out[i, cols] as modelled in Model/C05.v']
ASSUMPTIONS = ['signatures are sorted and duplicate-free (outside that the pair distance itself is unspecified)',
               'number of references < 2^31 (the prange index is a C int), array lengths < 2^62',
               'progress meter absent in the model (calls with a meter are judged by the property predicate only)']

CONT = {'array': 0, 'hdf5': 1, 'siglist': 2, 'pylist': 3}
GOOD_DT = ['u2', 'u4', 'u8', 'i2', 'i4', 'i8']
ERRNAME = {3: 'ValueError', 6: 'IndexError'}
NAN_BITS = 2143289344

_state = {}


def setup(ctx):
	from vf import impl
	impl.check_import()
	from gambit._cython import threads
	_state['dir'] = impl.scratch_dir('gambit-verif-c05-')
	_state['h5'] = {}
	_state['nfile'] = 0
	_state['threads0'] = threads.omp_get_max_threads()


def teardown(ctx):
	for h in _state.get('h5', {}).values():
		try:
			h.close()
		except Exception:
			pass
	_state['h5'] = {}
	try:
		from gambit._cython import threads
		threads.omp_set_num_threads(_state.get('threads0', 16))
	except Exception:
		pass


# ---- building implementation inputs ---------------------------------------------------------------

def _kind(dt):
	return [{'u': 0, 'i': 1}.get(dt[0], 2), int(dt[1:]) if dt[1:].isdigit() else 0]


def _sig(vals, dt):
	if dt in GOOD_DT:
		return _arr(vals, dt)
	return np.array(vals, dtype=dt)


def _container(cont, sigs, dt):
	from gambit.sigs.base import SignatureArray, SignatureList, dump_signatures, load_signatures
	from gambit.kmers import KmerSpec
	ks = KmerSpec(11, 'AT')
	arrs = [_sig(s, dt) for s in sigs]
	if cont == 'pylist':
		return arrs
	if cont == 'siglist':
		return SignatureList(arrs, ks, dtype=np.dtype(dt))
	if cont == 'array':
		return SignatureArray(arrs, ks, dtype=np.dtype(dt))
	if cont == 'view':
		pad = [_sig([7, 9], dt)] + arrs + [_sig([3], dt)]
		return SignatureArray(pad, ks, dtype=np.dtype(dt))[1:len(pad) - 1]
	if cont == 'hdf5':
		key = (dt, tuple(tuple(s) for s in sigs))
		h = _state['h5'].get(key)
		if h is None or not h:
			if len(_state['h5']) > 150:
				for old in list(_state['h5'])[:75]:
					try:
						_state['h5'].pop(old).close()
					except Exception:
						pass
			_state['nfile'] += 1
			path = os.path.join(_state['dir'], f'c{_state["nfile"]}.gs')
			dump_signatures(path, SignatureArray(arrs, ks, dtype=np.dtype(dt)), 'hdf5')
			h = load_signatures(path)
			_state['h5'][key] = h
		return h
	raise ValueError(cont)


def _contcode(cont):
	return CONT['array' if cont == 'view' else cont]


def _outbuf(spec):
	"""spec = None | dict(shape=[...], dtype='f4', layout='C'|'F'|'strided') -> ndarray filled with NaN"""
	if spec is None:
		return None
	shape = tuple(spec['shape'])
	dt = np.dtype(spec.get('dtype', 'f4'))
	layout = spec.get('layout', 'C')
	fill = np.nan if dt.kind == 'f' else 77
	if layout == 'F':
		return np.full(shape, fill, dtype=dt, order='F')
	if layout == 'strided':
		big = np.full(tuple(2 * s for s in shape), fill, dtype=dt)
		return big[tuple(slice(0, 2 * s, 2) for s in shape)]
	# -- layouts added by the coverage audit (all are ordinary writable float32 buffers of the right shape)
	if layout == 'neg':           # negative strides in every dimension
		return np.full(shape, fill, dtype=dt)[tuple(slice(None, None, -1) for _ in shape)]
	if layout == 'block':         # block at an offset inside a wider C-order array
		wide = np.full(tuple(s + 5 for s in shape), fill, dtype=dt)
		return wide[tuple(slice(2, 2 + s) for s in shape)]
	if layout == 'T':             # transpose of a C-order array of the reversed shape
		return np.full(shape[::-1], fill, dtype=dt).T
	if layout == 'rowstrided':    # every other row of a taller array (rows unit-stride)
		big = np.full((2 * shape[0],) + shape[1:], fill, dtype=dt)
		return big[::2]
	if layout == 'colstrided':    # every third element along the last axis
		big = np.full(shape[:-1] + (3 * shape[-1],), fill, dtype=dt)
		return big[..., ::3]
	if layout == 'subclass':      # an ndarray subclass
		return np.full(shape, fill, dtype=dt).view(_OutSub)
	if layout == 'memmap' and all(s > 0 for s in shape):   # a buffer backed by a file on disk
		_state['nfile'] = _state.get('nfile', 0) + 1
		mm = np.memmap(os.path.join(_state['dir'], f'out{_state["nfile"]}.bin'), dtype=dt, mode='w+', shape=shape)
		mm[...] = fill
		return mm
	return np.full(shape, fill, dtype=dt)


class _OutSub(np.ndarray):
	pass


def _wire_out(spec, ndim):
	if spec is None:
		return None
	shape = list(spec['shape'])
	isf32 = np.dtype(spec.get('dtype', 'f4')) == np.dtype('f4')
	if len(shape) == ndim == 1:
		cells = [NAN_BITS] * max(0, shape[0])
	elif len(shape) == ndim == 2:
		cells = [[NAN_BITS] * max(0, shape[1]) for _ in range(max(0, shape[0]))]
	else:
		cells = []
	return [[shape, isf32, cells]]


def _set_threads(t):
	from gambit._cython import threads
	threads.omp_set_num_threads(int(t))


def _bits(a):
	a = np.ascontiguousarray(a, dtype=np.float32)
	return a.view(np.uint32).astype(np.int64).tolist()


def _call(fn, out):
	"""-> ('ok', bits, same_buffer) | ('err', name)"""
	try:
		r = fn()
	except (ValueError, IndexError) as e:
		return ('err', type(e).__name__)
	except Exception as e:
		return ('err', type(e).__name__ + ':' + str(e)[:80])
	if not isinstance(r, np.ndarray) or r.dtype != np.float32:
		return ('err', f'returned {type(r).__name__} {getattr(r, "dtype", None)}')
	same = True
	if out is not None:
		same = (r is out)
	return ('ok', _bits(r), same)


def _model_outcome(m):
	if m[0] == 0:
		return ('ok', m[1])
	return ('err', ERRNAME.get(m[1], f'Kernel{m[1]}'))


def _pairbits(cache, a, b, da, db):
	from gambit.metric import jaccarddist
	key = (tuple(a), tuple(b), da, db)
	v = cache.get(key)
	if v is None:
		v = f32_bits(jaccarddist(_sig(a, da), _sig(b, db)))
		cache[key] = v
	return v


def _norm(n, i):
	j = i + n if i < 0 else i
	return j if 0 <= j < n else None


def _select(lst, idxs):
	out = []
	for i in idxs:
		j = _norm(len(lst), i)
		if j is None:
			return None
		out.append(lst[j])
	return out


def _report(ctx, kind, c, runs, expect, model, what_for):
	"""runs: outcomes of the repeated implementation runs; expect: ('ok', bits) from pairwise jaccarddist calls or
	('err', name) / None when the property does not fix the outcome; model: outcome of the model or None"""
	first = runs[0]
	for k, r in enumerate(runs[1:], 1):
		if r != first:
			ctx.violation(kind, c, f'{what_for}: run {k} differs from run 0 under the same inputs (threads={c.get("threads")})',
			              impl=[first, r])
			return
	if first[0] == 'ok' and not first[2]:
		ctx.violation(kind, c, f'{what_for}: result is not the caller-supplied buffer', impl=first[1])
		return
	got = first[:2]
	if expect is not None and got != expect:
		if got[0] == 'err' and expect[0] == 'ok':
			what = f'{what_for} raised {got[1]} although every cell is determined by the pairwise distance (expected {len(expect[1])} row(s)/cell(s))'
		elif got[0] == 'ok' and expect[0] == 'ok':
			what = f'{what_for}: a cell differs bit-wise from gambit.metric.jaccarddist of the pair it stands for'
		else:
			what = f'{what_for}: outcome {got} but expected {expect}'
		ctx.violation(kind, c, what, impl=got, spec=expect, model=model)
		return
	if model is not None and got != model:
		ctx.broke(f'correspondence {kind}', f'{c}: impl {got} model {model}')


def _nontrivial(c, cells, n_refs):
	flat = [x for row in cells for x in (row if isinstance(row, list) else [row])]
	if len(flat) < 2 or len(set(flat)) < 2:
		return False
	cs = c.get('chunksize')
	return bool((cs is not None and 0 < cs < n_refs) or c.get('ri') is not None or c.get('indices') is not None
	            or c.get('out') is not None or c.get('threads', 1) > 1)


# ---- kinds ------------------------------------------------------------------------------------------

def k_array(ctx, cases):
	from gambit.metric import jaccarddist_array
	reqs = [(502, [_contcode(c['cont']), _kind(c['dq']), _kind(c['dr']), c['q'], c['refs'], _wire_out(c.get('out'), 1)])
	        for c in cases]
	ans = ctx.model(reqs) if ctx.model_ok else None
	cache = {}
	for n, c in enumerate(cases):
		good = c['dq'] in GOOD_DT and c['dr'] in GOOD_DT
		q = _sig(c['q'], c['dq'])
		refs = _container(c['cont'], c['refs'], c['dr'])
		_set_threads(c.get('threads', 1))
		runs = []
		for _ in range(c.get('reps', 1)):
			out = _outbuf(c.get('out'))
			runs.append(_call(lambda: jaccarddist_array(q, refs, out=out), out))
		expect = None
		o = c.get('out')
		if good:
			if o is not None and (list(o['shape']) != [len(c['refs'])] or np.dtype(o.get('dtype', 'f4')) != np.dtype('f4')):
				expect = ('err', 'ValueError')
			else:
				expect = ('ok', [_pairbits(cache, c['q'], r, c['dq'], c['dr']) for r in c['refs']])
		model = _model_outcome(ans[n]) if ans is not None else None
		ctx.case(c, nontrivial=bool(expect and expect[0] == 'ok' and _nontrivial(c, expect[1], len(c['refs']))))
		_report(ctx, 'array', c, runs, expect, model, 'jaccarddist_array')


def k_matrix(ctx, cases):
	from gambit.metric import jaccarddist_matrix
	reqs = []
	for c in cases:
		reqs.append((503, [_contcode(c['cont']), _kind(c['dq']), _kind(c['dr']), c['queries'], c['refs'],
		                   None if c.get('ri') is None else [c['ri']], _wire_out(c.get('out'), 2),
		                   None if c.get('chunksize') is None else [c['chunksize']]]))
	ans = ctx.model(reqs) if ctx.model_ok else None
	cache = {}
	for n, c in enumerate(cases):
		good = c['dq'] in GOOD_DT and c['dr'] in GOOD_DT
		queries = [_sig(q, c['dq']) for q in c['queries']]
		if c.get('qcont'):
			queries = _container(c['qcont'], c['queries'], c['dq'])
		refs = _container(c['cont'], c['refs'], c['dr'])
		ri = c.get('ri')
		ri_impl = ri
		if ri is not None and c.get('ri_kind', 'list') != 'list':
			ri_impl = np.array(ri, dtype=c['ri_kind']) if ri else np.empty(0, dtype=c['ri_kind'])
		_set_threads(c.get('threads', 1))
		runs = []
		for _ in range(c.get('reps', 1)):
			out = _outbuf(c.get('out'))
			runs.append(_call(lambda: jaccarddist_matrix(queries, refs, ref_indices=ri_impl, out=out,
			                                              chunksize=c.get('chunksize')), out))
		nq = len(c['queries'])
		nr = len(c['refs']) if ri is None else len(ri)
		sel = c['refs'] if ri is None else _select(c['refs'], ri)
		o = c.get('out')
		cs = c.get('chunksize')
		expect = None
		if o is not None and (list(o['shape']) != [nq, nr] or np.dtype(o.get('dtype', 'f4')) != np.dtype('f4')):
			expect = ('err', 'ValueError')
		elif cs is not None and cs <= 0:
			expect = ('err', 'ValueError')
		elif sel is None:
			# an index out of range: IndexError as soon as its chunk is reached (needs at least one chunk)
			expect = ('err', 'IndexError')
		elif good:
			expect = ('ok', [[_pairbits(cache, q, r, c['dq'], c['dr']) for r in sel] for q in c['queries']])
		model = _model_outcome(ans[n]) if ans is not None else None
		ctx.case(c, nontrivial=bool(expect and expect[0] == 'ok' and _nontrivial(c, expect[1], nr)))
		_report(ctx, 'matrix', c, runs, expect, model, 'jaccarddist_matrix')


def k_pairwise(ctx, cases):
	from gambit.metric import jaccarddist_pairwise
	reqs = []
	for c in cases:
		flat = bool(c.get('flat'))
		reqs.append((505 if flat else 504, [_contcode(c['cont']), _kind(c['d']), c['sigs'],
		                                    None if c.get('indices') is None else [c['indices']],
		                                    _wire_out(c.get('out'), 1 if flat else 2)]))
	ans = ctx.model(reqs) if ctx.model_ok else None
	offs = ctx.model([(512, [len(c['sigs']) if c.get('indices') is None else len(c['indices']), i, j])
	                  for c in cases[:40] for i, j in [(0, 1), (1, 2), (1, 3)]]) if ctx.model_ok else None
	cache = {}
	for n, c in enumerate(cases):
		flat = bool(c.get('flat'))
		good = c['d'] in GOOD_DT
		sigs = _container(c['cont'], c['sigs'], c['d'])
		idx = c.get('indices')
		idx_impl = idx
		if idx is not None and c.get('idx_kind', 'list') != 'list':
			idx_impl = np.array(idx, dtype=c['idx_kind']) if idx else np.empty(0, dtype=c['idx_kind'])
		_set_threads(c.get('threads', 1))
		runs = []
		for _ in range(c.get('reps', 1)):
			out = _outbuf(c.get('out'))
			runs.append(_call(lambda: jaccarddist_pairwise(sigs, indices=idx_impl, flat=flat, out=out), out))
		sel = c['sigs'] if idx is None else _select(c['sigs'], idx)
		m = len(c['sigs']) if idx is None else len(idx)
		shape = [m * (m - 1) // 2] if flat else [m, m]
		o = c.get('out')
		expect = None
		if o is not None and (list(o['shape']) != shape or np.dtype(o.get('dtype', 'f4')) != np.dtype('f4')):
			expect = ('err', 'ValueError')
		elif sel is None:
			expect = ('err', 'IndexError') if m >= 2 else None
		elif good:
			if flat:
				# cell at offset n*i - i(i+1)/2 + (j-i-1) is the pair (i, j), i < j
				cells = [None] * shape[0]
				for i in range(m):
					for j in range(i + 1, m):
						cells[m * i - i * (i + 1) // 2 + (j - i - 1)] = _pairbits(cache, sel[i], sel[j], c['d'], c['d'])
				expect = ('ok', cells)
			else:
				# zero diagonal; cell (i, j) = d(s_i, s_j) computed in that argument order (so symmetry is checked)
				expect = ('ok', [[0 if i == j else _pairbits(cache, sel[i], sel[j], c['d'], c['d']) for j in range(m)]
				                 for i in range(m)])
		model = _model_outcome(ans[n]) if ans is not None else None
		ctx.case(c, nontrivial=bool(expect and expect[0] == 'ok' and m >= 3 and _nontrivial(dict(c, threads=c.get('threads', 1)), expect[1], m)))
		_report(ctx, 'pairwise', c, runs, expect, model, 'jaccarddist_pairwise' + (' (flat)' if flat else ''))
	if offs is not None:
		k = 0
		for c in cases[:40]:
			m = len(c['sigs']) if c.get('indices') is None else len(c['indices'])
			for i, j in [(0, 1), (1, 2), (1, 3)]:
				if offs[k] != m * i - i * (i + 1) // 2 + (j - i - 1):
					ctx.broke('correspondence condensed_offset', f'n={m} i={i} j={j}: model {offs[k]}')
				k += 1


def k_chunks(ctx, cases):
	from gambit.util.misc import chunk_slices
	ans = ctx.model([(501, [c['n'], c['size']]) for c in cases]) if ctx.model_ok else None
	for n, c in enumerate(cases):
		try:
			sl = list(chunk_slices(c['n'], c['size']))
			got = ('ok', [[s.start, s.stop] for s in sl])
			bad_step = [s for s in sl if s.step is not None]
		except ValueError:
			got, bad_step = ('err', 'ValueError'), []
		except Exception as e:
			got, bad_step = ('err', type(e).__name__), []
		ctx.case(c, nontrivial=c['size'] > 0 and c['n'] > c['size'])
		if c['size'] <= 0:
			if got != ('err', 'ValueError'):
				ctx.violation('chunks', c, f'chunk_slices({c["n"]}, {c["size"]}) did not raise ValueError', impl=got)
			ok = True
		else:
			covered = []
			if got[0] == 'ok':
				for a, b in got[1]:
					covered += list(range(c['n']))[a:b]
			ok = got[0] == 'ok' and not bad_step and covered == list(range(max(0, c['n'])))
			if not ok:
				ctx.violation('chunks', c, f'chunk_slices({c["n"]}, {c["size"]}) does not cover range(n) exactly once in order',
				              impl=got, spec=list(range(max(0, c['n']))))
		if ok and ans is not None and _model_outcome(ans[n]) != got:
			ctx.broke('correspondence chunks', f'{c}: impl {got} model {ans[n]}')


def _everyother(a):
	big = np.zeros(2 * len(a), dtype=a.dtype)
	big[::2] = a
	return big[::2]


def k_schedule(ctx, cases):
	"""the compiled prange loop itself, called directly on (values, bounds), many threads / repetitions,
	against the generated model run sequentially and in the iteration order pi"""
	import gambit._cython.metric as cm
	reqs = []
	for c in cases:
		vals = [x for r in c['refs'] for x in r]
		bounds = [0]
		for r in c['refs']:
			bounds.append(bounds[-1] + len(r))
		c['_vb'] = (vals, bounds)
		init = [NAN_BITS] * len(c['refs'])
		reqs.append((506, [c['pi'], c['q'], vals, bounds, init]))
		reqs.append((507, [c['q'], vals, bounds, init]))
		reqs.append((511, c['refs']))
	ans = ctx.model(reqs) if ctx.model_ok else None
	cache = {}
	for n, c in enumerate(cases):
		vals, bounds = c.pop('_vb')
		# the kernel takes unsigned arrays (the wrapper views signed ones as unsigned)
		q = _arr(c['q'], 'u' + c['dq'][1])
		v = _arr(vals, 'u' + c['dr'][1])
		b = np.array(bounds, dtype=np.intp)
		strided = c.get('layout') == 'strided'     # audit: every argument a non-contiguous view
		if strided:
			q, v, b = _everyother(q), _everyother(v), _everyother(b)
		expect = [_pairbits(cache, c['q'], r, c['dq'], c['dr']) for r in c['refs']]
		ctx.case(c, nontrivial=len(set(expect)) >= 2 and c['threads'] > 1)
		_set_threads(c['threads'])
		bad = None
		for rep in range(c.get('reps', 1)):
			out = np.full(len(c['refs']), np.nan, dtype=np.float32)
			if strided:
				out = np.full(2 * len(c['refs']), np.nan, dtype=np.float32)[::2]
			cm._jaccarddist_parallel(q, v, b, out)
			got = _bits(out)
			if got != expect:
				bad = (rep, got)
				break
		if bad:
			ctx.violation('schedule', c, f'_jaccarddist_parallel with {c["threads"]} threads, run {bad[0]}: cells differ from the '
			              f'pairwise distances', impl=bad[1], spec=expect)
			continue
		if ans is not None:
			mo, ms, mc = ans[3 * n], ans[3 * n + 1], ans[3 * n + 2]
			if mc != [vals, bounds]:
				ctx.broke('correspondence concatenated representation', f'{c["refs"]}: model {mc}')
			if ms != [0, expect]:
				ctx.broke('correspondence schedule (sequential model)', f'{c}: impl {expect} model {ms}')
			elif mo != ms:
				ctx.broke('model: iteration order changes the result', f'{c}: order {mo} sequential {ms}')


# ---- coverage-audit kinds: containers / argument forms / call sequences outside the Coq model -------------
# These are judged by the property's predicate alone (every cell = gambit.metric.jaccarddist of the pair it
# stands for, as a binary32 bit pattern; result is the caller's buffer; repeated runs agree).  The model is
# not consulted: AnnotatedSignatures, tuples, foreign bounds dtypes, NumPy-scalar arguments, progress meters,
# signature lists of mixed dtype, shared objects across calls and concurrent callers are not modelled.

XCONT_HOMOG = ['array', 'view', 'hdf5', 'siglist', 'pylist', 'tuple', 'annot-array', 'annot-siglist', 'annot-hdf5',
               'annot-view', 'hdf5-gzip', 'hdf5-group', 'hdf5-annot', 'hdf5-b32', 'bounds-i4', 'bounds-u8', 'bounds-i2',
               'bounds-u4', 'strided-values', 'junk-ends', 'fancy', 'boolsel', 'stepview', 'copy', 'sub-array', 'sub-list',
               'strided-sigs', 'siglist-of-array']
XCONT_HETERO = ['pylist', 'tuple', 'siglist', 'annot-siglist', 'sub-list', 'strided-sigs']
XCONT_MEM = ['array', 'view', 'siglist', 'pylist', 'tuple', 'annot-array', 'bounds-i4', 'junk-ends', 'fancy']
RI_FORMS = ['list', 'tuple', 'range', 'np:i8', 'np:i4', 'np:i2', 'np:i1', 'np:u1', 'np:u2', 'np:u8', 'np:intp', 'np:>i8', 'np:>u2',
            'np-strided', 'np-ro', 'npscalars', 'pyarray']
CS_FORMS = ['int', 'np.int64', 'np.int32', 'np.int16', 'np.intp', 'np.uint8', 'np.uint16', 'np.uint32', 'bool']
CS_LENIENT = ['np.uint64', 'float']      # NumPy 1.x turns 0 + np.uint64(k) into a float: an error is accepted, a wrong cell is not
PROGRESS = [None, 'false', 'true', 'test', 'strict', 'factory', 'config']


def _dlist(dt, n):
	return list(dt) if isinstance(dt, list) else [dt] * n


def _xcont(name, sigs, dts):
	"""-> (container, [closers]); dts = one dtype string or a list with one dtype per signature"""
	from gambit.sigs.base import (SignatureArray, SignatureList, AnnotatedSignatures, SignaturesMeta, dump_signatures,
	                              load_signatures)
	from gambit.kmers import KmerSpec
	ks = KmerSpec(11, 'AT')
	n = len(sigs)
	dl = _dlist(dts, n)
	dt0 = dl[0] if dl else (dts if isinstance(dts, str) else 'u8')
	arrs = [_sig(s, d) for s, d in zip(sigs, dl)]

	def strided(a):
		big = np.zeros(2 * len(a), dtype=a.dtype)
		big[::2] = a
		return big[::2]

	def sa():
		return SignatureArray(arrs, ks, dtype=np.dtype(dt0))

	def newpath(stem='x'):
		_state['nfile'] = _state.get('nfile', 0) + 1
		return os.path.join(_state['dir'], f'{stem}{_state["nfile"]}.gs')

	if name.startswith('annot-'):
		base, closers = _xcont(name[6:], sigs, dts)
		return AnnotatedSignatures(base, ids=[f'g{i}' for i in range(n)], meta=SignaturesMeta(id='audit', id_attr='key')), closers
	if name == 'pylist':
		return arrs, []
	if name == 'tuple':
		return tuple(arrs), []
	if name == 'siglist':
		return SignatureList(arrs, ks, dtype=np.dtype(dt0)), []
	if name == 'sub-list':
		return _SubList(arrs, ks, dtype=np.dtype(dt0)), []
	if name == 'strided-sigs':
		return [strided(a) for a in arrs], []
	if len(set(dl)) > 1:
		raise ValueError(f'{name} needs one dtype')
	if name in ('array', 'view', 'hdf5'):
		return _container(name, sigs, dt0), []
	if name == 'sub-array':
		return _SubArray(arrs, ks, dtype=np.dtype(dt0)), []
	if name == 'copy':
		return SignatureArray(sa()), []
	if name == 'siglist-of-array':
		return SignatureList(sa()), []
	if name.startswith('bounds-'):
		a = sa()
		return SignatureArray.from_arrays(a.values, a.bounds.astype(name[7:]), ks), []
	if name == 'strided-values':
		a = sa()
		return SignatureArray.from_arrays(strided(a.values), a.bounds, ks), []
	if name == 'junk-ends':
		a = sa()
		junk = _sig([1, 1, 0], dt0)
		return SignatureArray.from_arrays(np.concatenate([junk, a.values, junk]), a.bounds + 3, ks), []
	if name in ('fancy', 'boolsel', 'stepview'):
		# a SignatureArray produced by indexing a larger one (int array / bool mask / stepped slice)
		pad = []
		for a in arrs:
			pad += [_sig([2, 9], dt0), a]
		big = SignatureArray(pad + [_sig([5], dt0)], ks, dtype=np.dtype(dt0))
		if name == 'fancy':
			return big[[2 * i + 1 for i in range(n)]], []
		if name == 'boolsel':
			return big[np.array([i % 2 == 1 for i in range(2 * n + 1)], dtype=bool)], []
		return big[1:2 * n + 1:2], []
	if name == 'hdf5-gzip':
		path = newpath('z')
		dump_signatures(path, sa(), 'hdf5', compression='gzip', compression_opts=4)
		h = load_signatures(path)
		return h, [h.close]
	if name == 'hdf5-annot':
		# written through the generic per-signature path, string ids, unusual file name
		path = newpath('a b ü[1] ')
		dump_signatures(path, AnnotatedSignatures(SignatureList(arrs, ks, dtype=np.dtype(dt0)), ids=np.array([f'id {i}' for i in range(n)], dtype=object),
		                                          meta=SignaturesMeta(name='audit')), 'hdf5')
		h = load_signatures(path)
		return h, [h.close]
	if name == 'hdf5-group':
		import h5py
		from gambit.sigs.hdf5 import HDF5Signatures
		f = h5py.File(newpath('g'), 'w')
		h = HDF5Signatures.create(f.create_group('sets/a b'), sa())
		return h, [f.close]
	if name == 'hdf5-b32':
		# a file whose bounds dataset is 32-bit (written by another tool / platform)
		import h5py
		path = newpath('b')
		dump_signatures(path, sa(), 'hdf5')
		with h5py.File(path, 'r+') as f:
			b = f['bounds'][:]
			del f['bounds']
			f.create_dataset('bounds', data=b.astype('i4'))
		h = load_signatures(path)
		return h, [h.close]
	raise ValueError(name)


def _mk_subclasses():
	from gambit.sigs.base import SignatureArray, SignatureList

	class SubArray(SignatureArray):
		pass

	class SubList(SignatureList):
		pass
	return SubArray, SubList


def _SubArray(*a, **kw):
	if 'sub' not in _state:
		_state['sub'] = _mk_subclasses()
	return _state['sub'][0](*a, **kw)


def _SubList(*a, **kw):
	if 'sub' not in _state:
		_state['sub'] = _mk_subclasses()
	return _state['sub'][1](*a, **kw)


def _ri_ok(idx, form):
	"""can the (valid) index list idx be written in this form?"""
	if form == 'range':
		if len(idx) <= 1:
			return True
		step = idx[1] - idx[0]
		return step != 0 and all(b - a == step for a, b in zip(idx, idx[1:]))
	if form.startswith('np:'):
		info = np.iinfo(np.dtype(form[3:]))
		return all(info.min <= i <= info.max for i in idx)
	if form == 'npscalars':
		return all(-128 <= i <= 127 for i in idx)
	return True


def _x_index(idx, form, n=0):
	if idx is None:
		return None
	if form in ('boolmask', 'boollist'):
		# a NumPy-style boolean selection of the references; idx is the equivalent ascending index list
		mask = [i in idx for i in range(n)]
		return np.array(mask, dtype=bool) if form == 'boolmask' else mask
	if form == 'list':
		return list(idx)
	if form == 'tuple':
		return tuple(idx)
	if form == 'range':
		if not idx:
			return range(0)
		if len(idx) == 1:
			return range(idx[0], idx[0] + 1)
		step = idx[1] - idx[0]
		return range(idx[0], idx[-1] + (1 if step > 0 else -1), step)
	if form.startswith('np:'):
		return np.array(idx, dtype=form[3:]) if idx else np.empty(0, dtype=form[3:])
	if form == 'np-strided':
		big = np.full(2 * len(idx), 10 ** 6, dtype=np.int64)
		big[::2] = idx
		return big[::2]
	if form == 'np-ro':
		a = np.array(idx, dtype=np.int64)
		a.flags.writeable = False
		return a
	if form == 'npscalars':
		ts = [np.int64, np.int32, np.int16, np.intp, np.int8]
		return [ts[k % len(ts)](i) if i < 0 else (ts + [np.uint8, np.uint16, np.uint32])[k % 8](i) for k, i in enumerate(idx)]
	if form == 'pyarray':
		import array
		return array.array('q', idx)
	raise ValueError(form)


def _x_chunksize(cs, form):
	if cs is None or form == 'int':
		return cs
	if form == 'bool':
		return True
	if form == 'float':
		return float(cs)
	return getattr(np, form[3:])(cs)


def _x_progress(p):
	from gambit.util.progress import TestProgressMeter, progress_config
	if p is None:
		return None
	if p == 'false':
		return False
	if p == 'true':
		return True
	if p == 'test':
		return TestProgressMeter
	if p == 'strict':
		return progress_config(TestProgressMeter, allow_decrement=False)
	if p == 'factory':
		return lambda total, **kw: TestProgressMeter(total, **kw)
	if p == 'config':       # what gambit.query.query / the dist and tree commands pass
		return progress_config(TestProgressMeter).update(desc='Calculating distances')
	raise ValueError(p)


def _x_flat(flat, form):
	if form == 'np':
		return np.bool_(flat)
	if form == 'int':
		return 1 if flat else 0
	return bool(flat)


def _x_expect(c, cache):
	"""the cells the property fixes for an api case (valid indices only) -> (bits, shape)"""
	fn = c['fn']
	refs = c['refs']
	rd = _dlist(c['rdt'], len(refs))
	idx = c.get('ri')
	if idx is None:
		sel = list(zip(refs, rd))
	else:
		sel = [(refs[_norm(len(refs), i)], rd[_norm(len(refs), i)]) for i in idx]
	m = len(sel)
	if fn == 'array':
		return [_pairbits(cache, c['q'], r, c['qdt'], d) for r, d in sel], [m]
	if fn == 'matrix':
		if c.get('qcont') == 'same':
			qs = list(zip(refs, rd))
		else:
			qs = list(zip(c['queries'], _dlist(c['qdt'], len(c['queries']))))
		return [[_pairbits(cache, q, r, dq, d) for r, d in sel] for q, dq in qs], [len(qs), m]
	if c.get('flat'):
		cells = [None] * (m * (m - 1) // 2)
		for i in range(m):
			for j in range(i + 1, m):
				cells[m * i - i * (i + 1) // 2 + (j - i - 1)] = _pairbits(cache, sel[i][0], sel[j][0], sel[i][1], sel[j][1])
		return cells, [len(cells)]
	return [[0 if i == j else _pairbits(cache, sel[i][0], sel[j][0], sel[i][1], sel[j][1]) for j in range(m)]
	        for i in range(m)], [m, m]


def _x_args(c, objs):
	"""objs: dict(refs=, queries=, q=, ri=) of built implementation objects -> (function, args, kwargs) without `out`"""
	import gambit.metric as gm
	fn, form = c['fn'], c.get('form', 'kw')
	if fn == 'array':
		return gm.jaccarddist_array, [objs['q'], objs['refs']], {}
	if fn == 'matrix':
		opt = [('ref_indices', objs['ri']), ('out', None), ('chunksize', _x_chunksize(c.get('cs'), c.get('cs_form', 'int')))]
		f, args = gm.jaccarddist_matrix, [objs['queries'], objs['refs']]
	else:
		opt = [('indices', objs['ri']), ('flat', _x_flat(c.get('flat'), c.get('flat_form', 'bool'))), ('out', None)]
		f, args = gm.jaccarddist_pairwise, [objs['refs']]
	kw = {}
	if c.get('progress') is not None:
		kw['progress'] = _x_progress(c['progress'])
	if form == 'pos':
		return f, args + [v for _, v in opt], kw
	if form == 'omit':
		kw.update({k: v for k, v in opt if v is not None and k != 'out' and not (k == 'flat' and v is False)})
		return f, args, kw
	kw.update({k: v for k, v in opt if k != 'out'})
	return f, args, kw


def _x_invoke(f, args, kw, out, form):
	import warnings
	with warnings.catch_warnings():
		warnings.simplefilter('ignore')
		if form == 'pos':
			if f.__name__ == 'jaccarddist_array':
				return f(*args, out)
			a = list(args)
			a[3] = out     # jaccarddist_matrix(queries, refs, ref_indices, OUT, chunksize) / jaccarddist_pairwise(sigs, indices, flat, OUT)
			return f(*a, **kw)
		if out is None and form == 'omit':
			return f(*args, **kw)
		return f(*args, out=out, **kw)


def _x_build(c):
	closers = []
	refs, cl = _xcont(c['cont'], c['refs'], c['rdt'])
	closers += cl
	objs = dict(refs=refs, ri=_x_index(c.get('ri'), c.get('ri_form', 'list'), len(c['refs'])), q=None, queries=None)
	if c['fn'] == 'array':
		objs['q'] = _sig(c['q'], c['qdt'])
		if c.get('qform') == 'strided':
			big = np.zeros(2 * len(objs['q']), dtype=objs['q'].dtype)
			big[::2] = objs['q']
			objs['q'] = big[::2]
	elif c['fn'] == 'matrix':
		if c.get('qcont') == 'same':
			objs['queries'] = refs
		else:
			objs['queries'], cl = _xcont(c.get('qcont') or 'pylist', c['queries'], c['qdt'])
			closers += cl
	return objs, closers


def _close(closers):
	for f in closers:
		try:
			f()
		except Exception:
			pass


def _x_features(c):
	"""does the case carry one of the forms this stream exists for? (for the non-triviality rule)"""
	return bool(c['cont'] not in ('array', 'pylist', 'siglist', 'hdf5') or isinstance(c['rdt'], list) or c.get('qcont')
	            or c.get('ri_form', 'list') != 'list' or c.get('cs_form', 'int') != 'int' or c.get('form', 'kw') != 'kw'
	            or c.get('progress') or c.get('flat_form', 'bool') != 'bool' or c.get('qform')
	            or (c.get('out') or {}).get('layout', 'C') != 'C')


def k_api(ctx, cases):
	cache = {}
	for c in cases:
		expect_cells, shape = _x_expect(c, cache)
		flat = [x for row in expect_cells for x in (row if isinstance(row, list) else [row])]
		ctx.case(c, nontrivial=len(set(flat)) >= 2 and _x_features(c))
		closers = []
		try:
			objs, closers = _x_build(c)
			f, args, kw = _x_args(c, objs)
			_set_threads(c.get('threads', 1))
			runs = []
			for _ in range(c.get('reps', 1)):
				out = _outbuf(dict(c['out'], shape=shape)) if c.get('out') else None
				runs.append(_call(lambda: _x_invoke(f, args, kw, out, c.get('form', 'kw')), out))
		finally:
			_close(closers)
		if c.get('lenient') and runs[0][0] == 'err' and all(r == runs[0] for r in runs):
			ctx.count('api:accepted-error:' + runs[0][1].split(':')[0])
			continue
		_report(ctx, 'api', c, runs, ('ok', expect_cells), None,
		        f'jaccarddist_{c["fn"]} [{c["cont"]}{"/" + str(c.get("qcont")) if c.get("qcont") else ""}, indices as {c.get("ri_form", "-")}, '
		        f'chunksize as {c.get("cs_form", "-")}, call form {c.get("form", "kw")}, progress {c.get("progress")}]')


def _call_obj(fn):
	"""-> (outcome, returned object)"""
	try:
		r = fn()
	except Exception as e:
		return ('err', type(e).__name__ + ':' + str(e)[:80]), None
	if not isinstance(r, np.ndarray) or r.dtype != np.float32:
		return ('err', f'returned {type(r).__name__} {getattr(r, "dtype", None)}'), None
	return ('ok', _bits(r)), r


def k_seq(ctx, cases):
	"""several calls one after the other on the SAME container, index object and (for steps with out='shared') the same
	output buffer; every result is compared at once and, for results the function allocated itself, again after the
	last call (a later call must not overwrite an array handed out earlier)"""
	cache = {}
	for c in cases:
		closers = []
		try:
			refs, closers = _xcont(c['cont'], c['refs'], c['rdt'])
			ri = _x_index(c.get('ri'), c.get('ri_form', 'list'), len(c['refs']))
			shared = {}
			done = []
			nontriv = False
			for k, s in enumerate(c['steps']):
				sc = dict(s, refs=c['refs'], rdt=c['rdt'], cont=c['cont'], ri=c.get('ri') if s['fn'] != 'array' else None)
				expect, shape = _x_expect(sc, cache)
				flatx = [x for row in expect for x in (row if isinstance(row, list) else [row])]
				nontriv = nontriv or (k > 0 and len(set(flatx)) >= 2)
				objs = dict(refs=refs, ri=ri if s['fn'] != 'array' else None, q=None, queries=None)
				if s['fn'] == 'array':
					objs['q'] = _sig(s['q'], s['qdt'])
				elif s['fn'] == 'matrix':
					objs['queries'] = refs if s.get('qcont') == 'same' else [_sig(q, s['qdt']) for q in s['queries']]
				f, args, kw = _x_args(sc, objs)
				if s['out'] == 'shared':
					key = (s['fn'], bool(s.get('flat')), tuple(shape))
					if key not in shared:
						shared[key] = np.full(tuple(shape), np.nan, dtype=np.float32)
					out = shared[key]
				elif s['out'] == 'fresh':
					out = np.full(tuple(shape), np.nan, dtype=np.float32)
				else:
					out = None
				_set_threads(s.get('threads', 1))
				got, obj = _call_obj(lambda: _x_invoke(f, args, kw, out, 'kw'))
				done.append((k, s, expect, got, obj, out))
		finally:
			_close(closers)
		ctx.case(c, nontrivial=nontriv)
		for k, s, expect, got, obj, out in done:
			what = f'call {k} of a sequence on shared objects (jaccarddist_{s["fn"]}, out={s["out"]})'
			if got != ('ok', expect):
				ctx.violation('sequence', c, f'{what}: a cell differs from gambit.metric.jaccarddist of the pair it stands for '
				              f'(or the call failed)', impl=got, spec=expect)
				break
			if out is not None and obj is not out:
				ctx.violation('sequence', c, f'{what}: result is not the caller-supplied buffer', impl=got)
				break
			if s['out'] != 'shared' and _bits(obj) != expect:
				ctx.violation('sequence', c, f'{what}: the returned array no longer holds its distances after later calls '
				              f'(results of different calls share memory)', impl=_bits(obj), spec=expect)
				break


def k_conc(ctx, cases):
	"""bulk calls issued at the same time from several Python threads (the kernel releases the GIL), each with its own
	OpenMP thread count; in-memory containers only"""
	import threading
	cache = {}
	for c in cases:
		jobs = c['jobs']
		built = []
		for j in jobs:
			objs, _ = _x_build(j)
			f, args, kw = _x_args(j, objs)
			built.append((f, args, kw))
		barrier = threading.Barrier(len(jobs))
		results = [[] for _ in jobs]

		def work(k):
			f, args, kw = built[k]
			_set_threads(jobs[k].get('threads', 1))
			try:
				barrier.wait(timeout=30)
			except threading.BrokenBarrierError:
				pass
			for _ in range(c.get('reps', 1) * (20 if ctx.replaying else 1)):    # a race does not show on every run
				results[k].append(_call_obj(lambda: _x_invoke(f, args, kw, None, 'kw'))[0])
		ths = [threading.Thread(target=work, args=(k,)) for k in range(len(jobs))]
		for t in ths:
			t.start()
		for t in ths:
			t.join()
		nontriv = False
		bad = None
		for k, j in enumerate(jobs):
			expect, _ = _x_expect(j, cache)
			flatx = [x for row in expect for x in (row if isinstance(row, list) else [row])]
			nontriv = nontriv or len(set(flatx)) >= 2
			for rep, got in enumerate(results[k]):
				if got != ('ok', expect) and bad is None:
					bad = (k, rep, got, expect)
		ctx.case(c, nontrivial=nontriv and len(jobs) >= 2)
		if bad:
			k, rep, got, expect = bad
			ctx.violation('concurrent', c, f'job {k} (jaccarddist_{jobs[k]["fn"]}), run {rep}, issued together with {len(jobs) - 1} other '
			              f'bulk call(s) from other Python threads: a cell differs from the pairwise distance (or the call failed)',
			              impl=got, spec=expect)


def _env_child():
	"""child process of k_env: thread count and schedule come from the OMP_* environment, never from omp_set_num_threads"""
	import sys
	import json
	c = json.load(sys.stdin)
	from gambit._cython import threads
	res = []
	for j in c['jobs']:
		objs, _ = _x_build(j)
		f, args, kw = _x_args(j, objs)
		res.append([_call_obj(lambda: _x_invoke(f, args, kw, None, 'kw'))[0] for _ in range(c.get('reps', 1))])
	json.dump(dict(max_threads=threads.omp_get_max_threads(), results=res), sys.stdout)


def k_env(ctx, cases):
	"""the OpenMP thread count given the way users give it: OMP_NUM_THREADS (and OMP_DYNAMIC / OMP_THREAD_LIMIT /
	OMP_SCHEDULE) in the environment of a fresh interpreter; in-memory containers only"""
	import subprocess
	import sys
	import json
	cache = {}
	for c in cases:
		env = {k: v for k, v in os.environ.items() if not k.startswith('OMP_') or k == 'OMP_WAIT_POLICY'}
		env.update(c['env'])
		nontriv = False
		expects = []
		for j in c['jobs']:
			expect, _ = _x_expect(j, cache)
			flatx = [x for row in expect for x in (row if isinstance(row, list) else [row])]
			nontriv = nontriv or len(set(flatx)) >= 2
			expects.append(expect)
		try:
			p = subprocess.run([sys.executable, '-c', 'from harness import c05; c05._env_child()'], input=json.dumps(c),
			                   capture_output=True, text=True, env=env, timeout=600)
			ans = json.loads(p.stdout) if p.returncode == 0 else None
		except Exception as e:
			p, ans = None, None
			err = repr(e)
		if ans is None:
			ctx.case(c, nontrivial=False)
			ctx.broke('envthreads child process', f'env {c["env"]}: rc {getattr(p, "returncode", None)} {(p.stderr[-600:] if p else err)}')
			continue
		ctx.count(f'envthreads:max_threads={ans["max_threads"]}')
		ctx.case(c, nontrivial=nontriv and ans['max_threads'] > 1)
		for k, (j, expect) in enumerate(zip(c['jobs'], expects)):
			bad = [r for r in ans['results'][k] if r != ['ok', expect]]
			if bad:
				ctx.violation('envthreads', c, f'job {k} (jaccarddist_{j["fn"]}, {j["cont"]}) in a fresh interpreter with {c["env"]} '
				              f'({ans["max_threads"]} OpenMP threads): a cell differs from the pairwise distance (or the call failed)',
				              impl=bad[0], spec=expect)
				break


KINDS = {'array': k_array, 'matrix': k_matrix, 'pairwise': k_pairwise, 'chunks': k_chunks, 'schedule': k_schedule,
         'api': k_api, 'sequence': k_seq, 'concurrent': k_conc, 'envthreads': k_env}
SHRINK = False
BATCH = 400


# ---- generators -------------------------------------------------------------------------------------

def _rand_sig(rng, size, universe):
	size = min(size, universe)
	return sorted(rng.sample(range(universe), size))


def _rand_coll(rng, n, maxsize, universe):
	"""collection with empty signatures, one-element signatures and duplicates of each other"""
	out = []
	for _ in range(n):
		t = rng.random()
		if out and t < 0.2:
			out.append(list(rng.choice(out)))
		elif t < 0.3:
			out.append([])
		elif t < 0.4:
			out.append([rng.randrange(universe)])
		else:
			out.append(_rand_sig(rng, rng.randint(1, maxsize), universe))
	return out


def _rand_indices(rng, n, allow_neg=True):
	if n == 0:
		return []
	k = rng.choice([1, n, n + 2, 2 * n, rng.randint(0, n + 3)])
	lo = -n if allow_neg else 0
	return [rng.randint(lo, n - 1) for _ in range(k)]


def generate(ctx):
	rng = ctx.rng
	ctx.rule(RULE)
	conts = ['array', 'hdf5', 'siglist', 'pylist', 'view']
	tcycle = itertools.cycle(range(1, 17))
	dcycle = itertools.cycle([(a, b) for a in GOOD_DT for b in GOOD_DT])

	# -- chunk_slices: exhaustive small scope
	nmax = ctx.pick(14, 40)
	for n in range(0, nmax + 1):
		for size in range(-2, n + 4):
			ctx.count('stream:chunks-exhaustive')
			yield 'chunks', dict(n=n, size=size)
	yield 'chunks', dict(n=-3, size=2)
	yield 'chunks', dict(n=10 ** 6, size=10 ** 5 - 1)

	# -- jaccarddist_array: exhaustive over collections of <= 3 signatures from the subsets of {0, 1}, and of {3,5,8} tails
	pool = [[], [0], [1], [0, 1]]
	count = 0
	for k in range(0, 4):
		for refs in itertools.product(pool, repeat=k):
			for q in pool:
				for cont in ('array', 'siglist', 'pylist'):
					dq, dr = next(dcycle)
					count += 1
					yield 'array', dict(cont=cont, dq=dq, dr=dr, q=q, refs=[list(r) for r in refs], threads=next(tcycle))
	ctx.count('stream:array-exhaustive', count)
	ctx.exhaustive = True
	ctx.extra['exhaustive_scope'] = ('chunk_slices(n, size) for all 0 <= n <= %d, -2 <= size <= n+3; jaccarddist_array for every '
	                                 'collection of <= 3 signatures drawn from the 4 subsets of {0,1} x 4 queries x 3 in-memory '
	                                 'containers (dtype pair and thread count cycling); jaccarddist_matrix for every chunk size '
	                                 '1..n+2 and None on fixed families of n <= 5 references x 5 containers' % nmax)

	# -- fixed families (empty / one-element / duplicate signatures; n = 0, 1, 2, ...)
	fams = [
		[],
		[[]],
		[[4]],
		[[], []],
		[[1, 2, 3], [1, 2, 3]],
		[[], [5], [5]],
		[[1, 2, 3], [], [2, 3, 4, 9], [1, 2, 3]],
		[[0, 2, 4, 6], [1, 3, 5], [0, 1, 2, 3, 4, 5, 6], [6], [], ],
		[[10, 20, 30], [10, 20], [10], [20, 30, 40, 50], [10, 20, 30]],
	]
	qfams = [[], [[2, 3]], [[], [1, 2, 3, 10]], [[5], [0, 2, 4, 6], [10, 20, 30]]]

	# -- jaccarddist_matrix: every chunk size 1..n+2 and None x containers x index selections
	for refs in fams:
		n = len(refs)
		for cont in conts:
			for queries in qfams:
				sels = [None]
				if n:
					sels += [list(range(n - 1, -1, -1)), [0] * (n + 1), [-1, 0, -1], _rand_indices(rng, n)]
				else:
					sels += [[]]
				for ri in sels:
					nr = n if ri is None else len(ri)
					for cs in [None] + list(range(1, nr + 3)):
						dq, dr = next(dcycle)
						ctx.count('stream:matrix-families')
						yield 'matrix', dict(cont=cont, dq=dq, dr=dr, queries=queries, refs=refs, ri=ri,
						                     ri_kind=rng.choice(['list', 'i8', 'i4', 'u2']) if ri is not None and min(ri, default=0) >= 0 else rng.choice(['list', 'i8', 'i2']),
						                     chunksize=cs, threads=next(tcycle),
						                     out=rng.choice([None, None, dict(shape=[len(queries), nr], layout=rng.choice(['C', 'F', 'strided']))]))

	# -- jaccarddist_pairwise: families x containers x flat x selections x buffers
	for sigs in fams:
		n = len(sigs)
		for cont in conts:
			for flat in (False, True):
				sels = [None]
				if n:
					sels += [list(range(n - 1, -1, -1)), [0, 0, n - 1], [-1], _rand_indices(rng, n)]
				else:
					sels += [[]]
				for idx in sels:
					m = n if idx is None else len(idx)
					shape = [m * (m - 1) // 2] if flat else [m, m]
					for out in (None, dict(shape=shape, layout='C'), dict(shape=shape, layout='strided')):
						ctx.count('stream:pairwise-families')
						yield 'pairwise', dict(cont=cont, d=rng.choice(GOOD_DT), sigs=sigs, indices=idx,
						                       idx_kind=rng.choice(['list', 'i8']), flat=flat, out=out, threads=next(tcycle))

	# -- the prange loop itself: more threads than references, repeated runs under the dynamic schedule
	nsched = ctx.pick(120, 1200)
	for _ in range(nsched):
		n = rng.choice([0, 1, 2, 3, 5, 8, 17, 40])
		refs = _rand_coll(rng, n, rng.choice([3, 30, 300]), rng.choice([8, 64, 4096]))
		q = _rand_sig(rng, rng.choice([0, 1, 5, 50, 300]), 4096)
		pi = list(range(n))
		rng.shuffle(pi)
		dq, dr = next(dcycle)
		ctx.count('stream:schedule')
		yield 'schedule', dict(q=q, refs=refs, pi=pi, dq=dq, dr=dr, threads=rng.randint(1, 16), reps=ctx.pick(8, 40))

	# -- random structured bulk calls
	nrand = ctx.pick(260, 3000)
	for _ in range(nrand):
		n = rng.choice([0, 1, 2, 3, 4, 6, 9, 13, 24])
		universe = rng.choice([6, 40, 1000, 60000])
		refs = _rand_coll(rng, n, rng.choice([2, 10, 120]), universe)
		cont = rng.choice(conts)
		dq, dr = next(dcycle)
		threads = rng.randint(1, 16)
		which = rng.choice(['array', 'matrix', 'matrix', 'pairwise'])
		reps = rng.choice([1, 1, 3])
		if which == 'array':
			out = rng.choice([None, dict(shape=[n], layout=rng.choice(['C', 'strided']))])
			ctx.count('stream:random-array')
			yield 'array', dict(cont=cont, dq=dq, dr=dr, q=_rand_sig(rng, rng.randint(0, 60), universe), refs=refs,
			                    out=out, threads=threads, reps=reps)
		elif which == 'matrix':
			queries = _rand_coll(rng, rng.choice([0, 1, 2, 5]), rng.choice([2, 10, 120]), universe)
			if refs and rng.random() < 0.4:
				queries = queries + [list(rng.choice(refs))]
			ri = rng.choice([None, _rand_indices(rng, n)]) if n else rng.choice([None, []])
			nr = n if ri is None else len(ri)
			cs = rng.choice([None, 1, 2, 3, max(1, nr - 1), max(1, nr), nr + 1, nr + 2, rng.randint(1, nr + 3)])
			out = rng.choice([None, None, dict(shape=[len(queries), nr], layout=rng.choice(['C', 'F', 'strided']))])
			ctx.count('stream:random-matrix')
			yield 'matrix', dict(cont=cont, qcont=rng.choice([None, None, 'array', 'siglist']), dq=dq, dr=dr, queries=queries,
			                     refs=refs, ri=ri, ri_kind=rng.choice(['list', 'i8']), chunksize=cs, out=out,
			                     threads=threads, reps=reps)
		else:
			flat = rng.random() < 0.5
			idx = rng.choice([None, _rand_indices(rng, n)]) if n else rng.choice([None, []])
			m = n if idx is None else len(idx)
			shape = [m * (m - 1) // 2] if flat else [m, m]
			out = rng.choice([None, dict(shape=shape, layout=rng.choice(['C', 'F', 'strided']))])
			ctx.count('stream:random-pairwise')
			yield 'pairwise', dict(cont=cont, d=dr, sigs=refs, indices=idx, idx_kind=rng.choice(['list', 'i8']), flat=flat,
			                       out=out, threads=threads, reps=reps)

	# -- malformed stream: wrong buffers, chunk sizes, indices, dtypes
	refs = [[1, 2, 3], [], [2, 3, 4, 9], [1, 2, 3]]
	queries = [[2, 3], [1]]
	for cont in conts:
		for out in (dict(shape=[3]), dict(shape=[5]), dict(shape=[4], dtype='f8'), dict(shape=[4], dtype='i4'),
		            dict(shape=[4, 1]), dict(shape=[2, 2]), dict(shape=[3], dtype='f8')):
			ctx.count('stream:malformed-array-out')
			yield 'array', dict(cont=cont, dq='u2', dr='u4', q=[2, 3], refs=refs, out=out, threads=2)
		for out in (dict(shape=[2, 3]), dict(shape=[4, 2]), dict(shape=[8]), dict(shape=[2, 4], dtype='f8'),
		            dict(shape=[2, 4, 1]), dict(shape=[1, 4], dtype='f8')):
			for cs in (None, 2):
				ctx.count('stream:malformed-matrix-out')
				yield 'matrix', dict(cont=cont, dq='u2', dr='u4', queries=queries, refs=refs, ri=None, chunksize=cs, out=out, threads=2)
		for cs in (0, -1, -5):
			for out in (None, dict(shape=[2, 4]), dict(shape=[2, 3])):
				ctx.count('stream:malformed-chunksize')
				yield 'matrix', dict(cont=cont, dq='u2', dr='u4', queries=queries, refs=refs, ri=None, chunksize=cs, out=out, threads=1)
			yield 'matrix', dict(cont=cont, dq='u2', dr='u4', queries=[], refs=[], ri=None, chunksize=cs, out=None, threads=1)
		for ri in ([0, 4], [-5], [1, 2, 3, 4, 0], [0, 1, 2, 7]):
			for cs in (None, 1, 2, 3):
				ctx.count('stream:malformed-indices')
				yield 'matrix', dict(cont=cont, dq='u2', dr='u4', queries=queries, refs=refs, ri=ri, chunksize=cs, out=None, threads=1)
			for flat in (False, True):
				yield 'pairwise', dict(cont=cont, d='u4', sigs=refs, indices=ri, flat=flat, out=None, threads=1)
		for flat, out in ((False, dict(shape=[4, 3])), (False, dict(shape=[6])), (False, dict(shape=[4, 4], dtype='f8')),
		                  (True, dict(shape=[5])), (True, dict(shape=[4, 4])), (True, dict(shape=[6], dtype='f8')),
		                  (True, dict(shape=[7], dtype='f8'))):
			ctx.count('stream:malformed-pairwise-out')
			yield 'pairwise', dict(cont=cont, d='u4', sigs=refs, indices=None, flat=flat, out=out, threads=2)
	for cont in ('array', 'siglist', 'pylist'):
		for dq, dr in (('u1', 'u2'), ('u2', 'u1'), ('f4', 'u2'), ('u2', 'f8'), ('i1', 'i1')):
			for r in (refs, []):
				ctx.count('stream:malformed-dtype')
				yield 'array', dict(cont=cont, dq=dq, dr=dr, q=[2, 3], refs=r, threads=1)
				yield 'matrix', dict(cont=cont, dq=dq, dr=dr, queries=queries, refs=r, ri=None, chunksize=None, out=None, threads=1)

	# ======== streams added by the coverage audit (see the table in the module docstring) ========================
	yield from _audit_streams(ctx)


def _top(dt):
	bits = 8 * int(dt[1:])
	return 2 ** (bits - 1) if dt[0] == 'i' else 2 ** bits


def _wide_sig(rng, dt, k=None):
	"""sorted distinct values spread over the whole range of dt, clustered at 0, 2^15, 2^16, 2^31, 2^32, 2^63, 2^64 so
	that values of different signatures coincide exactly or modulo 2^16 / 2^32 (what a narrowing cast would confuse)"""
	top = _top(dt)
	offs = [o for o in (0, 2 ** 15 - 6, 2 ** 16 - 6, 2 ** 16, 2 ** 31 - 6, 2 ** 32 - 6, 2 ** 32, 2 ** 32 + 2 ** 16, 2 ** 48, 2 ** 63 - 6,
	                    2 ** 63, 2 ** 64 - 6) if o < top]
	pool = sorted({o + b for o in offs for b in range(6) if o + b < top})
	k = rng.choice([0, 1, 2, 3, 5, 8, 13]) if k is None else k
	return sorted(rng.sample(pool, min(k, len(pool))))


def _coll(rng, n, dts, wide):
	dl = _dlist(dts, n)
	if not wide:
		return _rand_coll(rng, n, rng.choice([2, 6, 20]), rng.choice([6, 40, 1000, 30000]))
	out = []
	for d in dl:
		if out and rng.random() < 0.25:
			out.append([v for v in rng.choice(out) if v < _top(d)])
		else:
			out.append(_wide_sig(rng, d))
	return out


def _api_case(rng, fn=None, n=None, wide=None, hetero=False, **over):
	fn = fn or rng.choice(['array', 'matrix', 'matrix', 'pairwise'])
	n = rng.choice([0, 1, 2, 3, 4, 6, 9]) if n is None else n
	wide = (rng.random() < 0.5) if wide is None else wide
	rdt = [rng.choice(GOOD_DT) for _ in range(n)] if hetero and n >= 2 else rng.choice(GOOD_DT)
	c = dict(fn=fn, cont='array', refs=_coll(rng, n, rdt, wide), rdt=rdt, threads=rng.randint(1, 16), reps=rng.choice([1, 1, 2]))
	if fn == 'array':
		c['qdt'] = rng.choice(GOOD_DT)
		c['q'] = _coll(rng, 1, c['qdt'], wide)[0] if rng.random() < 0.8 else []
	elif fn == 'matrix':
		nq = rng.choice([1, 2, 3])
		c['qdt'] = [rng.choice(GOOD_DT) for _ in range(nq)] if hetero and nq >= 2 else rng.choice(GOOD_DT)
		c['queries'] = _coll(rng, nq, c['qdt'], wide)
		c['ri'] = rng.choice([None, _rand_indices(rng, n)]) if n else rng.choice([None, []])
		nr = n if c['ri'] is None else len(c['ri'])
		c['cs'] = rng.choice([None, 1, 2, 3, max(1, nr - 1), nr + 1, rng.randint(1, nr + 3)])
	else:
		c['flat'] = rng.random() < 0.5
		c['ri'] = rng.choice([None, _rand_indices(rng, n)]) if n else rng.choice([None, []])
	c.update(over)
	return c


def _fit_index_form(rng, c, form):
	"""make the index selection of c expressible in `form` (draw a new selection if needed)"""
	n = len(c['refs'])
	if c.get('ri') is None or not _ri_ok(c['ri'], form):
		if n == 0:
			c['ri'] = []
		elif form == 'range':
			step = rng.choice([1, 2, -1, -2, 3])
			start = rng.randint(-n, n - 1)
			c['ri'] = [i for i in range(start, start + step * rng.randint(1, n + 1), step) if -n <= i < n]
		elif form in ('np:u1', 'np:u2', 'np:u8', 'np:>u2'):
			c['ri'] = [rng.randrange(n) for _ in range(rng.choice([1, n, n + 2]))]
		else:
			c['ri'] = _rand_indices(rng, n)
	c['ri_form'] = form
	return c


def _audit_streams(ctx):
	rng = ctx.rng
	mem = ['array', 'siglist', 'pylist', 'view']
	conts5 = ['array', 'hdf5', 'siglist', 'pylist', 'view']
	tcycle = itertools.cycle(range(1, 17))
	dcycle = itertools.cycle([(a, b) for a in GOOD_DT for b in GOOD_DT])
	K = ctx.pick(2, 6)

	# -- (a) more caller-supplied buffer layouts, through the modelled kinds (model compared as well)
	lay2 = ['neg', 'block', 'T', 'rowstrided', 'colstrided', 'subclass', 'memmap']
	for lay in lay2:
		for cont in conts5:
			for _ in range(2 * K):
				n = rng.choice([2, 3, 5, 8])
				refs = _rand_coll(rng, n, 10, rng.choice([6, 40]))
				dq, dr = next(dcycle)
				ctx.count('stream:audit-out-layouts')
				yield 'array', dict(cont=cont, dq=dq, dr=dr, q=_rand_sig(rng, rng.randint(0, 6), 40), refs=refs,
				                    out=dict(shape=[n], layout=lay), threads=next(tcycle), reps=2)
				queries = _rand_coll(rng, rng.choice([1, 2, 3]), 10, 40)
				ri = rng.choice([None, _rand_indices(rng, n)])
				nr = n if ri is None else len(ri)
				yield 'matrix', dict(cont=cont, dq=dq, dr=dr, queries=queries, refs=refs, ri=ri, ri_kind='list',
				                     chunksize=rng.choice([None, 1, 2, 3, nr]), out=dict(shape=[len(queries), nr], layout=lay),
				                     threads=next(tcycle), reps=2)
				for flat in (False, True):
					idx = rng.choice([None, _rand_indices(rng, n)])
					m = n if idx is None else len(idx)
					yield 'pairwise', dict(cont=cont, d=dr, sigs=refs, indices=idx, idx_kind='list', flat=flat,
					                       out=dict(shape=[m * (m - 1) // 2] if flat else [m, m], layout=lay), threads=next(tcycle))

	# -- (b) values over the whole range of each dtype (>= 2^16, 2^32, 2^63), mixed widths, through the modelled kinds
	for _ in range(120 * K):
		dq, dr = next(dcycle)
		n = rng.choice([1, 2, 3, 5, 8])
		refs = _coll(rng, n, dr, True)
		cont = rng.choice(conts5)
		which = rng.choice(['array', 'matrix', 'pairwise'])
		ctx.count('stream:audit-wide-values')
		if which == 'array':
			yield 'array', dict(cont=cont, dq=dq, dr=dr, q=_wide_sig(rng, dq), refs=refs, threads=next(tcycle),
			                    out=rng.choice([None, dict(shape=[n], layout='strided')]))
		elif which == 'matrix':
			queries = [_wide_sig(rng, dq) for _ in range(rng.choice([1, 2, 3]))]
			ri = rng.choice([None, _rand_indices(rng, n)])
			nr = n if ri is None else len(ri)
			yield 'matrix', dict(cont=cont, qcont=rng.choice([None, 'array', 'siglist']), dq=dq, dr=dr, queries=queries, refs=refs,
			                     ri=ri, ri_kind='list', chunksize=rng.choice([None, 1, 2, nr + 1]), out=None, threads=next(tcycle))
		else:
			yield 'pairwise', dict(cont=cont, d=dr, sigs=refs, indices=rng.choice([None, _rand_indices(rng, n)]), idx_kind='list',
			                       flat=rng.random() < 0.5, out=None, threads=next(tcycle))

	# -- (c) chunk sizes far beyond the number of references (Python ints of any size), through the modelled kind
	for cs in (2 ** 31 - 1, 2 ** 31, 2 ** 32, 2 ** 63 - 1, 2 ** 63, 2 ** 64, 10 ** 30):
		for cont in conts5:
			for ri in (None, [2, 0, 0, -1]):
				dq, dr = next(dcycle)
				ctx.count('stream:audit-huge-chunksize')
				yield 'matrix', dict(cont=cont, dq=dq, dr=dr, queries=[[2, 3], []], refs=[[1, 2, 3], [], [2, 3, 4, 9]], ri=ri,
				                     ri_kind='list', chunksize=cs, out=rng.choice([None, dict(shape=[2, 3 if ri is None else 4])]),
				                     threads=next(tcycle))

	# -- (d) many references (hundreds to a thousand) with every thread count class and chunk sizes around 2^k
	for n in ctx.pick([100, 257, 1000], [100, 257, 1000, 1000, 4097]):
		refs = _rand_coll(rng, n, 12, 60)
		for cont in ('array', 'hdf5', 'pylist', 'annot-array'):
			ctx.count('stream:audit-many-references')
			yield 'api', dict(fn='array', cont=cont, refs=refs, rdt='u4', q=_rand_sig(rng, 8, 60), qdt='u2', threads=16, reps=2)
			ri = [rng.randrange(-n, n) for _ in range(n + 7)]
			yield 'api', dict(fn='matrix', cont=cont, refs=refs, rdt='u4', queries=_rand_coll(rng, 2, 12, 60), qdt='u8', ri=ri,
			                  ri_form='np:i8', cs=rng.choice([63, 64, 65, 255, 256, n - 1]), threads=rng.choice([3, 7, 16]), reps=1)
		if n <= 260:
			ctx.count('stream:audit-many-references')
			yield 'api', dict(fn='pairwise', cont='array', refs=refs, rdt='u4', flat=True, ri=None, threads=16, reps=1)
	# one very long signature among short ones (unbalanced iterations under the dynamic schedule)
	for _ in range(2 * K):
		refs = _rand_coll(rng, 12, 5, 40)
		refs[rng.randrange(12)] = sorted(rng.sample(range(400000), 100000))
		ctx.count('stream:audit-many-references')
		yield 'api', dict(fn='array', cont='array', refs=refs, rdt='u4', q=sorted(rng.sample(range(400000), 50000)), qdt='u4',
		                  threads=rng.choice([2, 5, 16]), reps=3)

	# -- (d2) the compiled loop called directly with non-contiguous query / values / bounds / out
	for _ in range(20 * K):
		n = rng.choice([0, 1, 2, 5, 17, 40])
		refs = _rand_coll(rng, n, rng.choice([3, 30]), rng.choice([8, 64, 4096]))
		pi = list(range(n))
		rng.shuffle(pi)
		dq, dr = next(dcycle)
		ctx.count('stream:audit-kernel-strided')
		yield 'schedule', dict(q=_rand_sig(rng, rng.choice([0, 1, 5, 50]), 4096), refs=refs, pi=pi, dq=dq, dr=dr,
		                       threads=rng.randint(1, 16), reps=4, layout='strided')

	for cont in XCONT_HOMOG:
		for fn in ('array', 'matrix', 'pairwise'):
			for k in range(3 * K):
				ctx.count('stream:audit-containers')
				c = _api_case(rng, fn=fn, n=rng.choice([0, 1, 2, 3, 5, 8]) if k else 4, cont=cont)
				if fn == 'matrix' and rng.random() < 0.5:
					c['qcont'] = rng.choice(XCONT_HOMOG + ['same'])
					if c['qcont'] not in XCONT_HETERO and isinstance(c['qdt'], list):
						c['qdt'] = c['qdt'][0]
				if rng.random() < 0.3:
					c['out'] = dict(layout=rng.choice(['C', 'F', 'strided', 'neg', 'block']))
				yield 'api', c

	# -- (f) every way of writing the index selection
	for form in RI_FORMS:
		for fn in ('matrix', 'pairwise'):
			for cont in ('array', 'hdf5', 'siglist', 'pylist', 'annot-array'):
				for _ in range(K):
					ctx.count('stream:audit-index-forms')
					yield 'api', _fit_index_form(rng, _api_case(rng, fn=fn, n=rng.choice([1, 2, 3, 5, 8]), cont=cont), form)

	# -- (g) chunk size given as a NumPy scalar / bool
	for form in CS_FORMS + CS_LENIENT:
		for cont in ('array', 'hdf5', 'siglist', 'pylist', 'view', 'annot-hdf5'):
			for _ in range(2 * K):
				c = _api_case(rng, fn='matrix', n=rng.choice([2, 3, 5, 8, 13]), cont=cont)
				nr = len(c['refs']) if c['ri'] is None else len(c['ri'])
				c['cs'] = 1 if form == 'bool' else rng.choice([1, 2, 3, max(1, nr - 1), max(1, nr), nr + 1, 100])
				c['cs_form'] = form
				c['lenient'] = form in CS_LENIENT
				ctx.count('stream:audit-chunksize-forms')
				yield 'api', c

	# -- (h) call forms: positional / omitted arguments, flat as NumPy bool or int, progress meters, strided query
	for form in ('kw', 'pos', 'omit'):
		for prog in PROGRESS:
			for _ in range(3 * K):
				c = _api_case(rng, cont=rng.choice(conts5 + ['annot-array', 'tuple']), form=form)
				if c['fn'] != 'array':
					c['progress'] = prog
				else:
					c['qform'] = rng.choice([None, 'strided'])
				if c['fn'] == 'pairwise':
					c['flat_form'] = rng.choice(['bool', 'np', 'int'])
				if rng.random() < 0.4:
					c['out'] = dict(layout=rng.choice(['C', 'F', 'strided', 'T']))
				ctx.count('stream:audit-call-forms')
				yield 'api', c

	# -- (i) plain lists / SignatureLists whose signatures have different dtypes, values over each dtype's range
	for cont in XCONT_HETERO:
		for fn in ('array', 'matrix', 'pairwise'):
			for _ in range(6 * K):
				c = _api_case(rng, fn=fn, n=rng.choice([2, 3, 4, 6]), wide=True, hetero=True, cont=cont)
				if fn == 'matrix' and isinstance(c['qdt'], list):
					c['qcont'] = rng.choice(XCONT_HETERO)
				ctx.count('stream:audit-mixed-dtype-lists')
				yield 'api', c

	# -- (j) the same object as queries and references (what the pairwise docstring compares itself with)
	for cont in ('array', 'hdf5', 'siglist', 'pylist', 'annot-array', 'view', 'tuple'):
		for _ in range(4 * K):
			c = _api_case(rng, fn='matrix', n=rng.choice([1, 2, 3, 5, 8]), cont=cont, qcont='same')
			ctx.count('stream:audit-same-object')
			yield 'api', c

	# -- (k) random combinations of all of the above
	for _ in range(ctx.pick(700, 5000)):
		hetero = rng.random() < 0.25
		c = _api_case(rng, hetero=hetero)
		c['cont'] = rng.choice(XCONT_HETERO if isinstance(c['rdt'], list) else XCONT_HOMOG)
		if c['fn'] == 'matrix':
			if isinstance(c['qdt'], list):
				c['qcont'] = rng.choice(XCONT_HETERO)
			elif rng.random() < 0.5:
				c['qcont'] = rng.choice(XCONT_HOMOG + ['same'])
			if c['cs'] is not None and rng.random() < 0.4:
				form = rng.choice(CS_FORMS[:8])
				c['cs_form'] = form
		if c['fn'] != 'array':
			if rng.random() < 0.5:
				_fit_index_form(rng, c, rng.choice(RI_FORMS))
			c['progress'] = rng.choice(PROGRESS)
			c['form'] = rng.choice(['kw', 'pos', 'omit'])
		if rng.random() < 0.4:
			c['out'] = dict(layout=rng.choice(['C', 'F', 'strided', 'neg', 'block', 'T', 'rowstrided', 'colstrided', 'subclass', 'memmap']))
		ctx.count('stream:audit-random-api')
		yield 'api', c

	# -- (l) sequences of calls sharing the container, the index object and output buffers
	for _ in range(ctx.pick(150, 1000)):
		n = rng.choice([2, 3, 4, 6, 9])
		hetero = rng.random() < 0.2
		rdt = [rng.choice(GOOD_DT) for _ in range(n)] if hetero else rng.choice(GOOD_DT)
		wide = rng.random() < 0.4
		c = dict(cont=rng.choice(XCONT_HETERO if hetero else XCONT_HOMOG), refs=_coll(rng, n, rdt, wide), rdt=rdt)
		c['ri'] = rng.choice([None, _rand_indices(rng, n)])
		c['ri_form'] = 'list'
		if c['ri'] is not None:
			_fit_index_form(rng, c, rng.choice(RI_FORMS))
		m = n if c['ri'] is None else len(c['ri'])
		steps = []
		for _ in range(rng.choice([2, 3, 5, 7])):
			fn = rng.choice(['array', 'matrix', 'pairwise'])
			s = dict(fn=fn, out=rng.choice(['none', 'none', 'shared', 'shared', 'fresh']), threads=rng.randint(1, 16))
			if fn == 'array':
				s['qdt'] = rng.choice(GOOD_DT)
				s['q'] = _coll(rng, 1, s['qdt'], wide)[0]
			elif fn == 'matrix':
				s['qdt'] = rng.choice(GOOD_DT)
				s['queries'] = _coll(rng, 2, s['qdt'], wide)     # always two queries so that shapes repeat between steps
				s['cs'] = rng.choice([None, 1, 2, m + 1])
				if rng.random() < 0.15:
					s['qcont'] = 'same'
			else:
				s['flat'] = rng.random() < 0.5
			steps.append(s)
		c['steps'] = steps
		ctx.count('stream:audit-call-sequences')
		yield 'sequence', c

	# -- (f2) a boolean mask as the selection: the functions document index lists only, so an error is accepted; a returned
	#    array must hold exactly the selected references' distances
	for form in ('boolmask', 'boollist'):
		for fn in ('matrix', 'pairwise'):
			for cont in ('array', 'hdf5', 'pylist'):
				for full in (True, False):
					n = rng.choice([2, 3, 5])
					c = _api_case(rng, fn=fn, n=n, cont=cont)
					c['ri'] = list(range(n)) if full else sorted(rng.sample(range(n), rng.randint(1, n - 1)))
					c['ri_form'] = form
					c['lenient'] = True
					ctx.count('stream:audit-bool-selection')
					yield 'api', c

	# -- (n) thread count / schedule from the OMP_* environment of a fresh interpreter
	envs = [dict(OMP_NUM_THREADS='1'), dict(OMP_NUM_THREADS='3'), dict(OMP_NUM_THREADS='16', OMP_DYNAMIC='true'),
	        dict(OMP_NUM_THREADS='32', OMP_SCHEDULE='static,1'), dict(OMP_NUM_THREADS='7', OMP_THREAD_LIMIT='2'),
	        dict(OMP_NUM_THREADS='4,2', OMP_NESTED='true'), dict(), dict(OMP_NUM_THREADS='2', OMP_PROC_BIND='close')]
	for env in envs[:ctx.pick(4, 8)]:
		jobs = []
		for _ in range(ctx.pick(40, 200)):
			j = _api_case(rng, n=rng.choice([2, 3, 6, 9, 30, 100]), cont=rng.choice(XCONT_MEM))
			j.pop('reps', None)
			j.pop('threads', None)
			jobs.append(j)
		ctx.count('stream:audit-env-threads')
		yield 'envthreads', dict(env=env, jobs=jobs, reps=2)

	# -- (m) bulk calls issued together from several Python threads
	for _ in range(ctx.pick(50, 400)):
		jobs = []
		for _ in range(rng.choice([2, 3, 4])):
			j = _api_case(rng, n=rng.choice([3, 6, 9, 30]), cont=rng.choice(XCONT_MEM))
			j['threads'] = rng.randint(1, 4)
			j.pop('reps', None)
			jobs.append(j)
		ctx.count('stream:audit-concurrent-callers')
		yield 'concurrent', dict(jobs=jobs, reps=3)
