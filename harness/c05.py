"""C05 -- bulk and parallel distance computations agree bit-for-bit with the pairwise one.

Tie: T (Gen/MetricPyx.v, regenerated from metric.pyx: the prange loop `_jaccarddist_parallel` and
its arbitrary-iteration-order variant) + B: gambit.metric.jaccarddist_array / jaccarddist_matrix /
jaccarddist_pairwise and gambit.util.misc.chunk_slices are run on the same inputs as the hand model
(Model/C05.v) for every container (SignatureArray, HDF5Signatures on a scratch file, SignatureList,
plain list) x dtype x chunk size x index selection x caller-supplied buffer x OpenMP thread count
x repeated runs; every cell is compared, as a binary32 bit pattern, with
gambit.metric.jaccarddist of the pair the cell stands for (the property's predicate) and with the
model.

Coverage audit (statement / quantifier / API item -> stream that drives it ON THE IMPLEMENTATION; P = the
property predicate "cell == jaccarddist(pair) bitwise, right buffer, runs agree" is judged there, M = the model
is compared as well).  "audit-*" streams were added by the audit; kinds api / sequence / concurrent /
envthreads / state / blocks are P only (outside the Coq model, see the comment above XCONT_HOMOG).
  one query x many refs (jaccarddist_array)      array-exhaustive, random-array, audit-*              P M
  query x reference matrix                       matrix-families, random-matrix, audit-*              P M
  all pairs, square (symmetry, zero diagonal)    pairwise-families, random-pairwise (cell (i,j) is
                                                 compared with d(s_i, s_j) in THAT argument order)    P M
  all pairs, condensed                           the same streams with flat=True; offsets op 512      P M
  containers: SignatureArray / view, HDF5 file,  all of the above (5 names)                           P M
    SignatureList, plain list
  other holders: tuple, AnnotatedSignatures      WAS MISSING -> audit-containers (28 names), also as  P
    (array / list / file), gzip-compressed file,   the QUERIES container and inside audit-random-api,
    file in a sub-group, file written through      audit-call-sequences
    the per-signature path with string ids and an
    odd file name, file with 32-bit bounds,
    from_arrays with i2/i4/u4/u8 bounds, strided
    values, junk before/after the values,
    SignatureArray made by int-array / bool-mask /
    stepped-slice indexing, copy constructor,
    subclasses, list of non-contiguous signatures,
    SignatureList over one SignatureArray
  queries and references the same object         WAS MISSING -> audit-same-object                     P
  dtype: 6 x 6 (query, refs) pairs               dcycle in every stream; values were all < 60000:     P M
    values >= 2^16 / 2^32 / 2^63, colliding        WAS MISSING -> audit-wide-values (modelled kinds)
    modulo 2^16 / 2^32
  one list holding signatures of several dtypes  WAS MISSING -> audit-mixed-dtype-lists               P
  collections: empty / one element / duplicates  fams, _rand_coll everywhere                          P M
  n = 0, 1, 2 ... 40 references                  fams, schedule, random-*                             P M
  hundreds / a thousand references, one 10^5-    WAS MISSING -> audit-many-references                 P
    element signature among short ones
  chunk size 1..n+2, None, <= 0                  matrix-families, malformed-chunksize, chunks-*       P M
  chunk size >= 2^31 ... 10^30                   WAS MISSING -> audit-huge-chunksize (modelled kind)  P M
  chunk size as NumPy scalar / bool              WAS MISSING -> audit-chunksize-forms (np.uint64 and  P
                                                 float: an error is accepted, a wrong cell is not)
  index selections: repeats, negative, reversed, matrix- / pairwise-families, random-*, malformed-    P M
    out of range; list, i2/i4/i8/u2 arrays         indices
  selections as tuple, range, array.array, lists WAS MISSING -> audit-index-forms                     P
    of NumPy scalars, i1/u1/u8/intp/big-endian/
    strided/read-only arrays
  selection as a boolean mask                    WAS MISSING -> audit-bool-selection (error accepted) P
  out buffers: C, F, every-other-element; wrong  *-families, random-*, malformed-*-out                P M
    shape / dtype / ndim
  out buffers: negative strides, offset block,   WAS MISSING -> audit-out-layouts (modelled kinds),    P M
    transpose, row- / column-strided, ndarray      audit-random-api
    subclass, np.memmap on disk
  one buffer / index object / container reused   WAS MISSING -> audit-call-sequences (also: an array   P
    across calls; results of earlier calls         the function allocated must keep its values after
                                                   later calls)
  queries / query / references that were READ OUT WAS MISSING -> blocks-holder-types, blocks-scripts  P
    OF a holder (holder[a:b], holder[:], holder[    (kind `blocks`: 19 holder types, 8 of them signature
    index list], holder[a:b:step], holder[i], a     files; several blocks alive at once; a block as the
    list of items) and are used while the holder    queries against its own holder in chunks; block vs
    is read again (by the same call, chunk by       block; takes between calls; results dropped at once)
    chunk, or by a later take / call)
  thread counts 1..16 via omp_set_num_threads,   every stream (tcycle / randint), schedule (reps 8)   P M
    more threads than refs, repeated runs
  thread count from OMP_NUM_THREADS / OMP_DYNAMIC WAS MISSING -> audit-env-threads (fresh interpreter)  P
    / OMP_THREAD_LIMIT / OMP_SCHEDULE
  callers in several Python threads at once      WAS MISSING -> audit-concurrent-callers              P
  call forms: keywords only                      all old streams; positional / omitted arguments,
                                                 flat as np.bool_ / int, progress=False / True /
                                                 meter class / factory / ProgressConfig (the form
                                                 query(), `gambit dist` and `gambit tree` use),
                                                 strided query: WAS MISSING -> audit-call-forms       P
  gambit dist / gambit tree / gambit.query.query CLI cells: C16 / C17 checks; query(): C04 / C09; their
                                                 call forms are reproduced in audit-call-forms
  _jaccarddist_parallel directly                 schedule; non-contiguous query / values / bounds / out:
                                                 WAS MISSING -> audit-kernel-strided                  P M
Not covered: read-only signature arrays (gambit.metric.jaccarddist itself refuses them, so the predicate is
undefined); interleavings below one prange iteration (explored, see TRUSTED); > 2^31 references.

State and aliasing (audit of hidden state: what outlives one call, and which stream reuses it).  Entry points the
property is observed through: E1 jaccarddist_array(query, refs, out), E2 jaccarddist_matrix(queries, refs,
ref_indices, out, chunksize, progress), E3 jaccarddist_pairwise(sigs, indices, flat, out, progress), E4 the compiled
_jaccarddist_parallel(query, values, bounds, out), E5 gambit.util.misc.chunk_slices(n, size) (a generator function),
E6 gambit._cython.threads.omp_set_num_threads / omp_get_max_threads; `gambit dist`, `gambit tree`, `gambit query` and
gambit.query.query reach E2 / E3 with fresh objects per process (their cells: C16 / C17 / C04 / C09).
Columns: (a) reused by >= 2 calls whose other arguments differ (other collection / size / dtype / selection / chunk
size / function), in both orders; (b) compared after every call with its state before it; (c) used again, on the same
thread, after a call that failed part-way; (d) the same call twice, same answer; (e) used from a second Python thread.
"old" = audit-call-sequences / audit-concurrent-callers as they were; S = state-scripts (kind `state`), T = state-concurrent-
shared-objects (kind `concurrent` with shared=True: 2-4 Python threads at once on ONE references holder and ONE index
object, both compared afterwards with their state before), both added by this audit.  The modelled kinds matrix / pairwise
now hand the implementation a COPY of the case's index list and compare it afterwards (they used to pass the case's own list,
so a call that edited it edited the case).
  object (who owns it, how long it lives)               a            b    c    d            e
  query array (E1; caller)                              S (was: a    S    S    S `twice`    S `thread`
                                                        fresh array
                                                        per call)
  references holder (E1-E3; caller, long-lived):        old: ONE     S,   S    S, old reps  S, T; old: own
    SignatureArray and views sharing one `values`,      collection   T                      objects per
    SignatureList / list / tuple and the arrays in      per case.                           thread only
    them, AnnotatedSignatures (signatures, ids, meta),  S: 2-3 collections of EQUAL or different size / signature
    HDF5Signatures reader + its open file (values,      lengths / dtype / holder, used in turn (a, b, a) with the
    bounds, ids, attributes, open or closed)            same query / index / buffer objects; and changed BY THE
                                                        CALLER between calls: item replaced, signature overwritten
                                                        in place (the documented way to fill SignatureArray
                                                        .uninitialized), list grown / shortened, reader closed,
                                                        holder dropped and rebuilt with other content (the new object
                                                        may get the old address), a bad item put in and taken out
  queries holder (E2; caller), also the SAME object     S, old       S    S    S            S
    as the references
  blocks handed out by a holder when it is indexed      B (kind `blocks`, added after seeding round 8): a script on ONE holder
    (slice, full slice, stepped slice, index list,      takes 1-8 blocks, keeps them all alive (some are dropped at once) and passes
    one item, list of items); owned by the caller,      them as queries / query / references, alone, against each other and against
    must not be tied to later reads of the holder       the holder itself (chunk sizes 1..n+1, index selections, 1-16 threads), with
    (for a file reader: every read is its own copy      further takes in between; only the cells are judged, each against
    of the file's content)                              jaccarddist of the pair built afresh from the case's lists
  ref_indices / indices object (E2, E3; caller): list,  old: one     S,   S    S            S, T
    tuple, range, ndarray of any integer dtype /        collection;  T
    strided / read-only, array.array, NumPy scalars     S: against collections of two sizes (negative entries mean
                                                        other items, entries valid for one are out of range for the
                                                        other), rewritten by the caller between calls
  out buffer (E1-E3; caller) - DOCUMENTED as written:   old: same    S: the result IS that object; cells of the
    judged as such                                      shape and    caller's array OUTSIDE the view passed (every
                                                        function;    other element, block in a wider array) keep a
                                                        S: across    guard value; buffers of earlier calls not passed
                                                        collections, to this one are untouched; a buffer left half
                                                        after failed written by a failed call is fully rewritten by
                                                        calls        the next good one
  arrays returned by earlier calls (callee-allocated)   old, S: keep their values after every later call
  chunksize / flat                                      immutable values - nothing to alias
  progress argument (E2, E3; caller): one               S            S    S: a meter that raises at its n-th
    ProgressConfig (callable + kw dict) / meter class                     increment ends the call part-way
    shared by the calls of a script
  keyword dict                                          n/a: Python copies **kw at the call, the callee cannot reach it
  generator objects of chunk_slices (E5)                state-chunk-generators (kind `chunkgens`): several alive at once,
                                                        advanced in turn, the same (n, size) asked for again
  gambit.metric / gambit.util.misc module globals,      not observable as objects: any effect on a cell is seen by (a)
    memos on functions, state of the compiled module    with EQUAL-shaped collections of different content, (d), and
                                                        by computing every expected cell BEFORE the first step of a
                                                        script (no other gambit call runs between two steps, so a memo
                                                        is not refreshed by the oracle); every replay is one process
  OpenMP thread count (E6; per-thread control variable  set before every step (1..16); steps marked `thread` run in a new
    of libgomp), thread-local scratch                   Python thread (which starts from the default count) between
                                                        main-thread steps on the same objects; audit-concurrent-callers
  after fork()                                          NOT exercised: no entry point is advertised as usable after fork
                                                        (gambit forks only to compute signatures, C06 / C13), and libgomp's
                                                        thread pool does not survive fork
Failing steps of a script (c): index entry out of range for THIS collection (IndexError required), buffer of the wrong
shape (ValueError required), and - outcome not judged, only what follows - a float array in the middle of the queries
/ of a list of references, a query sequence whose iteration raises at item n, a progress meter that raises at its n-th
increment, a reader whose file the caller closed.  A truncated signature file cannot be opened at all (C19), so it
never reaches these functions."""
import itertools
import os

# idle OpenMP threads must sleep, not spin: the machine is shared and thread counts up to 16 are used
# (libgomp reads this when the first compiled extension is loaded, which happens after this import)
os.environ.setdefault('OMP_WAIT_POLICY', 'PASSIVE')

import numpy as np

from harness.c02 import f32_bits, _arr

PROP = 'C05'
RULE = ('bulk call (array / matrix / pairwise) on a collection x container x dtype x chunk size x index selection x '
        'out buffer x thread count; non-trivial: at least two cells, two cells with different values, and at least one of: '
        'a chunk boundary strictly inside the references, an explicit index selection, a caller-supplied buffer, '
        'more than one OpenMP thread.  api: the same calls with the references / queries held in any of 28 holder types, '
        'indices / chunk size / flat written as tuples, ranges, NumPy scalars and arrays of any integer dtype, positional or '
        'omitted arguments, progress meters, lists of mixed dtype, values over the whole dtype range; non-trivial: two '
        'different cells and one such form present.  sequence: 2-7 calls sharing container, index object and buffers; '
        'non-trivial: a later call has two different cells.  concurrent: 2-4 calls from Python threads at once.  envthreads: '
        'calls in a fresh interpreter whose thread count comes from OMP_* variables; non-trivial: more than one thread.  '
        'state: a script of 2-20 steps over a pool of shared objects (2-3 reference collections of equal or different '
        'shape, query arrays, query holders, 2 index objects, shared output buffers, one progress configuration): bulk '
        'calls that pick their arguments from the pool with repetition (the same call on collection a, b, a), calls that '
        'fail part-way, and changes the caller makes to its own objects between calls; every call is judged by the '
        'predicate, "result is the buffer", "cells outside the view passed as out keep their guard value", "every other '
        'pool object is bit-for-bit what it was before the call", "same call twice, same cells", "arrays handed out '
        'earlier keep their values"; non-trivial: a second or later good call has two different cells.  concurrent with '
        'shared=True: the jobs use one references holder and one index object, compared afterwards with their state before.  chunkgens: 2-5 '
        'chunk_slices generators alive at once; non-trivial: two generators, one with two slices.  '
        'blocks: a script of 2-9 steps on one holder (19 holder types, 8 of them signature files): takes (holder[a:b], '
        'holder[:], holder[a:b:step], holder[index list], holder[i], list of items) whose results stay alive, and bulk calls whose '
        'queries / query / references are such blocks, the holder itself or separate arrays; non-trivial: a call with two '
        'different cells uses a block that was taken before another read of the holder (a later take, or a call - this one '
        'included - that has the holder as an argument).  '
        'api / sequence / concurrent / envthreads / state / chunkgens / blocks are judged by the property predicate only (no model)')
TRUSTED = ['tools/pyx2v.py (Cython subset -> Gallina: prange = iterations run one after the other in some order, '
           'begin/end per iteration; memoryview slice = clamped slice)',
           'OpenMP / Cython privatisation of begin,end: interleavings below iteration granularity are not modelled '
           '(explored here with 1..16 threads, more threads than references, repeated runs)',
           'indexing a SignatureArray / SignatureList / HDF5Signatures with an int, a slice or an index list behaves '
           'like the plain list (property C20, proved there)',
           'NumPy basic-slice views (out[i, a:b], out[a:b]) alias the buffer; np.empty / fill_diagonal / fancy '
           'assignment out[cols, i] = out[i, cols] as modelled in Model/C05.v',
           'state scripts: the fingerprint of a caller-owned object (bytes, dtype, strides, writeable flag and base of every '
           'array; identity and order of list items; values / bounds / ids / attributes of an HDF5 reader read through h5py; '
           'instance attributes that existed before the call) is taken by the harness without calling gambit.metric; '
           'object identity and hidden module state are outside the Coq model (its functions are pure), so this part is '
           'exploration, not proof']
ASSUMPTIONS = ['signatures are sorted and duplicate-free (outside that the pair distance itself is unspecified)',
               'number of references < 2^31 (the prange index is a C int), array lengths < 2^62',
               'progress meter absent in the model (calls with a meter are judged by the property predicate only)',
               'state scripts: between two calls the caller changes its objects only through their public interface (item '
               'assignment, in-place write into holder[i], append / pop, close, rebuilding the holder) - attributes such as '
               'SignatureArray.values / .bounds are not rebound; the bulk functions are not called after fork()']

CONT = {'array': 0, 'hdf5': 1, 'siglist': 2, 'pylist': 3}
GOOD_DT = ['u2', 'u4', 'u8', 'i2', 'i4', 'i8']
ERRNAME = {3: 'ValueError', 6: 'IndexError'}
NAN_BITS = 2143289344

_state = {}


def setup(ctx):
	from vf import impl
	impl.check_import()
	from gambit._cython import threads
	_state['dir'] = impl.scratch_dir('gambit-verif-c05-')
	_state['h5'] = {}
	_state['nfile'] = 0
	_state['threads0'] = threads.omp_get_max_threads()


def teardown(ctx):
	for h in _state.get('h5', {}).values():
		try:
			h.close()
		except Exception:
			pass
	_state['h5'] = {}
	try:
		from gambit._cython import threads
		threads.omp_set_num_threads(_state.get('threads0', 16))
	except Exception:
		pass


# ---- building implementation inputs ---------------------------------------------------------------

def _kind(dt):
	return [{'u': 0, 'i': 1}.get(dt[0], 2), int(dt[1:]) if dt[1:].isdigit() else 0]


def _sig(vals, dt):
	if dt in GOOD_DT:
		return _arr(vals, dt)
	return np.array(vals, dtype=dt)


def _container(cont, sigs, dt):
	from gambit.sigs.base import SignatureArray, SignatureList, dump_signatures, load_signatures
	from gambit.kmers import KmerSpec
	ks = KmerSpec(11, 'AT')
	arrs = [_sig(s, dt) for s in sigs]
	if cont == 'pylist':
		return arrs
	if cont == 'siglist':
		return SignatureList(arrs, ks, dtype=np.dtype(dt))
	if cont == 'array':
		return SignatureArray(arrs, ks, dtype=np.dtype(dt))
	if cont == 'view':
		pad = [_sig([7, 9], dt)] + arrs + [_sig([3], dt)]
		return SignatureArray(pad, ks, dtype=np.dtype(dt))[1:len(pad) - 1]
	if cont == 'hdf5':
		key = (dt, tuple(tuple(s) for s in sigs))
		h = _state['h5'].get(key)
		if h is None or not h:
			if len(_state['h5']) > 150:
				for old in list(_state['h5'])[:75]:
					try:
						_state['h5'].pop(old).close()
					except Exception:
						pass
			_state['nfile'] += 1
			path = os.path.join(_state['dir'], f'c{_state["nfile"]}.gs')
			dump_signatures(path, SignatureArray(arrs, ks, dtype=np.dtype(dt)), 'hdf5')
			h = load_signatures(path)
			_state['h5'][key] = h
		return h
	raise ValueError(cont)


def _contcode(cont):
	return CONT['array' if cont == 'view' else cont]


def _outbuf(spec):
	"""spec = None | dict(shape=[...], dtype='f4', layout='C'|'F'|'strided') -> ndarray filled with NaN"""
	if spec is None:
		return None
	shape = tuple(spec['shape'])
	dt = np.dtype(spec.get('dtype', 'f4'))
	layout = spec.get('layout', 'C')
	fill = np.nan if dt.kind == 'f' else 77
	if layout == 'F':
		return np.full(shape, fill, dtype=dt, order='F')
	if layout == 'strided':
		big = np.full(tuple(2 * s for s in shape), fill, dtype=dt)
		return big[tuple(slice(0, 2 * s, 2) for s in shape)]
	# -- layouts added by the coverage audit (all are ordinary writable float32 buffers of the right shape)
	if layout == 'neg':           # negative strides in every dimension
		return np.full(shape, fill, dtype=dt)[tuple(slice(None, None, -1) for _ in shape)]
	if layout == 'block':         # block at an offset inside a wider C-order array
		wide = np.full(tuple(s + 5 for s in shape), fill, dtype=dt)
		return wide[tuple(slice(2, 2 + s) for s in shape)]
	if layout == 'T':             # transpose of a C-order array of the reversed shape
		return np.full(shape[::-1], fill, dtype=dt).T
	if layout == 'rowstrided':    # every other row of a taller array (rows unit-stride)
		big = np.full((2 * shape[0],) + shape[1:], fill, dtype=dt)
		return big[::2]
	if layout == 'colstrided':    # every third element along the last axis
		big = np.full(shape[:-1] + (3 * shape[-1],), fill, dtype=dt)
		return big[..., ::3]
	if layout == 'subclass':      # an ndarray subclass
		return np.full(shape, fill, dtype=dt).view(_OutSub)
	if layout == 'memmap' and all(s > 0 for s in shape):   # a buffer backed by a file on disk
		_state['nfile'] = _state.get('nfile', 0) + 1
		mm = np.memmap(os.path.join(_state['dir'], f'out{_state["nfile"]}.bin'), dtype=dt, mode='w+', shape=shape)
		mm[...] = fill
		return mm
	return np.full(shape, fill, dtype=dt)


class _OutSub(np.ndarray):
	pass


def _wire_out(spec, ndim):
	if spec is None:
		return None
	shape = list(spec['shape'])
	isf32 = np.dtype(spec.get('dtype', 'f4')) == np.dtype('f4')
	if len(shape) == ndim == 1:
		cells = [NAN_BITS] * max(0, shape[0])
	elif len(shape) == ndim == 2:
		cells = [[NAN_BITS] * max(0, shape[1]) for _ in range(max(0, shape[0]))]
	else:
		cells = []
	return [[shape, isf32, cells]]


def _set_threads(t):
	from gambit._cython import threads
	threads.omp_set_num_threads(int(t))


def _bits(a):
	a = np.ascontiguousarray(a, dtype=np.float32)
	return a.view(np.uint32).astype(np.int64).tolist()


def _call(fn, out):
	"""-> ('ok', bits, same_buffer) | ('err', name)"""
	try:
		r = fn()
	except (ValueError, IndexError) as e:
		return ('err', type(e).__name__)
	except Exception as e:
		return ('err', type(e).__name__ + ':' + str(e)[:80])
	if not isinstance(r, np.ndarray) or r.dtype != np.float32:
		return ('err', f'returned {type(r).__name__} {getattr(r, "dtype", None)}')
	same = True
	if out is not None:
		same = (r is out)
	return ('ok', _bits(r), same)


def _model_outcome(m):
	if m[0] == 0:
		return ('ok', m[1])
	return ('err', ERRNAME.get(m[1], f'Kernel{m[1]}'))


def _pairbits(cache, a, b, da, db):
	from gambit.metric import jaccarddist
	key = (tuple(a), tuple(b), da, db)
	v = cache.get(key)
	if v is None:
		v = f32_bits(jaccarddist(_sig(a, da), _sig(b, db)))
		cache[key] = v
	return v


def _norm(n, i):
	j = i + n if i < 0 else i
	return j if 0 <= j < n else None


def _select(lst, idxs):
	out = []
	for i in idxs:
		j = _norm(len(lst), i)
		if j is None:
			return None
		out.append(lst[j])
	return out


def _report(ctx, kind, c, runs, expect, model, what_for):
	"""runs: outcomes of the repeated implementation runs; expect: ('ok', bits) from pairwise jaccarddist calls or
	('err', name) / None when the property does not fix the outcome; model: outcome of the model or None"""
	first = runs[0]
	for k, r in enumerate(runs[1:], 1):
		if r != first:
			ctx.violation(kind, c, f'{what_for}: run {k} differs from run 0 under the same inputs (threads={c.get("threads")})',
			              impl=[first, r])
			return
	if first[0] == 'ok' and not first[2]:
		ctx.violation(kind, c, f'{what_for}: result is not the caller-supplied buffer', impl=first[1])
		return
	got = first[:2]
	if expect is not None and got != expect:
		if got[0] == 'err' and expect[0] == 'ok':
			what = f'{what_for} raised {got[1]} although every cell is determined by the pairwise distance (expected {len(expect[1])} row(s)/cell(s))'
		elif got[0] == 'ok' and expect[0] == 'ok':
			what = f'{what_for}: a cell differs bit-wise from gambit.metric.jaccarddist of the pair it stands for'
		else:
			what = f'{what_for}: outcome {got} but expected {expect}'
		ctx.violation(kind, c, what, impl=got, spec=expect, model=model)
		return
	if model is not None and got != model:
		ctx.broke(f'correspondence {kind}', f'{c}: impl {got} model {model}')


def _nontrivial(c, cells, n_refs):
	flat = [x for row in cells for x in (row if isinstance(row, list) else [row])]
	if len(flat) < 2 or len(set(flat)) < 2:
		return False
	cs = c.get('chunksize')
	return bool((cs is not None and 0 < cs < n_refs) or c.get('ri') is not None or c.get('indices') is not None
	            or c.get('out') is not None or c.get('threads', 1) > 1)


# ---- kinds ------------------------------------------------------------------------------------------

def k_array(ctx, cases):
	from gambit.metric import jaccarddist_array
	reqs = [(502, [_contcode(c['cont']), _kind(c['dq']), _kind(c['dr']), c['q'], c['refs'], _wire_out(c.get('out'), 1)])
	        for c in cases]
	ans = ctx.model(reqs) if ctx.model_ok else None
	cache = {}
	for n, c in enumerate(cases):
		good = c['dq'] in GOOD_DT and c['dr'] in GOOD_DT
		q = _sig(c['q'], c['dq'])
		refs = _container(c['cont'], c['refs'], c['dr'])
		_set_threads(c.get('threads', 1))
		runs = []
		for _ in range(c.get('reps', 1)):
			out = _outbuf(c.get('out'))
			runs.append(_call(lambda: jaccarddist_array(q, refs, out=out), out))
		expect = None
		o = c.get('out')
		if good:
			if o is not None and (list(o['shape']) != [len(c['refs'])] or np.dtype(o.get('dtype', 'f4')) != np.dtype('f4')):
				expect = ('err', 'ValueError')
			else:
				expect = ('ok', [_pairbits(cache, c['q'], r, c['dq'], c['dr']) for r in c['refs']])
		model = _model_outcome(ans[n]) if ans is not None else None
		ctx.case(c, nontrivial=bool(expect and expect[0] == 'ok' and _nontrivial(c, expect[1], len(c['refs']))))
		_report(ctx, 'array', c, runs, expect, model, 'jaccarddist_array')


def k_matrix(ctx, cases):
	from gambit.metric import jaccarddist_matrix
	reqs = []
	for c in cases:
		reqs.append((503, [_contcode(c['cont']), _kind(c['dq']), _kind(c['dr']), c['queries'], c['refs'],
		                   None if c.get('ri') is None else [c['ri']], _wire_out(c.get('out'), 2),
		                   None if c.get('chunksize') is None else [c['chunksize']]]))
	ans = ctx.model(reqs) if ctx.model_ok else None
	cache = {}
	for n, c in enumerate(cases):
		good = c['dq'] in GOOD_DT and c['dr'] in GOOD_DT
		queries = [_sig(q, c['dq']) for q in c['queries']]
		if c.get('qcont'):
			queries = _container(c['qcont'], c['queries'], c['dq'])
		refs = _container(c['cont'], c['refs'], c['dr'])
		ri = c.get('ri')
		ri_impl = None if ri is None else list(ri)      # never the case's own list: the call must not be able to edit the case
		if ri is not None and c.get('ri_kind', 'list') != 'list':
			ri_impl = np.array(ri, dtype=c['ri_kind']) if ri else np.empty(0, dtype=c['ri_kind'])
		_set_threads(c.get('threads', 1))
		runs = []
		for _ in range(c.get('reps', 1)):
			out = _outbuf(c.get('out'))
			runs.append(_call(lambda: jaccarddist_matrix(queries, refs, ref_indices=ri_impl, out=out,
			                                              chunksize=c.get('chunksize')), out))
		nq = len(c['queries'])
		nr = len(c['refs']) if ri is None else len(ri)
		sel = c['refs'] if ri is None else _select(c['refs'], ri)
		o = c.get('out')
		cs = c.get('chunksize')
		expect = None
		if o is not None and (list(o['shape']) != [nq, nr] or np.dtype(o.get('dtype', 'f4')) != np.dtype('f4')):
			expect = ('err', 'ValueError')
		elif cs is not None and cs <= 0:
			expect = ('err', 'ValueError')
		elif sel is None:
			# an index out of range: IndexError as soon as its chunk is reached (needs at least one chunk)
			expect = ('err', 'IndexError')
		elif good:
			expect = ('ok', [[_pairbits(cache, q, r, c['dq'], c['dr']) for r in sel] for q in c['queries']])
		model = _model_outcome(ans[n]) if ans is not None else None
		ctx.case(c, nontrivial=bool(expect and expect[0] == 'ok' and _nontrivial(c, expect[1], nr)))
		if ri is not None and [int(x) for x in ri_impl] != ri:
			ctx.violation('matrix', c, 'jaccarddist_matrix modified the index object passed as ref_indices (only `out` is documented as '
			              'written)', impl=[int(x) for x in ri_impl], spec=ri)
			continue
		_report(ctx, 'matrix', c, runs, expect, model, 'jaccarddist_matrix')


def k_pairwise(ctx, cases):
	from gambit.metric import jaccarddist_pairwise
	reqs = []
	for c in cases:
		flat = bool(c.get('flat'))
		reqs.append((505 if flat else 504, [_contcode(c['cont']), _kind(c['d']), c['sigs'],
		                                    None if c.get('indices') is None else [c['indices']],
		                                    _wire_out(c.get('out'), 1 if flat else 2)]))
	ans = ctx.model(reqs) if ctx.model_ok else None
	offs = ctx.model([(512, [len(c['sigs']) if c.get('indices') is None else len(c['indices']), i, j])
	                  for c in cases[:40] for i, j in [(0, 1), (1, 2), (1, 3)]]) if ctx.model_ok else None
	cache = {}
	for n, c in enumerate(cases):
		flat = bool(c.get('flat'))
		good = c['d'] in GOOD_DT
		sigs = _container(c['cont'], c['sigs'], c['d'])
		idx = c.get('indices')
		idx_impl = None if idx is None else list(idx)
		if idx is not None and c.get('idx_kind', 'list') != 'list':
			idx_impl = np.array(idx, dtype=c['idx_kind']) if idx else np.empty(0, dtype=c['idx_kind'])
		_set_threads(c.get('threads', 1))
		runs = []
		for _ in range(c.get('reps', 1)):
			out = _outbuf(c.get('out'))
			runs.append(_call(lambda: jaccarddist_pairwise(sigs, indices=idx_impl, flat=flat, out=out), out))
		sel = c['sigs'] if idx is None else _select(c['sigs'], idx)
		m = len(c['sigs']) if idx is None else len(idx)
		shape = [m * (m - 1) // 2] if flat else [m, m]
		o = c.get('out')
		expect = None
		if o is not None and (list(o['shape']) != shape or np.dtype(o.get('dtype', 'f4')) != np.dtype('f4')):
			expect = ('err', 'ValueError')
		elif sel is None:
			expect = ('err', 'IndexError') if m >= 2 else None
		elif good:
			if flat:
				# cell at offset n*i - i(i+1)/2 + (j-i-1) is the pair (i, j), i < j
				cells = [None] * shape[0]
				for i in range(m):
					for j in range(i + 1, m):
						cells[m * i - i * (i + 1) // 2 + (j - i - 1)] = _pairbits(cache, sel[i], sel[j], c['d'], c['d'])
				expect = ('ok', cells)
			else:
				# zero diagonal; cell (i, j) = d(s_i, s_j) computed in that argument order (so symmetry is checked)
				expect = ('ok', [[0 if i == j else _pairbits(cache, sel[i], sel[j], c['d'], c['d']) for j in range(m)]
				                 for i in range(m)])
		model = _model_outcome(ans[n]) if ans is not None else None
		ctx.case(c, nontrivial=bool(expect and expect[0] == 'ok' and m >= 3 and _nontrivial(dict(c, threads=c.get('threads', 1)), expect[1], m)))
		if idx is not None and [int(x) for x in idx_impl] != idx:
			ctx.violation('pairwise', c, 'jaccarddist_pairwise modified the index object passed as indices (only `out` is documented as '
			              'written)', impl=[int(x) for x in idx_impl], spec=idx)
			continue
		_report(ctx, 'pairwise', c, runs, expect, model, 'jaccarddist_pairwise' + (' (flat)' if flat else ''))
	if offs is not None:
		k = 0
		for c in cases[:40]:
			m = len(c['sigs']) if c.get('indices') is None else len(c['indices'])
			for i, j in [(0, 1), (1, 2), (1, 3)]:
				if offs[k] != m * i - i * (i + 1) // 2 + (j - i - 1):
					ctx.broke('correspondence condensed_offset', f'n={m} i={i} j={j}: model {offs[k]}')
				k += 1


def k_chunks(ctx, cases):
	from gambit.util.misc import chunk_slices
	ans = ctx.model([(501, [c['n'], c['size']]) for c in cases]) if ctx.model_ok else None
	for n, c in enumerate(cases):
		try:
			sl = list(chunk_slices(c['n'], c['size']))
			got = ('ok', [[s.start, s.stop] for s in sl])
			bad_step = [s for s in sl if s.step is not None]
		except ValueError:
			got, bad_step = ('err', 'ValueError'), []
		except Exception as e:
			got, bad_step = ('err', type(e).__name__), []
		ctx.case(c, nontrivial=c['size'] > 0 and c['n'] > c['size'])
		if c['size'] <= 0:
			if got != ('err', 'ValueError'):
				ctx.violation('chunks', c, f'chunk_slices({c["n"]}, {c["size"]}) did not raise ValueError', impl=got)
			ok = True
		else:
			covered = []
			if got[0] == 'ok':
				for a, b in got[1]:
					covered += list(range(c['n']))[a:b]
			ok = got[0] == 'ok' and not bad_step and covered == list(range(max(0, c['n'])))
			if not ok:
				ctx.violation('chunks', c, f'chunk_slices({c["n"]}, {c["size"]}) does not cover range(n) exactly once in order',
				              impl=got, spec=list(range(max(0, c['n']))))
		if ok and ans is not None and _model_outcome(ans[n]) != got:
			ctx.broke('correspondence chunks', f'{c}: impl {got} model {ans[n]}')


def _everyother(a):
	big = np.zeros(2 * len(a), dtype=a.dtype)
	big[::2] = a
	return big[::2]


def k_schedule(ctx, cases):
	"""the compiled prange loop itself, called directly on (values, bounds), many threads / repetitions,
	against the generated model run sequentially and in the iteration order pi"""
	import gambit._cython.metric as cm
	reqs = []
	for c in cases:
		vals = [x for r in c['refs'] for x in r]
		bounds = [0]
		for r in c['refs']:
			bounds.append(bounds[-1] + len(r))
		c['_vb'] = (vals, bounds)
		init = [NAN_BITS] * len(c['refs'])
		reqs.append((506, [c['pi'], c['q'], vals, bounds, init]))
		reqs.append((507, [c['q'], vals, bounds, init]))
		reqs.append((511, c['refs']))
	ans = ctx.model(reqs) if ctx.model_ok else None
	cache = {}
	for n, c in enumerate(cases):
		vals, bounds = c.pop('_vb')
		# the kernel takes unsigned arrays (the wrapper views signed ones as unsigned)
		q = _arr(c['q'], 'u' + c['dq'][1])
		v = _arr(vals, 'u' + c['dr'][1])
		b = np.array(bounds, dtype=np.intp)
		strided = c.get('layout') == 'strided'     # audit: every argument a non-contiguous view
		if strided:
			q, v, b = _everyother(q), _everyother(v), _everyother(b)
		expect = [_pairbits(cache, c['q'], r, c['dq'], c['dr']) for r in c['refs']]
		ctx.case(c, nontrivial=len(set(expect)) >= 2 and c['threads'] > 1)
		_set_threads(c['threads'])
		bad = None
		for rep in range(c.get('reps', 1)):
			out = np.full(len(c['refs']), np.nan, dtype=np.float32)
			if strided:
				out = np.full(2 * len(c['refs']), np.nan, dtype=np.float32)[::2]
			cm._jaccarddist_parallel(q, v, b, out)
			got = _bits(out)
			if got != expect:
				bad = (rep, got)
				break
		if bad:
			ctx.violation('schedule', c, f'_jaccarddist_parallel with {c["threads"]} threads, run {bad[0]}: cells differ from the '
			              f'pairwise distances', impl=bad[1], spec=expect)
			continue
		if ans is not None:
			mo, ms, mc = ans[3 * n], ans[3 * n + 1], ans[3 * n + 2]
			if mc != [vals, bounds]:
				ctx.broke('correspondence concatenated representation', f'{c["refs"]}: model {mc}')
			if ms != [0, expect]:
				ctx.broke('correspondence schedule (sequential model)', f'{c}: impl {expect} model {ms}')
			elif mo != ms:
				ctx.broke('model: iteration order changes the result', f'{c}: order {mo} sequential {ms}')


# ---- coverage-audit kinds: containers / argument forms / call sequences outside the Coq model -------------
# These are judged by the property's predicate alone (every cell = gambit.metric.jaccarddist of the pair it
# stands for, as a binary32 bit pattern; result is the caller's buffer; repeated runs agree).  The model is
# not consulted: AnnotatedSignatures, tuples, foreign bounds dtypes, NumPy-scalar arguments, progress meters,
# signature lists of mixed dtype, shared objects across calls and concurrent callers are not modelled.

XCONT_HOMOG = ['array', 'view', 'hdf5', 'siglist', 'pylist', 'tuple', 'annot-array', 'annot-siglist', 'annot-hdf5',
               'annot-view', 'hdf5-gzip', 'hdf5-group', 'hdf5-annot', 'hdf5-b32', 'bounds-i4', 'bounds-u8', 'bounds-i2',
               'bounds-u4', 'strided-values', 'junk-ends', 'fancy', 'boolsel', 'stepview', 'copy', 'sub-array', 'sub-list',
               'strided-sigs', 'siglist-of-array']
XCONT_HETERO = ['pylist', 'tuple', 'siglist', 'annot-siglist', 'sub-list', 'strided-sigs']
XCONT_MEM = ['array', 'view', 'siglist', 'pylist', 'tuple', 'annot-array', 'bounds-i4', 'junk-ends', 'fancy']
RI_FORMS = ['list', 'tuple', 'range', 'np:i8', 'np:i4', 'np:i2', 'np:i1', 'np:u1', 'np:u2', 'np:u8', 'np:intp', 'np:>i8', 'np:>u2',
            'np-strided', 'np-ro', 'npscalars', 'pyarray']
CS_FORMS = ['int', 'np.int64', 'np.int32', 'np.int16', 'np.intp', 'np.uint8', 'np.uint16', 'np.uint32', 'bool']
CS_LENIENT = ['np.uint64', 'float']      # NumPy 1.x turns 0 + np.uint64(k) into a float: an error is accepted, a wrong cell is not
PROGRESS = [None, 'false', 'true', 'test', 'strict', 'factory', 'config']


def _dlist(dt, n):
	return list(dt) if isinstance(dt, list) else [dt] * n


def _xcont(name, sigs, dts):
	"""-> (container, [closers]); dts = one dtype string or a list with one dtype per signature"""
	from gambit.sigs.base import (SignatureArray, SignatureList, AnnotatedSignatures, SignaturesMeta, dump_signatures,
	                              load_signatures)
	from gambit.kmers import KmerSpec
	ks = KmerSpec(11, 'AT')
	n = len(sigs)
	dl = _dlist(dts, n)
	dt0 = dl[0] if dl else (dts if isinstance(dts, str) else 'u8')
	arrs = [_sig(s, d) for s, d in zip(sigs, dl)]

	def strided(a):
		big = np.zeros(2 * len(a), dtype=a.dtype)
		big[::2] = a
		return big[::2]

	def sa():
		return SignatureArray(arrs, ks, dtype=np.dtype(dt0))

	def newpath(stem='x'):
		_state['nfile'] = _state.get('nfile', 0) + 1
		return os.path.join(_state['dir'], f'{stem}{_state["nfile"]}.gs')

	if name.startswith('annot-'):
		base, closers = _xcont(name[6:], sigs, dts)
		return AnnotatedSignatures(base, ids=[f'g{i}' for i in range(n)], meta=SignaturesMeta(id='audit', id_attr='key')), closers
	if name == 'pylist':
		return arrs, []
	if name == 'tuple':
		return tuple(arrs), []
	if name == 'siglist':
		return SignatureList(arrs, ks, dtype=np.dtype(dt0)), []
	if name == 'sub-list':
		return _SubList(arrs, ks, dtype=np.dtype(dt0)), []
	if name == 'strided-sigs':
		return [strided(a) for a in arrs], []
	if len(set(dl)) > 1:
		raise ValueError(f'{name} needs one dtype')
	if name in ('array', 'view', 'hdf5'):
		return _container(name, sigs, dt0), []
	if name == 'sub-array':
		return _SubArray(arrs, ks, dtype=np.dtype(dt0)), []
	if name == 'copy':
		return SignatureArray(sa()), []
	if name == 'siglist-of-array':
		return SignatureList(sa()), []
	if name.startswith('bounds-'):
		a = sa()
		return SignatureArray.from_arrays(a.values, a.bounds.astype(name[7:]), ks), []
	if name == 'strided-values':
		a = sa()
		return SignatureArray.from_arrays(strided(a.values), a.bounds, ks), []
	if name == 'junk-ends':
		a = sa()
		junk = _sig([1, 1, 0], dt0)
		return SignatureArray.from_arrays(np.concatenate([junk, a.values, junk]), a.bounds + 3, ks), []
	if name in ('fancy', 'boolsel', 'stepview'):
		# a SignatureArray produced by indexing a larger one (int array / bool mask / stepped slice)
		pad = []
		for a in arrs:
			pad += [_sig([2, 9], dt0), a]
		big = SignatureArray(pad + [_sig([5], dt0)], ks, dtype=np.dtype(dt0))
		if name == 'fancy':
			return big[[2 * i + 1 for i in range(n)]], []
		if name == 'boolsel':
			return big[np.array([i % 2 == 1 for i in range(2 * n + 1)], dtype=bool)], []
		return big[1:2 * n + 1:2], []
	if name == 'hdf5-gzip':
		path = newpath('z')
		dump_signatures(path, sa(), 'hdf5', compression='gzip', compression_opts=4)
		h = load_signatures(path)
		return h, [h.close]
	if name == 'hdf5-annot':
		# written through the generic per-signature path, string ids, unusual file name
		path = newpath('a b ü[1] ')
		dump_signatures(path, AnnotatedSignatures(SignatureList(arrs, ks, dtype=np.dtype(dt0)), ids=np.array([f'id {i}' for i in range(n)], dtype=object),
		                                          meta=SignaturesMeta(name='audit')), 'hdf5')
		h = load_signatures(path)
		return h, [h.close]
	if name == 'hdf5-group':
		import h5py
		from gambit.sigs.hdf5 import HDF5Signatures
		f = h5py.File(newpath('g'), 'w')
		h = HDF5Signatures.create(f.create_group('sets/a b'), sa())
		return h, [f.close]
	if name == 'hdf5-b32':
		# a file whose bounds dataset is 32-bit (written by another tool / platform)
		import h5py
		path = newpath('b')
		dump_signatures(path, sa(), 'hdf5')
		with h5py.File(path, 'r+') as f:
			b = f['bounds'][:]
			del f['bounds']
			f.create_dataset('bounds', data=b.astype('i4'))
		h = load_signatures(path)
		return h, [h.close]
	raise ValueError(name)


def _mk_subclasses():
	from gambit.sigs.base import SignatureArray, SignatureList

	class SubArray(SignatureArray):
		pass

	class SubList(SignatureList):
		pass
	return SubArray, SubList


def _SubArray(*a, **kw):
	if 'sub' not in _state:
		_state['sub'] = _mk_subclasses()
	return _state['sub'][0](*a, **kw)


def _SubList(*a, **kw):
	if 'sub' not in _state:
		_state['sub'] = _mk_subclasses()
	return _state['sub'][1](*a, **kw)


def _ri_ok(idx, form):
	"""can the (valid) index list idx be written in this form?"""
	if form == 'range':
		if len(idx) <= 1:
			return True
		step = idx[1] - idx[0]
		return step != 0 and all(b - a == step for a, b in zip(idx, idx[1:]))
	if form.startswith('np:'):
		info = np.iinfo(np.dtype(form[3:]))
		return all(info.min <= i <= info.max for i in idx)
	if form == 'npscalars':
		return all(-128 <= i <= 127 for i in idx)
	return True


def _x_index(idx, form, n=0):
	if idx is None:
		return None
	if form in ('boolmask', 'boollist'):
		# a NumPy-style boolean selection of the references; idx is the equivalent ascending index list
		mask = [i in idx for i in range(n)]
		return np.array(mask, dtype=bool) if form == 'boolmask' else mask
	if form == 'list':
		return list(idx)
	if form == 'tuple':
		return tuple(idx)
	if form == 'range':
		if not idx:
			return range(0)
		if len(idx) == 1:
			return range(idx[0], idx[0] + 1)
		step = idx[1] - idx[0]
		return range(idx[0], idx[-1] + (1 if step > 0 else -1), step)
	if form.startswith('np:'):
		return np.array(idx, dtype=form[3:]) if idx else np.empty(0, dtype=form[3:])
	if form == 'np-strided':
		big = np.full(2 * len(idx), 10 ** 6, dtype=np.int64)
		big[::2] = idx
		return big[::2]
	if form == 'np-ro':
		a = np.array(idx, dtype=np.int64)
		a.flags.writeable = False
		return a
	if form == 'npscalars':
		ts = [np.int64, np.int32, np.int16, np.intp, np.int8]
		return [ts[k % len(ts)](i) if i < 0 else (ts + [np.uint8, np.uint16, np.uint32])[k % 8](i) for k, i in enumerate(idx)]
	if form == 'pyarray':
		import array
		return array.array('q', idx)
	raise ValueError(form)


def _x_chunksize(cs, form):
	if cs is None or form == 'int':
		return cs
	if form == 'bool':
		return True
	if form == 'float':
		return float(cs)
	return getattr(np, form[3:])(cs)


def _x_progress(p):
	from gambit.util.progress import TestProgressMeter, progress_config
	if p is None:
		return None
	if p == 'false':
		return False
	if p == 'true':
		return True
	if p == 'test':
		return TestProgressMeter
	if p == 'strict':
		return progress_config(TestProgressMeter, allow_decrement=False)
	if p == 'factory':
		return lambda total, **kw: TestProgressMeter(total, **kw)
	if p == 'config':       # what gambit.query.query / the dist and tree commands pass
		return progress_config(TestProgressMeter).update(desc='Calculating distances')
	raise ValueError(p)


def _x_flat(flat, form):
	if form == 'np':
		return np.bool_(flat)
	if form == 'int':
		return 1 if flat else 0
	return bool(flat)


def _x_expect(c, cache):
	"""the cells the property fixes for an api case (valid indices only) -> (bits, shape)"""
	fn = c['fn']
	refs = c['refs']
	rd = _dlist(c['rdt'], len(refs))
	idx = c.get('ri')
	if idx is None:
		sel = list(zip(refs, rd))
	else:
		sel = [(refs[_norm(len(refs), i)], rd[_norm(len(refs), i)]) for i in idx]
	m = len(sel)
	if fn == 'array':
		return [_pairbits(cache, c['q'], r, c['qdt'], d) for r, d in sel], [m]
	if fn == 'matrix':
		if c.get('qcont') == 'same':
			qs = list(zip(refs, rd))
		else:
			qs = list(zip(c['queries'], _dlist(c['qdt'], len(c['queries']))))
		return [[_pairbits(cache, q, r, dq, d) for r, d in sel] for q, dq in qs], [len(qs), m]
	if c.get('flat'):
		cells = [None] * (m * (m - 1) // 2)
		for i in range(m):
			for j in range(i + 1, m):
				cells[m * i - i * (i + 1) // 2 + (j - i - 1)] = _pairbits(cache, sel[i][0], sel[j][0], sel[i][1], sel[j][1])
		return cells, [len(cells)]
	return [[0 if i == j else _pairbits(cache, sel[i][0], sel[j][0], sel[i][1], sel[j][1]) for j in range(m)]
	        for i in range(m)], [m, m]


def _x_args(c, objs):
	"""objs: dict(refs=, queries=, q=, ri=) of built implementation objects -> (function, args, kwargs) without `out`"""
	import gambit.metric as gm
	fn, form = c['fn'], c.get('form', 'kw')
	if fn == 'array':
		return gm.jaccarddist_array, [objs['q'], objs['refs']], {}
	if fn == 'matrix':
		opt = [('ref_indices', objs['ri']), ('out', None), ('chunksize', _x_chunksize(c.get('cs'), c.get('cs_form', 'int')))]
		f, args = gm.jaccarddist_matrix, [objs['queries'], objs['refs']]
	else:
		opt = [('indices', objs['ri']), ('flat', _x_flat(c.get('flat'), c.get('flat_form', 'bool'))), ('out', None)]
		f, args = gm.jaccarddist_pairwise, [objs['refs']]
	kw = {}
	if c.get('progress') is not None:
		kw['progress'] = _x_progress(c['progress'])
	if form == 'pos':
		return f, args + [v for _, v in opt], kw
	if form == 'omit':
		kw.update({k: v for k, v in opt if v is not None and k != 'out' and not (k == 'flat' and v is False)})
		return f, args, kw
	kw.update({k: v for k, v in opt if k != 'out'})
	return f, args, kw


def _x_invoke(f, args, kw, out, form):
	import warnings
	with warnings.catch_warnings():
		warnings.simplefilter('ignore')
		if form == 'pos':
			if f.__name__ == 'jaccarddist_array':
				return f(*args, out)
			a = list(args)
			a[3] = out     # jaccarddist_matrix(queries, refs, ref_indices, OUT, chunksize) / jaccarddist_pairwise(sigs, indices, flat, OUT)
			return f(*a, **kw)
		if out is None and form == 'omit':
			return f(*args, **kw)
		return f(*args, out=out, **kw)


def _x_build(c):
	closers = []
	refs, cl = _xcont(c['cont'], c['refs'], c['rdt'])
	closers += cl
	objs = dict(refs=refs, ri=_x_index(c.get('ri'), c.get('ri_form', 'list'), len(c['refs'])), q=None, queries=None)
	if c['fn'] == 'array':
		objs['q'] = _sig(c['q'], c['qdt'])
		if c.get('qform') == 'strided':
			big = np.zeros(2 * len(objs['q']), dtype=objs['q'].dtype)
			big[::2] = objs['q']
			objs['q'] = big[::2]
	elif c['fn'] == 'matrix':
		if c.get('qcont') == 'same':
			objs['queries'] = refs
		else:
			objs['queries'], cl = _xcont(c.get('qcont') or 'pylist', c['queries'], c['qdt'])
			closers += cl
	return objs, closers


def _close(closers):
	for f in closers:
		try:
			f()
		except Exception:
			pass


def _x_features(c):
	"""does the case carry one of the forms this stream exists for? (for the non-triviality rule)"""
	return bool(c['cont'] not in ('array', 'pylist', 'siglist', 'hdf5') or isinstance(c['rdt'], list) or c.get('qcont')
	            or c.get('ri_form', 'list') != 'list' or c.get('cs_form', 'int') != 'int' or c.get('form', 'kw') != 'kw'
	            or c.get('progress') or c.get('flat_form', 'bool') != 'bool' or c.get('qform')
	            or (c.get('out') or {}).get('layout', 'C') != 'C')


def k_api(ctx, cases):
	cache = {}
	for c in cases:
		expect_cells, shape = _x_expect(c, cache)
		flat = [x for row in expect_cells for x in (row if isinstance(row, list) else [row])]
		ctx.case(c, nontrivial=len(set(flat)) >= 2 and _x_features(c))
		closers = []
		try:
			objs, closers = _x_build(c)
			f, args, kw = _x_args(c, objs)
			_set_threads(c.get('threads', 1))
			runs = []
			for _ in range(c.get('reps', 1)):
				out = _outbuf(dict(c['out'], shape=shape)) if c.get('out') else None
				runs.append(_call(lambda: _x_invoke(f, args, kw, out, c.get('form', 'kw')), out))
		finally:
			_close(closers)
		if c.get('lenient') and runs[0][0] == 'err' and all(r == runs[0] for r in runs):
			ctx.count('api:accepted-error:' + runs[0][1].split(':')[0])
			continue
		_report(ctx, 'api', c, runs, ('ok', expect_cells), None,
		        f'jaccarddist_{c["fn"]} [{c["cont"]}{"/" + str(c.get("qcont")) if c.get("qcont") else ""}, indices as {c.get("ri_form", "-")}, '
		        f'chunksize as {c.get("cs_form", "-")}, call form {c.get("form", "kw")}, progress {c.get("progress")}]')


def _call_obj(fn):
	"""-> (outcome, returned object)"""
	try:
		r = fn()
	except Exception as e:
		return ('err', type(e).__name__ + ':' + str(e)[:80]), None
	if not isinstance(r, np.ndarray) or r.dtype != np.float32:
		return ('err', f'returned {type(r).__name__} {getattr(r, "dtype", None)}'), None
	return ('ok', _bits(r)), r


def k_seq(ctx, cases):
	"""several calls one after the other on the SAME container, index object and (for steps with out='shared') the same
	output buffer; every result is compared at once and, for results the function allocated itself, again after the
	last call (a later call must not overwrite an array handed out earlier)"""
	cache = {}
	for c in cases:
		closers = []
		try:
			refs, closers = _xcont(c['cont'], c['refs'], c['rdt'])
			ri = _x_index(c.get('ri'), c.get('ri_form', 'list'), len(c['refs']))
			shared = {}
			done = []
			nontriv = False
			for k, s in enumerate(c['steps']):
				sc = dict(s, refs=c['refs'], rdt=c['rdt'], cont=c['cont'], ri=c.get('ri') if s['fn'] != 'array' else None)
				expect, shape = _x_expect(sc, cache)
				flatx = [x for row in expect for x in (row if isinstance(row, list) else [row])]
				nontriv = nontriv or (k > 0 and len(set(flatx)) >= 2)
				objs = dict(refs=refs, ri=ri if s['fn'] != 'array' else None, q=None, queries=None)
				if s['fn'] == 'array':
					objs['q'] = _sig(s['q'], s['qdt'])
				elif s['fn'] == 'matrix':
					objs['queries'] = refs if s.get('qcont') == 'same' else [_sig(q, s['qdt']) for q in s['queries']]
				f, args, kw = _x_args(sc, objs)
				if s['out'] == 'shared':
					key = (s['fn'], bool(s.get('flat')), tuple(shape))
					if key not in shared:
						shared[key] = np.full(tuple(shape), np.nan, dtype=np.float32)
					out = shared[key]
				elif s['out'] == 'fresh':
					out = np.full(tuple(shape), np.nan, dtype=np.float32)
				else:
					out = None
				_set_threads(s.get('threads', 1))
				got, obj = _call_obj(lambda: _x_invoke(f, args, kw, out, 'kw'))
				done.append((k, s, expect, got, obj, out))
		finally:
			_close(closers)
		ctx.case(c, nontrivial=nontriv)
		for k, s, expect, got, obj, out in done:
			what = f'call {k} of a sequence on shared objects (jaccarddist_{s["fn"]}, out={s["out"]})'
			if got != ('ok', expect):
				ctx.violation('sequence', c, f'{what}: a cell differs from gambit.metric.jaccarddist of the pair it stands for '
				              f'(or the call failed)', impl=got, spec=expect)
				break
			if out is not None and obj is not out:
				ctx.violation('sequence', c, f'{what}: result is not the caller-supplied buffer', impl=got)
				break
			if s['out'] != 'shared' and _bits(obj) != expect:
				ctx.violation('sequence', c, f'{what}: the returned array no longer holds its distances after later calls '
				              f'(results of different calls share memory)', impl=_bits(obj), spec=expect)
				break


def k_conc(ctx, cases):
	"""bulk calls issued at the same time from several Python threads (the kernel releases the GIL), each with its own
	OpenMP thread count; in-memory containers only"""
	import threading
	cache = {}
	for c in cases:
		jobs = c['jobs']
		built = []
		shared = None
		if c.get('shared'):
			# one references holder and one index object used by every job at the same time (state and aliasing audit)
			j0 = jobs[0]
			shared = dict(refs=_xcont(j0['cont'], j0['refs'], j0['rdt'])[0], ri=_x_index(c.get('ri'), c.get('ri_form', 'list'), len(j0['refs'])))
			before = {}
			_fp(shared['refs'], 'references', before)
			_fp(shared['ri'], 'indices', before)
		for j in jobs:
			objs, _ = _x_build(j)
			if shared:
				objs['refs'] = shared['refs']
				objs['ri'] = shared['ri'] if j['fn'] != 'array' else None
				if j.get('qcont') == 'same':
					objs['queries'] = shared['refs']
			f, args, kw = _x_args(j, objs)
			built.append((f, args, kw))
		barrier = threading.Barrier(len(jobs))
		results = [[] for _ in jobs]

		def work(k):
			f, args, kw = built[k]
			_set_threads(jobs[k].get('threads', 1))
			try:
				barrier.wait(timeout=30)
			except threading.BrokenBarrierError:
				pass
			for _ in range(c.get('reps', 1) * (20 if ctx.replaying else 1)):    # a race does not show on every run
				results[k].append(_call_obj(lambda: _x_invoke(f, args, kw, None, 'kw'))[0])
		ths = [threading.Thread(target=work, args=(k,)) for k in range(len(jobs))]
		for t in ths:
			t.start()
		for t in ths:
			t.join()
		nontriv = False
		bad = None
		for k, j in enumerate(jobs):
			expect, _ = _x_expect(j, cache)
			flatx = [x for row in expect for x in (row if isinstance(row, list) else [row])]
			nontriv = nontriv or len(set(flatx)) >= 2
			for rep, got in enumerate(results[k]):
				if got != ('ok', expect) and bad is None:
					bad = (k, rep, got, expect)
		ctx.case(c, nontrivial=nontriv and len(jobs) >= 2)
		if bad:
			k, rep, got, expect = bad
			ctx.violation('concurrent', c, f'job {k} (jaccarddist_{jobs[k]["fn"]}), run {rep}, issued together with {len(jobs) - 1} other '
			              f'bulk call(s) from other Python threads{" on the SAME references holder and index object" if shared else ""}: '
			              f'a cell differs from the pairwise distance (or the call failed)', impl=got, spec=expect)
		elif shared:
			after = {}
			_fp(shared['refs'], 'references', after)
			_fp(shared['ri'], 'indices', after)
			d = _fp_diff(before, after)
			if d is not None:
				ctx.violation('concurrent', c, f'bulk calls from {len(jobs)} Python threads on one references holder and one index object '
				              f'modified the caller\'s object {d}', impl=repr(after.get(d))[:600], spec=repr(before.get(d))[:600])


def _env_child():
	"""child process of k_env: thread count and schedule come from the OMP_* environment, never from omp_set_num_threads"""
	import sys
	import json
	c = json.load(sys.stdin)
	from gambit._cython import threads
	res = []
	for j in c['jobs']:
		objs, _ = _x_build(j)
		f, args, kw = _x_args(j, objs)
		res.append([_call_obj(lambda: _x_invoke(f, args, kw, None, 'kw'))[0] for _ in range(c.get('reps', 1))])
	json.dump(dict(max_threads=threads.omp_get_max_threads(), results=res), sys.stdout)


def k_env(ctx, cases):
	"""the OpenMP thread count given the way users give it: OMP_NUM_THREADS (and OMP_DYNAMIC / OMP_THREAD_LIMIT /
	OMP_SCHEDULE) in the environment of a fresh interpreter; in-memory containers only"""
	import subprocess
	import sys
	import json
	cache = {}
	for c in cases:
		env = {k: v for k, v in os.environ.items() if not k.startswith('OMP_') or k == 'OMP_WAIT_POLICY'}
		env.update(c['env'])
		nontriv = False
		expects = []
		for j in c['jobs']:
			expect, _ = _x_expect(j, cache)
			flatx = [x for row in expect for x in (row if isinstance(row, list) else [row])]
			nontriv = nontriv or len(set(flatx)) >= 2
			expects.append(expect)
		try:
			p = subprocess.run([sys.executable, '-c', 'from harness import c05; c05._env_child()'], input=json.dumps(c),
			                   capture_output=True, text=True, env=env, timeout=600)
			ans = json.loads(p.stdout) if p.returncode == 0 else None
		except Exception as e:
			p, ans = None, None
			err = repr(e)
		if ans is None:
			ctx.case(c, nontrivial=False)
			ctx.broke('envthreads child process', f'env {c["env"]}: rc {getattr(p, "returncode", None)} {(p.stderr[-600:] if p else err)}')
			continue
		ctx.count(f'envthreads:max_threads={ans["max_threads"]}')
		ctx.case(c, nontrivial=nontriv and ans['max_threads'] > 1)
		for k, (j, expect) in enumerate(zip(c['jobs'], expects)):
			bad = [r for r in ans['results'][k] if r != ['ok', expect]]
			if bad:
				ctx.violation('envthreads', c, f'job {k} (jaccarddist_{j["fn"]}, {j["cont"]}) in a fresh interpreter with {c["env"]} '
				              f'({ans["max_threads"]} OpenMP threads): a cell differs from the pairwise distance (or the call failed)',
				              impl=bad[0], spec=expect)
				break


# ---- statefulness and aliasing audit: scripts of calls over a small pool of shared, long-lived objects ---------
# A case holds 2-3 reference collections ("databases" of different or deliberately EQUAL size / signature lengths /
# dtype, each in its own holder), 1-3 query arrays, 1-2 query holders, 2 index objects; its steps are bulk calls that
# pick their arguments from that pool with repetition, and changes the CALLER makes to its own objects between calls.
# Judged per step: the property predicate (every cell = gambit.metric.jaccarddist of the pair, computed from the
# literals BEFORE the first step so that no other gambit call runs between two steps); result is the caller's
# buffer; cells of the caller's array outside the view handed in keep their guard value; every other pool object is
# bit-for-bit what it was before the call (out= is the one argument documented as written); a call marked `twice`
# gives the same answer both times; arrays handed out earlier keep their values.  Steps that must or may fail
# (index out of range for THIS collection, wrong buffer, bad item in the middle of the batch, an exception from the
# caller's own progress meter / query sequence, a closed signature file) are followed by good calls on the same
# objects and the same thread.  Judged by the predicate only (no Coq model: the model has no object identity).

ST_FILE = ('hdf5', 'hdf5-gzip', 'hdf5-group', 'hdf5-annot', 'hdf5-b32', 'annot-hdf5')                      # readers this kind opens (and may close) itself
ST_ITEM = ('pylist', 'strided-sigs', 'siglist', 'sub-list', 'siglist-of-array', 'annot-siglist')   # holders whose items the caller may replace
ST_GROW = ('pylist', 'strided-sigs', 'siglist', 'sub-list', 'siglist-of-array')              # ... and that the caller may extend / shorten
ST_CONTS_MAIN = ['array', 'hdf5', 'siglist', 'pylist', 'view', 'tuple']
ST_CONTS = [x for x in XCONT_HOMOG if x != 'annot-hdf5'] + ['annot-hdf5']
ST_IDX_FIXED = ('tuple', 'range', 'np-ro')                                                 # index forms the caller cannot write into
ST_OUTS = ['none', 'none', 'fresh', 'shared:C', 'shared:C', 'shared:strided', 'shared:block', 'shared:F', 'shared:T']
ST_GUARD = -7.5             # no distance has this value


def _st_inplace(cont):
	"""holder[i] is a writable view of the stored signature (everything that is not read from a file)"""
	return 'hdf5' not in cont


def _st_cont(name, sigs, dt):
	if name == 'hdf5':      # a reader of its own (the one _container hands out is shared between cases)
		from gambit.sigs.base import SignatureArray, dump_signatures, load_signatures
		from gambit.kmers import KmerSpec
		_state['nfile'] = _state.get('nfile', 0) + 1
		path = os.path.join(_state['dir'], f's{_state["nfile"]}.gs')
		dump_signatures(path, SignatureArray([_sig(s, dt) for s in sigs], KmerSpec(11, 'AT'), dtype=np.dtype(dt)), 'hdf5')
		h = load_signatures(path)
		return h, [h.close]
	if name == 'annot-hdf5':
		from gambit.sigs.base import AnnotatedSignatures, SignaturesMeta
		h, cl = _st_cont('hdf5', sigs, dt)
		return AnnotatedSignatures(h, ids=[f'g{i}' for i in range(len(sigs))], meta=SignaturesMeta(id='audit', id_attr='key')), cl
	return _xcont(name, sigs, dt)


def _st_buf(shape, lay):
	"""-> (view handed to the call, the caller's whole array, mask of the cells that belong to the view)"""
	shape = tuple(shape)
	if lay == 'strided':
		base = np.full(tuple(2 * s + 1 for s in shape), ST_GUARD, dtype=np.float32)
		sl = tuple(slice(1, 2 * s + 1, 2) for s in shape)
	elif lay == 'block':
		base = np.full(tuple(s + 4 for s in shape), ST_GUARD, dtype=np.float32)
		sl = tuple(slice(2, 2 + s) for s in shape)
	elif lay == 'F':
		base = np.full(shape, ST_GUARD, dtype=np.float32, order='F')
		sl = tuple(slice(None) for _ in shape)
	elif lay == 'T':
		t = np.full(shape[::-1], ST_GUARD, dtype=np.float32)
		return t.T, t, np.ones(shape[::-1], dtype=bool)
	else:
		base = np.full(shape, ST_GUARD, dtype=np.float32)
		sl = tuple(slice(None) for _ in shape)
	mask = np.zeros(base.shape, dtype=bool)
	mask[sl] = True
	return base[sl], base, mask


def _st_boom(at):
	from gambit.util.progress import TestProgressMeter

	class Boom(TestProgressMeter):
		calls = 0

		def increment(self, delta=1):
			self.calls += 1
			if self.calls >= at:
				raise RuntimeError('the caller\'s progress meter failed')
			super().increment(delta)
	return Boom


class _BoomSeq(list):
	"""a caller-supplied sequence of queries whose iteration fails at item `at`"""

	def __init__(self, items, at):
		super().__init__(items)
		self.at = at

	def __iter__(self):
		for k, x in enumerate(list.__iter__(self)):
			if k >= self.at:
				raise RuntimeError('the caller\'s sequence failed')
			yield x


def _fp_arr(a):
	base = a.base if isinstance(a.base, np.ndarray) else None
	return (a.dtype.str, a.shape, a.strides, bool(a.flags.writeable), a.tobytes(), None if base is None else base.tobytes())


def _fp(o, pre, acc):
	"""observable state of a caller-owned object -> acc[path] = comparable value"""
	import array
	from gambit.sigs.base import SignatureArray, SignatureList, AnnotatedSignatures
	from gambit.sigs.hdf5 import HDF5Signatures
	if isinstance(o, np.ndarray):
		acc[pre] = _fp_arr(o)
		return
	if isinstance(o, (list, tuple)):
		acc[pre + ' (length, which items)'] = (type(o).__name__, len(o), [id(x) for x in o])
		for i, x in enumerate(o):
			_fp(x, f'{pre}[{i}]', acc)
		return
	if isinstance(o, array.array):
		acc[pre] = (o.typecode, o.tobytes())
		return
	if hasattr(o, '__dict__'):
		acc[pre + '.vars'] = sorted(vars(o))
	if isinstance(o, AnnotatedSignatures):
		acc[pre + '.signatures (which object)'] = id(o.signatures)
		_fp(o.signatures, pre + '.signatures', acc)
		acc[pre + '.ids'] = [str(x) for x in o.ids]
		acc[pre + '.meta'] = repr(vars(o.meta)) if hasattr(o.meta, '__dict__') else repr(o.meta)
	elif isinstance(o, HDF5Signatures):
		acc[pre + '.open'] = bool(o)
		if o:
			acc[pre + '.file'] = (o.values[:].tobytes(), o.bounds.dtype.str, o.bounds[:].tobytes(), sorted((k, repr(v)) for k, v in o.group.attrs.items()))
			acc[pre + '.attrs'] = (id(o.group), id(o.values), id(o.bounds), [str(x) for x in o.ids], repr(o.kmerspec), repr(vars(o.meta)),
			                       int(o.format_version))
	elif isinstance(o, SignatureArray):
		acc[pre + '.values (which object)'] = id(o.values)
		acc[pre + '.bounds (which object)'] = id(o.bounds)
		acc[pre + '.kmerspec'] = repr(o.kmerspec)
		_fp(o.values, pre + '.values', acc)
		_fp(o.bounds, pre + '.bounds', acc)
	elif isinstance(o, SignatureList):
		acc[pre + '._list (which object)'] = id(o._list)
		acc[pre + '.dtype, kmerspec'] = (str(o.dtype), repr(o.kmerspec))
		_fp(o._list, pre + '._list', acc)
	elif hasattr(o, 'callable') and hasattr(o, 'kw'):      # ProgressConfig
		acc[pre + '.config'] = (id(o.callable), id(o.kw), repr(sorted(o.kw.items())))
	else:
		acc[pre] = (type(o).__name__, repr(o))


def _fp_diff(before, after):
	"""-> path of the first observable difference (attributes ADDED to an object are not one), or None"""
	for p, v in before.items():
		if p not in after:
			return p
		if p.endswith('.vars'):
			if not set(v) <= set(after[p]):
				return p
		elif after[p] != v:
			return p
	return None


def _st_fp_all(pool, prog):
	acc = {}
	for name in ('colls', 'qs', 'qsets', 'idx'):
		for k, o in enumerate(pool[name]):
			_fp(o, f'{name}[{k}]', acc)
	_fp(prog['cfg'], 'progress', acc)
	return acc


def _st_shape(c, s, sizes, idxlens):
	n = sizes[s['coll']]
	m = n if s.get('idx') is None else idxlens[s['idx']]
	if s['fn'] == 'array':
		return [n]
	if s['fn'] == 'matrix':
		nq = n if s['qset'] == 'coll' else len(c['qsets'][s['qset']]['sigs']) + (1 if s.get('fail') == 'badq' else 0)
		return [nq, m]
	return [m * (m - 1) // 2] if s.get('flat') else [m, m]


def _st_plan(c, cache):
	"""walk the script on the literals alone -> per step None (the caller's own change) or
	dict(mode='ok' | 'raise' | 'any', expect=cells, shape=shape of the result)"""
	colls = [dict(sigs=[None if s is None else list(s) for s in k['sigs']], dt=k['dt'], closed=False) for k in c['colls']]
	qs = [dict(dt=k['dt'], vals=list(k['vals'])) for k in c['qs']]
	idx = [list(k['vals']) for k in c['idx']]
	plan = []
	for s in c['steps']:
		op = s['op']
		if op != 'call':
			if op == 'set':
				colls[s['coll']]['sigs'][s['i']] = None if s['vals'] is None else list(s['vals'])
			elif op == 'grow':
				colls[s['coll']]['sigs'].append(list(s['vals']))
			elif op == 'shrink':
				colls[s['coll']]['sigs'].pop()
			elif op == 'close':
				colls[s['coll']]['closed'] = True
			elif op == 'rebuild':
				colls[s['coll']] = dict(sigs=[list(x) for x in s['sigs']], dt=colls[s['coll']]['dt'], closed=False)
			elif op == 'setidx':
				idx[s['k']][s['pos']] = s['val']
			elif op == 'setq':
				qs[s['k']]['vals'] = list(s['vals'])
			else:
				raise ValueError(op)
			plan.append(None)
			continue
		co = colls[s['coll']]
		n = len(co['sigs'])
		fn = s['fn']
		ri = idx[s['idx']] if (fn != 'array' and s.get('idx') is not None) else None
		same = fn == 'matrix' and s['qset'] == 'coll'
		shape = _st_shape(c, s, [len(k['sigs']) for k in colls], [len(k) for k in idx])
		m = n if ri is None else len(ri)
		touched = list(range(n)) if ri is None else _select(list(range(n)), ri)
		if co['closed'] or s.get('fail') in ('boom', 'badq', 'boomq'):
			mode = 'any'
		elif s.get('fail') == 'badout':
			mode = 'raise'
		elif touched is None:
			mode = 'raise' if (fn == 'matrix' or m >= 2) else 'any'
		elif any(co['sigs'][j] is None for j in touched) or (same and any(x is None for x in co['sigs'])):
			mode = 'any'
		else:
			mode = 'ok'
		expect = None
		if mode == 'ok':
			sc = dict(fn=fn, refs=co['sigs'], rdt=co['dt'], ri=ri, flat=s.get('flat'))
			if fn == 'array':
				sc.update(q=qs[s['q']]['vals'], qdt=qs[s['q']]['dt'])
			elif same:
				sc['qcont'] = 'same'
			elif fn == 'matrix':
				sc.update(queries=c['qsets'][s['qset']]['sigs'], qdt=c['qsets'][s['qset']]['dt'])
			expect, shape2 = _x_expect(sc, cache)
			assert list(shape2) == list(shape), (shape, shape2)
		plan.append(dict(mode=mode, expect=expect, shape=shape))
	return plan


def _st_apply(s, c, pool, coll_closers):
	"""a change the CALLER makes to one of its own objects between two calls"""
	op = s['op']
	if op in ('set', 'grow', 'shrink', 'close', 'rebuild'):
		k = s['coll']
		cont, dt = c['colls'][k]['cont'], c['colls'][k]['dt']
		obj = pool['colls'][k]
		tgt = obj.signatures if cont.startswith('annot-') else obj
		if op == 'set' and s['mode'] == 'item':
			tgt[s['i']] = np.array([1.5, 2.5], dtype='f4') if s['vals'] is None else _sig(s['vals'], dt)
		elif op == 'set':
			new = _sig(s['vals'], dt)
			view = obj[s['i']]
			view[...] = new
			if not np.array_equal(obj[s['i']], new):
				raise RuntimeError(f'harness: {cont}[i] is not a view of the stored signature')
		elif op == 'grow':
			tgt.append(_sig(s['vals'], dt))
		elif op == 'shrink':
			tgt.pop()
		elif op == 'close':
			_close(coll_closers[k])
		else:
			_close(coll_closers[k])
			pool['colls'][k] = obj = tgt = None          # the old object is gone before the new one is made (its address may be reused)
			pool['colls'][k], coll_closers[k] = _st_cont(cont, s['sigs'], dt)
	elif op == 'setidx':
		pool['idx'][s['k']][s['pos']] = s['val']
	elif op == 'setq':
		pool['qs'][s['k']][...] = _sig(s['vals'], c['qs'][s['k']]['dt'])
	else:
		raise ValueError(op)


def _st_invoke(s, c, pool, prog, out):
	import warnings
	import gambit.metric as gm
	refs = pool['colls'][s['coll']]
	fn = s['fn']
	ri = pool['idx'][s['idx']] if (fn != 'array' and s.get('idx') is not None) else None
	kw = {}
	p = s.get('progress')
	if s.get('fail') == 'boom':
		kw['progress'] = _st_boom(s.get('at', 1))
	elif p is not None:
		kw['progress'] = prog[p]
	with warnings.catch_warnings():
		warnings.simplefilter('ignore')
		if fn == 'array':
			return gm.jaccarddist_array(pool['qs'][s['q']], refs, out=out)
		if fn == 'matrix':
			queries = refs if s['qset'] == 'coll' else pool['qsets'][s['qset']]
			if s.get('fail') == 'badq':
				queries = list(queries)
				queries.insert(min(s.get('at', 1), len(queries)), np.array([0.5, 1.5], dtype='f4'))
			elif s.get('fail') == 'boomq':
				queries = _BoomSeq(list(queries), s.get('at', 1))
			return gm.jaccarddist_matrix(queries, refs, ref_indices=ri, out=out, chunksize=s.get('cs'), **kw)
		return gm.jaccarddist_pairwise(refs, indices=ri, flat=bool(s.get('flat')), out=out, **kw)


def _st_run(c, plan):
	"""-> (None | (what, values), nontrivial, counters)"""
	import threading
	from gambit.util.progress import TestProgressMeter, progress_config
	stats = {}

	def count(key):
		stats[key] = stats.get(key, 0) + 1
	closers = []
	coll_closers = []
	pool = dict(colls=[], qs=[], qsets=[], idx=[])
	try:
		for k in c['colls']:
			obj, cl = _st_cont(k['cont'], k['sigs'], k['dt'])
			pool['colls'].append(obj)
			coll_closers.append(cl)
		pool['qs'] = [_sig(k['vals'], k['dt']) for k in c['qs']]
		for k in c['qsets']:
			obj, cl = _xcont(k['cont'], k['sigs'], k['dt'])
			pool['qsets'].append(obj)
			closers += cl
		pool['idx'] = [_x_index(k['vals'], k['form']) for k in c['idx']]
		prog = dict(cfg=progress_config(TestProgressMeter).update(desc='Calculating distances'), cls=TestProgressMeter)
		bufs = {}       # (shape, layout) -> [view, whole array, mask, bytes of the whole array after its last use]
		kept = []       # (step, array the call returned in memory of its own, expected cells)
		base = _st_fp_all(pool, prog)
		n_ok = 0
		nontriv = False
		for k, (s, p) in enumerate(zip(c['steps'], plan)):
			if p is None:
				_st_apply(s, c, pool, coll_closers)
				base = _st_fp_all(pool, prog)
				count('state:caller-change:' + s['op'])
				continue
			what = (f'step {k} of a script on shared objects (jaccarddist_{s["fn"]} on collection {s["coll"]} [{c["colls"][s["coll"]]["cont"]}], '
			        f'indices {s.get("idx")}, out={s["out"]}{", expected to fail: " + str(s.get("fail") or "input") if p["mode"] != "ok" else ""})')
			shape = list(p['shape'])
			buf = None
			if s.get('fail') == 'badout':
				bad = shape[:-1] + [shape[-1] + 1]
				buf = list(_st_buf(bad, 'C')) + [None]
			elif s['out'].startswith('shared:'):
				key = (tuple(shape), s['out'][7:])
				if key not in bufs:
					bufs[key] = list(_st_buf(shape, key[1])) + [None]
					bufs[key][3] = bufs[key][1].tobytes()
				buf = bufs[key]
			elif s['out'] == 'fresh':
				buf = list(_st_buf(shape, 'C')) + [None]
			out = None if buf is None else buf[0]
			runs = []

			def work():
				_set_threads(min(s.get('threads', 1), 4) if s.get('thread') else s.get('threads', 1))
				for _ in range(2 if s.get('twice') else 1):
					runs.append(_call_obj(lambda: _st_invoke(s, c, pool, prog, out)))
			if s.get('thread'):
				t = threading.Thread(target=work)
				t.start()
				t.join()
				count('state:call-from-second-thread')
			else:
				work()
			count('state:call:' + p['mode'])
			# -- the outcome
			for r, (got, obj) in enumerate(runs):
				if p['mode'] == 'ok':
					if got != ('ok', p['expect']):
						again = ' (the same call repeated at once)' if r else ''
						return (f'{what}{again}: a cell differs from gambit.metric.jaccarddist of the pair it stands for (or the call failed)',
						        dict(impl=got, spec=p['expect'])), nontriv, stats
					if out is not None and obj is not out:
						return (f'{what}: result is not the caller-supplied buffer', dict(impl=got)), nontriv, stats
					if out is None or s['out'] == 'fresh':
						kept.append((k, obj, p['expect']))
				elif p['mode'] == 'raise' and got[0] != 'err':
					return (f'{what}: returned an array although a cell of it has no pair to stand for', dict(impl=got)), nontriv, stats
				elif got[0] == 'err':
					count('state:failed-call:' + got[1].split(':')[0])
			if p['mode'] == 'ok':
				n_ok += 1
				flatx = [x for row in p['expect'] for x in (row if isinstance(row, list) else [row])]
				nontriv = nontriv or (n_ok >= 2 and len(set(flatx)) >= 2)
			# -- the caller's objects after the call
			if buf is not None:
				whole, mask = buf[1], buf[2]
				if not bool(np.all(whole[~mask] == np.float32(ST_GUARD))):
					return (f'{what}: cells of the caller\'s array OUTSIDE the {s["out"]} view it passed as `out` were written',
					        dict(impl=_bits(whole).__repr__()[:400])), nontriv, stats
				buf[3] = whole.tobytes()
			for key, other in bufs.items():
				if other is not buf and other[1].tobytes() != other[3]:
					return (f'{what}: an output buffer of an EARLIER call (shape {list(key[0])}, {key[1]}), not passed to this one, was written',
					        dict(impl=_bits(other[0]))), nontriv, stats
			after = _st_fp_all(pool, prog)
			d = _fp_diff(base, after)
			if d is not None:
				return (f'{what}: the call modified the caller\'s object {d} (only `out` is documented as written)',
				        dict(impl=repr(after.get(d))[:600], spec=repr(base.get(d))[:600])), nontriv, stats
		for k, obj, expect in kept:
			if _bits(obj) != expect:
				return (f'step {k}: the array the call returned no longer holds its distances after later calls (results of different calls '
				        f'share memory)', dict(impl=_bits(obj), spec=expect)), nontriv, stats
		return None, nontriv, stats
	finally:
		_close(closers)
		for cl in coll_closers:
			_close(cl)


def k_state(ctx, cases):
	cache = {}
	for c in cases:
		plan = _st_plan(c, cache)
		bad, nontriv, stats = _st_run(c, plan)
		ctx.case(c, nontrivial=nontriv)
		for key, v in stats.items():
			ctx.count(key, v)
		if bad:
			ctx.violation('state', c, bad[0], **bad[1])


def k_chunkgens(ctx, cases):
	"""chunk_slices is a generator function: several generators alive at once (and the same arguments asked for again)
	must each yield their own slices"""
	from gambit.util.misc import chunk_slices
	for c in cases:
		pairs = [tuple(p) for p in c['pairs']]
		want = [[[a, a + size] for a in range(0, max(n, 0), size)] for n, size in pairs]
		gens = [chunk_slices(n, size) for n, size in pairs]
		got = [[] for _ in pairs]
		live = list(range(len(pairs)))
		while live:
			for g in list(live):
				try:
					sl = next(gens[g])
					got[g].append([sl.start, sl.stop])
				except StopIteration:
					live.remove(g)
		ctx.case(c, nontrivial=len(pairs) >= 2 and any(len(w) >= 2 for w in want))
		for g, (n, size) in enumerate(pairs):
			covered = [x for a, b in got[g] for x in list(range(n))[a:b]]
			if covered != list(range(n)) or len(got[g]) != len(want[g]):
				ctx.violation('chunkgens', c, f'chunk_slices({n}, {size}), advanced in turn with {len(pairs) - 1} other generator(s) '
				              f'(same arguments asked for more than once): the slices are not its own', impl=got[g], spec=want[g])
				break


# ---- blocks read out of a holder (kind `blocks`) -------------------------------------------------------------------
# The documented way to get the signatures of a file (or part of any holder) into memory is to index the holder:
# holder[a:b], holder[:], holder[index list], holder[i].  What comes out is itself a collection of signatures (or one
# signature) and is passed to the bulk functions as the queries, the references or the query - while the holder it came
# from is still open and is read again (as the references of the same call, chunk by chunk; by a later take; by another
# call).  Judged by the property predicate only: every cell against gambit.metric.jaccarddist of the two signatures, built
# afresh from the case's own lists, that the cell stands for.

BLK_FILE = ['hdf5', 'hdf5', 'hdf5', 'hdf5-gzip', 'hdf5-group', 'hdf5-b32', 'hdf5-annot', 'annot-hdf5']
BLK_MEM = ['array', 'view', 'siglist', 'annot-array', 'bounds-i4', 'junk-ends', 'sub-array', 'siglist-of-array', 'fancy',
           'pylist', 'tuple']
BLK_PLAIN = ('pylist', 'tuple')      # plain Python sequences: only holder[a:b] / holder[i] exist


def _blk_holder(name, sigs, dt):
	"""like _xcont, but a plain signature file is written and opened afresh for every case (the readers of _container are
	shared by all cases of a run: a replay, which runs one case in a new process, must see the same reader history)"""
	if name in ('hdf5', 'annot-hdf5'):
		from gambit.sigs.base import SignatureArray, AnnotatedSignatures, SignaturesMeta, dump_signatures, load_signatures
		from gambit.kmers import KmerSpec
		ks = KmerSpec(11, 'AT')
		_state['nfile'] = _state.get('nfile', 0) + 1
		path = os.path.join(_state['dir'], f'k{_state["nfile"]}.gs')
		dump_signatures(path, SignatureArray([_sig(s, dt) for s in sigs], ks, dtype=np.dtype(dt)), 'hdf5')
		h = load_signatures(path)
		closers = [h.close, lambda: os.remove(path)]
		if name == 'annot-hdf5':
			return AnnotatedSignatures(h, ids=[f'g{i}' for i in range(len(sigs))], meta=SignaturesMeta(id='blocks', id_attr='key')), closers
		return h, closers
	return _xcont(name, sigs, dt)


def _blk_indices(n, s):
	"""positions (in the holder) of the signatures a take step hands out, in order; an int for a single item"""
	how = s['how']
	if how == 'full':
		return list(range(n))
	if how == 'slice':
		return list(range(n))[s['a']:s['b']]
	if how == 'stepslice':
		return list(range(n))[s['a']:s['b']:s['step']]
	if how == 'item':
		return _norm(n, s['i'])
	return [_norm(n, i) for i in s['idx']]       # index / items


def _blk_take(holder, s):
	how = s['how']
	if how == 'full':
		return holder[:]
	if how == 'slice':
		return holder[s['a']:s['b']]
	if how == 'stepslice':
		return holder[s['a']:s['b']:s['step']]
	if how == 'item':
		return holder[s['i']]
	if how == 'items':
		return [holder[i] for i in s['idx']]
	return holder[_x_index(s['idx'], s.get('form', 'list'))]


def _blk_plan(c, cache):
	"""-> (per step: None for a take, (expected cells, shape) for a call; non-trivial?) - computed from the case's lists
	before the holder exists"""
	sigs, dt, n = c['sigs'], c['dt'], len(c['sigs'])
	contents, taken_at, plan = [], [], []
	reads = 0
	nontriv = False

	def resolve(ref):
		if ref == 'H':
			return [sigs[i] for i in range(n)], dt
		if ref == 'own':
			return c['own'], c['owndt']
		return [sigs[i] for i in contents[ref]], dt

	for s in c['steps']:
		if s['op'] == 'take':
			reads += 1
			contents.append(_blk_indices(n, s))
			taken_at.append(reads)
			plan.append(None)
			continue
		rl, rdt = resolve(s['r'])
		sc = dict(fn=s['fn'], refs=rl, rdt=rdt, ri=s.get('ri'), flat=s.get('flat'))
		if s['fn'] == 'matrix':
			sc['queries'], sc['qdt'] = resolve(s['q'])
		elif s['fn'] == 'array':
			if s['q'] == 'own':
				sc['q'], sc['qdt'] = c['own'][0], c['owndt']
			else:
				sc['q'], sc['qdt'] = sigs[contents[s['q']]], dt
		cells, shape = _x_expect(sc, cache)
		plan.append((cells, shape))
		flat = [x for row in cells for x in (row if isinstance(row, list) else [row])]
		used = [r for r in (s.get('q'), s['r']) if isinstance(r, int)]
		# a block that was handed out BEFORE another read of its holder (a later take, a call on the holder itself - this one included)
		on_holder = 'H' in (s.get('q'), s['r'])
		stale = any(taken_at[b] < reads or on_holder for b in used)
		nontriv = nontriv or (len(set(flat)) >= 2 and stale)
		reads += 1 if on_holder else 0
	return plan, nontriv


def k_blocks(ctx, cases):
	import gambit.metric as gm
	cache = {}
	for c in cases:
		plan, nontriv = _blk_plan(c, cache)
		ctx.case(c, nontrivial=nontriv)
		closers = []
		done = []
		try:
			holder, closers = _blk_holder(c['cont'], c['sigs'], c['dt'])
			own = [_sig(q, c['owndt']) for q in c.get('own', [])]
			blocks = []

			def obj(ref):
				return holder if ref == 'H' else own if ref == 'own' else blocks[ref]

			for k, (s, p) in enumerate(zip(c['steps'], plan)):
				if s['op'] == 'take':
					b = _blk_take(holder, s)
					blocks.append(b if s.get('keep', True) else None)
					del b
					continue
				cells, shape = p
				out = np.full(tuple(shape), np.nan, dtype=np.float32) if s.get('out') else None
				ri = _x_index(s.get('ri'), s.get('ri_form', 'list'))
				_set_threads(s.get('threads', 1))
				if s['fn'] == 'matrix':
					call = lambda: gm.jaccarddist_matrix(obj(s['q']), obj(s['r']), ref_indices=ri, out=out, chunksize=s.get('cs'))
				elif s['fn'] == 'array':
					q = own[0] if s['q'] == 'own' else blocks[s['q']]
					call = lambda: gm.jaccarddist_array(q, obj(s['r']), out=out)
				else:
					call = lambda: gm.jaccarddist_pairwise(obj(s['r']), indices=ri, flat=bool(s.get('flat')), out=out)
				got, res = _call_obj(call)
				done.append((k, s, cells, got, res, out))
		finally:
			_close(closers)
		for k, s, cells, got, res, out in done:
			names = {'H': 'the holder itself', 'own': "the caller's own arrays"}
			role = ', '.join(f'{w} = {names.get(s[key], "block " + str(s[key]) + " read out of the holder earlier")}'
			                 for w, key in (('queries' if s['fn'] == 'matrix' else 'query', 'q'), ('references', 'r')) if key in s)
			what = f'step {k}: jaccarddist_{s["fn"]} [{c["cont"]}; {role}; chunksize {s.get("cs")}, indices {s.get("ri")}, threads {s.get("threads", 1)}]'
			if got != ('ok', cells):
				ctx.violation('blocks', c, f'{what}: a cell differs bit-wise from gambit.metric.jaccarddist of the pair it stands for '
				              f'(or the call failed)', impl=got, spec=cells)
				break
			if out is not None and res is not out:
				ctx.violation('blocks', c, f'{what}: result is not the caller-supplied buffer', impl=got)
				break


KINDS = {'array': k_array, 'matrix': k_matrix, 'pairwise': k_pairwise, 'chunks': k_chunks, 'schedule': k_schedule,
         'api': k_api, 'sequence': k_seq, 'concurrent': k_conc, 'envthreads': k_env, 'state': k_state, 'chunkgens': k_chunkgens,
         'blocks': k_blocks}
SHRINK = False
BATCH = 400


# ---- generators -------------------------------------------------------------------------------------

def _rand_sig(rng, size, universe):
	size = min(size, universe)
	return sorted(rng.sample(range(universe), size))


def _rand_coll(rng, n, maxsize, universe):
	"""collection with empty signatures, one-element signatures and duplicates of each other"""
	out = []
	for _ in range(n):
		t = rng.random()
		if out and t < 0.2:
			out.append(list(rng.choice(out)))
		elif t < 0.3:
			out.append([])
		elif t < 0.4:
			out.append([rng.randrange(universe)])
		else:
			out.append(_rand_sig(rng, rng.randint(1, maxsize), universe))
	return out


def _rand_indices(rng, n, allow_neg=True):
	if n == 0:
		return []
	k = rng.choice([1, n, n + 2, 2 * n, rng.randint(0, n + 3)])
	lo = -n if allow_neg else 0
	return [rng.randint(lo, n - 1) for _ in range(k)]


def generate(ctx):
	rng = ctx.rng
	ctx.rule(RULE)
	conts = ['array', 'hdf5', 'siglist', 'pylist', 'view']
	tcycle = itertools.cycle(range(1, 17))
	dcycle = itertools.cycle([(a, b) for a in GOOD_DT for b in GOOD_DT])

	# -- chunk_slices: exhaustive small scope
	nmax = ctx.pick(14, 40)
	for n in range(0, nmax + 1):
		for size in range(-2, n + 4):
			ctx.count('stream:chunks-exhaustive')
			yield 'chunks', dict(n=n, size=size)
	yield 'chunks', dict(n=-3, size=2)
	yield 'chunks', dict(n=10 ** 6, size=10 ** 5 - 1)

	# -- jaccarddist_array: exhaustive over collections of <= 3 signatures from the subsets of {0, 1}, and of {3,5,8} tails
	pool = [[], [0], [1], [0, 1]]
	count = 0
	for k in range(0, 4):
		for refs in itertools.product(pool, repeat=k):
			for q in pool:
				for cont in ('array', 'siglist', 'pylist'):
					dq, dr = next(dcycle)
					count += 1
					yield 'array', dict(cont=cont, dq=dq, dr=dr, q=q, refs=[list(r) for r in refs], threads=next(tcycle))
	ctx.count('stream:array-exhaustive', count)
	ctx.exhaustive = True
	ctx.extra['exhaustive_scope'] = ('chunk_slices(n, size) for all 0 <= n <= %d, -2 <= size <= n+3; jaccarddist_array for every '
	                                 'collection of <= 3 signatures drawn from the 4 subsets of {0,1} x 4 queries x 3 in-memory '
	                                 'containers (dtype pair and thread count cycling); jaccarddist_matrix for every chunk size '
	                                 '1..n+2 and None on fixed families of n <= 5 references x 5 containers' % nmax)

	# -- fixed families (empty / one-element / duplicate signatures; n = 0, 1, 2, ...)
	fams = [
		[],
		[[]],
		[[4]],
		[[], []],
		[[1, 2, 3], [1, 2, 3]],
		[[], [5], [5]],
		[[1, 2, 3], [], [2, 3, 4, 9], [1, 2, 3]],
		[[0, 2, 4, 6], [1, 3, 5], [0, 1, 2, 3, 4, 5, 6], [6], [], ],
		[[10, 20, 30], [10, 20], [10], [20, 30, 40, 50], [10, 20, 30]],
	]
	qfams = [[], [[2, 3]], [[], [1, 2, 3, 10]], [[5], [0, 2, 4, 6], [10, 20, 30]]]

	# -- jaccarddist_matrix: every chunk size 1..n+2 and None x containers x index selections
	for refs in fams:
		n = len(refs)
		for cont in conts:
			for queries in qfams:
				sels = [None]
				if n:
					sels += [list(range(n - 1, -1, -1)), [0] * (n + 1), [-1, 0, -1], _rand_indices(rng, n)]
				else:
					sels += [[]]
				for ri in sels:
					nr = n if ri is None else len(ri)
					for cs in [None] + list(range(1, nr + 3)):
						dq, dr = next(dcycle)
						ctx.count('stream:matrix-families')
						yield 'matrix', dict(cont=cont, dq=dq, dr=dr, queries=queries, refs=refs, ri=ri,
						                     ri_kind=rng.choice(['list', 'i8', 'i4', 'u2']) if ri is not None and min(ri, default=0) >= 0 else rng.choice(['list', 'i8', 'i2']),
						                     chunksize=cs, threads=next(tcycle),
						                     out=rng.choice([None, None, dict(shape=[len(queries), nr], layout=rng.choice(['C', 'F', 'strided']))]))

	# -- jaccarddist_pairwise: families x containers x flat x selections x buffers
	for sigs in fams:
		n = len(sigs)
		for cont in conts:
			for flat in (False, True):
				sels = [None]
				if n:
					sels += [list(range(n - 1, -1, -1)), [0, 0, n - 1], [-1], _rand_indices(rng, n)]
				else:
					sels += [[]]
				for idx in sels:
					m = n if idx is None else len(idx)
					shape = [m * (m - 1) // 2] if flat else [m, m]
					for out in (None, dict(shape=shape, layout='C'), dict(shape=shape, layout='strided')):
						ctx.count('stream:pairwise-families')
						yield 'pairwise', dict(cont=cont, d=rng.choice(GOOD_DT), sigs=sigs, indices=idx,
						                       idx_kind=rng.choice(['list', 'i8']), flat=flat, out=out, threads=next(tcycle))

	# -- the prange loop itself: more threads than references, repeated runs under the dynamic schedule
	nsched = ctx.pick(120, 1200)
	for _ in range(nsched):
		n = rng.choice([0, 1, 2, 3, 5, 8, 17, 40])
		refs = _rand_coll(rng, n, rng.choice([3, 30, 300]), rng.choice([8, 64, 4096]))
		q = _rand_sig(rng, rng.choice([0, 1, 5, 50, 300]), 4096)
		pi = list(range(n))
		rng.shuffle(pi)
		dq, dr = next(dcycle)
		ctx.count('stream:schedule')
		yield 'schedule', dict(q=q, refs=refs, pi=pi, dq=dq, dr=dr, threads=rng.randint(1, 16), reps=ctx.pick(8, 40))

	# -- random structured bulk calls
	nrand = ctx.pick(260, 3000)
	for _ in range(nrand):
		n = rng.choice([0, 1, 2, 3, 4, 6, 9, 13, 24])
		universe = rng.choice([6, 40, 1000, 60000])
		refs = _rand_coll(rng, n, rng.choice([2, 10, 120]), universe)
		cont = rng.choice(conts)
		dq, dr = next(dcycle)
		threads = rng.randint(1, 16)
		which = rng.choice(['array', 'matrix', 'matrix', 'pairwise'])
		reps = rng.choice([1, 1, 3])
		if which == 'array':
			out = rng.choice([None, dict(shape=[n], layout=rng.choice(['C', 'strided']))])
			ctx.count('stream:random-array')
			yield 'array', dict(cont=cont, dq=dq, dr=dr, q=_rand_sig(rng, rng.randint(0, 60), universe), refs=refs,
			                    out=out, threads=threads, reps=reps)
		elif which == 'matrix':
			queries = _rand_coll(rng, rng.choice([0, 1, 2, 5]), rng.choice([2, 10, 120]), universe)
			if refs and rng.random() < 0.4:
				queries = queries + [list(rng.choice(refs))]
			ri = rng.choice([None, _rand_indices(rng, n)]) if n else rng.choice([None, []])
			nr = n if ri is None else len(ri)
			cs = rng.choice([None, 1, 2, 3, max(1, nr - 1), max(1, nr), nr + 1, nr + 2, rng.randint(1, nr + 3)])
			out = rng.choice([None, None, dict(shape=[len(queries), nr], layout=rng.choice(['C', 'F', 'strided']))])
			ctx.count('stream:random-matrix')
			yield 'matrix', dict(cont=cont, qcont=rng.choice([None, None, 'array', 'siglist']), dq=dq, dr=dr, queries=queries,
			                     refs=refs, ri=ri, ri_kind=rng.choice(['list', 'i8']), chunksize=cs, out=out,
			                     threads=threads, reps=reps)
		else:
			flat = rng.random() < 0.5
			idx = rng.choice([None, _rand_indices(rng, n)]) if n else rng.choice([None, []])
			m = n if idx is None else len(idx)
			shape = [m * (m - 1) // 2] if flat else [m, m]
			out = rng.choice([None, dict(shape=shape, layout=rng.choice(['C', 'F', 'strided']))])
			ctx.count('stream:random-pairwise')
			yield 'pairwise', dict(cont=cont, d=dr, sigs=refs, indices=idx, idx_kind=rng.choice(['list', 'i8']), flat=flat,
			                       out=out, threads=threads, reps=reps)

	# -- malformed stream: wrong buffers, chunk sizes, indices, dtypes
	refs = [[1, 2, 3], [], [2, 3, 4, 9], [1, 2, 3]]
	queries = [[2, 3], [1]]
	for cont in conts:
		for out in (dict(shape=[3]), dict(shape=[5]), dict(shape=[4], dtype='f8'), dict(shape=[4], dtype='i4'),
		            dict(shape=[4, 1]), dict(shape=[2, 2]), dict(shape=[3], dtype='f8')):
			ctx.count('stream:malformed-array-out')
			yield 'array', dict(cont=cont, dq='u2', dr='u4', q=[2, 3], refs=refs, out=out, threads=2)
		for out in (dict(shape=[2, 3]), dict(shape=[4, 2]), dict(shape=[8]), dict(shape=[2, 4], dtype='f8'),
		            dict(shape=[2, 4, 1]), dict(shape=[1, 4], dtype='f8')):
			for cs in (None, 2):
				ctx.count('stream:malformed-matrix-out')
				yield 'matrix', dict(cont=cont, dq='u2', dr='u4', queries=queries, refs=refs, ri=None, chunksize=cs, out=out, threads=2)
		for cs in (0, -1, -5):
			for out in (None, dict(shape=[2, 4]), dict(shape=[2, 3])):
				ctx.count('stream:malformed-chunksize')
				yield 'matrix', dict(cont=cont, dq='u2', dr='u4', queries=queries, refs=refs, ri=None, chunksize=cs, out=out, threads=1)
			yield 'matrix', dict(cont=cont, dq='u2', dr='u4', queries=[], refs=[], ri=None, chunksize=cs, out=None, threads=1)
		for ri in ([0, 4], [-5], [1, 2, 3, 4, 0], [0, 1, 2, 7]):
			for cs in (None, 1, 2, 3):
				ctx.count('stream:malformed-indices')
				yield 'matrix', dict(cont=cont, dq='u2', dr='u4', queries=queries, refs=refs, ri=ri, chunksize=cs, out=None, threads=1)
			for flat in (False, True):
				yield 'pairwise', dict(cont=cont, d='u4', sigs=refs, indices=ri, flat=flat, out=None, threads=1)
		for flat, out in ((False, dict(shape=[4, 3])), (False, dict(shape=[6])), (False, dict(shape=[4, 4], dtype='f8')),
		                  (True, dict(shape=[5])), (True, dict(shape=[4, 4])), (True, dict(shape=[6], dtype='f8')),
		                  (True, dict(shape=[7], dtype='f8'))):
			ctx.count('stream:malformed-pairwise-out')
			yield 'pairwise', dict(cont=cont, d='u4', sigs=refs, indices=None, flat=flat, out=out, threads=2)
	for cont in ('array', 'siglist', 'pylist'):
		for dq, dr in (('u1', 'u2'), ('u2', 'u1'), ('f4', 'u2'), ('u2', 'f8'), ('i1', 'i1')):
			for r in (refs, []):
				ctx.count('stream:malformed-dtype')
				yield 'array', dict(cont=cont, dq=dq, dr=dr, q=[2, 3], refs=r, threads=1)
				yield 'matrix', dict(cont=cont, dq=dq, dr=dr, queries=queries, refs=r, ri=None, chunksize=None, out=None, threads=1)

	# ======== streams added by the coverage audit (see the table in the module docstring) ========================
	yield from _audit_streams(ctx)

	# ======== streams added by the statefulness / aliasing audit (section "state and aliasing" of the docstring) =====
	yield from _state_streams(ctx)

	# ======== blocks read out of a holder and used while the holder is read again (kind `blocks`) =====
	yield from _block_streams(ctx)


def _top(dt):
	bits = 8 * int(dt[1:])
	return 2 ** (bits - 1) if dt[0] == 'i' else 2 ** bits


def _wide_sig(rng, dt, k=None):
	"""sorted distinct values spread over the whole range of dt, clustered at 0, 2^15, 2^16, 2^31, 2^32, 2^63, 2^64 so
	that values of different signatures coincide exactly or modulo 2^16 / 2^32 (what a narrowing cast would confuse)"""
	top = _top(dt)
	offs = [o for o in (0, 2 ** 15 - 6, 2 ** 16 - 6, 2 ** 16, 2 ** 31 - 6, 2 ** 32 - 6, 2 ** 32, 2 ** 32 + 2 ** 16, 2 ** 48, 2 ** 63 - 6,
	                    2 ** 63, 2 ** 64 - 6) if o < top]
	pool = sorted({o + b for o in offs for b in range(6) if o + b < top})
	k = rng.choice([0, 1, 2, 3, 5, 8, 13]) if k is None else k
	return sorted(rng.sample(pool, min(k, len(pool))))


def _coll(rng, n, dts, wide):
	dl = _dlist(dts, n)
	if not wide:
		return _rand_coll(rng, n, rng.choice([2, 6, 20]), rng.choice([6, 40, 1000, 30000]))
	out = []
	for d in dl:
		if out and rng.random() < 0.25:
			out.append([v for v in rng.choice(out) if v < _top(d)])
		else:
			out.append(_wide_sig(rng, d))
	return out


def _api_case(rng, fn=None, n=None, wide=None, hetero=False, **over):
	fn = fn or rng.choice(['array', 'matrix', 'matrix', 'pairwise'])
	n = rng.choice([0, 1, 2, 3, 4, 6, 9]) if n is None else n
	wide = (rng.random() < 0.5) if wide is None else wide
	rdt = [rng.choice(GOOD_DT) for _ in range(n)] if hetero and n >= 2 else rng.choice(GOOD_DT)
	c = dict(fn=fn, cont='array', refs=_coll(rng, n, rdt, wide), rdt=rdt, threads=rng.randint(1, 16), reps=rng.choice([1, 1, 2]))
	if fn == 'array':
		c['qdt'] = rng.choice(GOOD_DT)
		c['q'] = _coll(rng, 1, c['qdt'], wide)[0] if rng.random() < 0.8 else []
	elif fn == 'matrix':
		nq = rng.choice([1, 2, 3])
		c['qdt'] = [rng.choice(GOOD_DT) for _ in range(nq)] if hetero and nq >= 2 else rng.choice(GOOD_DT)
		c['queries'] = _coll(rng, nq, c['qdt'], wide)
		c['ri'] = rng.choice([None, _rand_indices(rng, n)]) if n else rng.choice([None, []])
		nr = n if c['ri'] is None else len(c['ri'])
		c['cs'] = rng.choice([None, 1, 2, 3, max(1, nr - 1), nr + 1, rng.randint(1, nr + 3)])
	else:
		c['flat'] = rng.random() < 0.5
		c['ri'] = rng.choice([None, _rand_indices(rng, n)]) if n else rng.choice([None, []])
	c.update(over)
	return c


def _fit_index_form(rng, c, form):
	"""make the index selection of c expressible in `form` (draw a new selection if needed)"""
	n = len(c['refs'])
	if c.get('ri') is None or not _ri_ok(c['ri'], form):
		if n == 0:
			c['ri'] = []
		elif form == 'range':
			step = rng.choice([1, 2, -1, -2, 3])
			start = rng.randint(-n, n - 1)
			c['ri'] = [i for i in range(start, start + step * rng.randint(1, n + 1), step) if -n <= i < n]
		elif form in ('np:u1', 'np:u2', 'np:u8', 'np:>u2'):
			c['ri'] = [rng.randrange(n) for _ in range(rng.choice([1, n, n + 2]))]
		else:
			c['ri'] = _rand_indices(rng, n)
	c['ri_form'] = form
	return c


def _audit_streams(ctx):
	rng = ctx.rng
	mem = ['array', 'siglist', 'pylist', 'view']
	conts5 = ['array', 'hdf5', 'siglist', 'pylist', 'view']
	tcycle = itertools.cycle(range(1, 17))
	dcycle = itertools.cycle([(a, b) for a in GOOD_DT for b in GOOD_DT])
	K = ctx.pick(2, 6)

	# -- (a) more caller-supplied buffer layouts, through the modelled kinds (model compared as well)
	lay2 = ['neg', 'block', 'T', 'rowstrided', 'colstrided', 'subclass', 'memmap']
	for lay in lay2:
		for cont in conts5:
			for _ in range(2 * K):
				n = rng.choice([2, 3, 5, 8])
				refs = _rand_coll(rng, n, 10, rng.choice([6, 40]))
				dq, dr = next(dcycle)
				ctx.count('stream:audit-out-layouts')
				yield 'array', dict(cont=cont, dq=dq, dr=dr, q=_rand_sig(rng, rng.randint(0, 6), 40), refs=refs,
				                    out=dict(shape=[n], layout=lay), threads=next(tcycle), reps=2)
				queries = _rand_coll(rng, rng.choice([1, 2, 3]), 10, 40)
				ri = rng.choice([None, _rand_indices(rng, n)])
				nr = n if ri is None else len(ri)
				yield 'matrix', dict(cont=cont, dq=dq, dr=dr, queries=queries, refs=refs, ri=ri, ri_kind='list',
				                     chunksize=rng.choice([None, 1, 2, 3, nr]), out=dict(shape=[len(queries), nr], layout=lay),
				                     threads=next(tcycle), reps=2)
				for flat in (False, True):
					idx = rng.choice([None, _rand_indices(rng, n)])
					m = n if idx is None else len(idx)
					yield 'pairwise', dict(cont=cont, d=dr, sigs=refs, indices=idx, idx_kind='list', flat=flat,
					                       out=dict(shape=[m * (m - 1) // 2] if flat else [m, m], layout=lay), threads=next(tcycle))

	# -- (b) values over the whole range of each dtype (>= 2^16, 2^32, 2^63), mixed widths, through the modelled kinds
	for _ in range(120 * K):
		dq, dr = next(dcycle)
		n = rng.choice([1, 2, 3, 5, 8])
		refs = _coll(rng, n, dr, True)
		cont = rng.choice(conts5)
		which = rng.choice(['array', 'matrix', 'pairwise'])
		ctx.count('stream:audit-wide-values')
		if which == 'array':
			yield 'array', dict(cont=cont, dq=dq, dr=dr, q=_wide_sig(rng, dq), refs=refs, threads=next(tcycle),
			                    out=rng.choice([None, dict(shape=[n], layout='strided')]))
		elif which == 'matrix':
			queries = [_wide_sig(rng, dq) for _ in range(rng.choice([1, 2, 3]))]
			ri = rng.choice([None, _rand_indices(rng, n)])
			nr = n if ri is None else len(ri)
			yield 'matrix', dict(cont=cont, qcont=rng.choice([None, 'array', 'siglist']), dq=dq, dr=dr, queries=queries, refs=refs,
			                     ri=ri, ri_kind='list', chunksize=rng.choice([None, 1, 2, nr + 1]), out=None, threads=next(tcycle))
		else:
			yield 'pairwise', dict(cont=cont, d=dr, sigs=refs, indices=rng.choice([None, _rand_indices(rng, n)]), idx_kind='list',
			                       flat=rng.random() < 0.5, out=None, threads=next(tcycle))

	# -- (c) chunk sizes far beyond the number of references (Python ints of any size), through the modelled kind
	for cs in (2 ** 31 - 1, 2 ** 31, 2 ** 32, 2 ** 63 - 1, 2 ** 63, 2 ** 64, 10 ** 30):
		for cont in conts5:
			for ri in (None, [2, 0, 0, -1]):
				dq, dr = next(dcycle)
				ctx.count('stream:audit-huge-chunksize')
				yield 'matrix', dict(cont=cont, dq=dq, dr=dr, queries=[[2, 3], []], refs=[[1, 2, 3], [], [2, 3, 4, 9]], ri=ri,
				                     ri_kind='list', chunksize=cs, out=rng.choice([None, dict(shape=[2, 3 if ri is None else 4])]),
				                     threads=next(tcycle))

	# -- (d) many references (hundreds to a thousand) with every thread count class and chunk sizes around 2^k
	for n in ctx.pick([100, 257, 1000], [100, 257, 1000, 1000, 4097]):
		refs = _rand_coll(rng, n, 12, 60)
		for cont in ('array', 'hdf5', 'pylist', 'annot-array'):
			ctx.count('stream:audit-many-references')
			yield 'api', dict(fn='array', cont=cont, refs=refs, rdt='u4', q=_rand_sig(rng, 8, 60), qdt='u2', threads=16, reps=2)
			ri = [rng.randrange(-n, n) for _ in range(n + 7)]
			yield 'api', dict(fn='matrix', cont=cont, refs=refs, rdt='u4', queries=_rand_coll(rng, 2, 12, 60), qdt='u8', ri=ri,
			                  ri_form='np:i8', cs=rng.choice([63, 64, 65, 255, 256, n - 1]), threads=rng.choice([3, 7, 16]), reps=1)
		if n <= 260:
			ctx.count('stream:audit-many-references')
			yield 'api', dict(fn='pairwise', cont='array', refs=refs, rdt='u4', flat=True, ri=None, threads=16, reps=1)
	# one very long signature among short ones (unbalanced iterations under the dynamic schedule)
	for _ in range(2 * K):
		refs = _rand_coll(rng, 12, 5, 40)
		refs[rng.randrange(12)] = sorted(rng.sample(range(400000), 100000))
		ctx.count('stream:audit-many-references')
		yield 'api', dict(fn='array', cont='array', refs=refs, rdt='u4', q=sorted(rng.sample(range(400000), 50000)), qdt='u4',
		                  threads=rng.choice([2, 5, 16]), reps=3)

	# -- (d2) the compiled loop called directly with non-contiguous query / values / bounds / out
	for _ in range(20 * K):
		n = rng.choice([0, 1, 2, 5, 17, 40])
		refs = _rand_coll(rng, n, rng.choice([3, 30]), rng.choice([8, 64, 4096]))
		pi = list(range(n))
		rng.shuffle(pi)
		dq, dr = next(dcycle)
		ctx.count('stream:audit-kernel-strided')
		yield 'schedule', dict(q=_rand_sig(rng, rng.choice([0, 1, 5, 50]), 4096), refs=refs, pi=pi, dq=dq, dr=dr,
		                       threads=rng.randint(1, 16), reps=4, layout='strided')

	for cont in XCONT_HOMOG:
		for fn in ('array', 'matrix', 'pairwise'):
			for k in range(3 * K):
				ctx.count('stream:audit-containers')
				c = _api_case(rng, fn=fn, n=rng.choice([0, 1, 2, 3, 5, 8]) if k else 4, cont=cont)
				if fn == 'matrix' and rng.random() < 0.5:
					c['qcont'] = rng.choice(XCONT_HOMOG + ['same'])
					if c['qcont'] not in XCONT_HETERO and isinstance(c['qdt'], list):
						c['qdt'] = c['qdt'][0]
				if rng.random() < 0.3:
					c['out'] = dict(layout=rng.choice(['C', 'F', 'strided', 'neg', 'block']))
				yield 'api', c

	# -- (f) every way of writing the index selection
	for form in RI_FORMS:
		for fn in ('matrix', 'pairwise'):
			for cont in ('array', 'hdf5', 'siglist', 'pylist', 'annot-array'):
				for _ in range(K):
					ctx.count('stream:audit-index-forms')
					yield 'api', _fit_index_form(rng, _api_case(rng, fn=fn, n=rng.choice([1, 2, 3, 5, 8]), cont=cont), form)

	# -- (g) chunk size given as a NumPy scalar / bool
	for form in CS_FORMS + CS_LENIENT:
		for cont in ('array', 'hdf5', 'siglist', 'pylist', 'view', 'annot-hdf5'):
			for _ in range(2 * K):
				c = _api_case(rng, fn='matrix', n=rng.choice([2, 3, 5, 8, 13]), cont=cont)
				nr = len(c['refs']) if c['ri'] is None else len(c['ri'])
				c['cs'] = 1 if form == 'bool' else rng.choice([1, 2, 3, max(1, nr - 1), max(1, nr), nr + 1, 100])
				c['cs_form'] = form
				c['lenient'] = form in CS_LENIENT
				ctx.count('stream:audit-chunksize-forms')
				yield 'api', c

	# -- (h) call forms: positional / omitted arguments, flat as NumPy bool or int, progress meters, strided query
	for form in ('kw', 'pos', 'omit'):
		for prog in PROGRESS:
			for _ in range(3 * K):
				c = _api_case(rng, cont=rng.choice(conts5 + ['annot-array', 'tuple']), form=form)
				if c['fn'] != 'array':
					c['progress'] = prog
				else:
					c['qform'] = rng.choice([None, 'strided'])
				if c['fn'] == 'pairwise':
					c['flat_form'] = rng.choice(['bool', 'np', 'int'])
				if rng.random() < 0.4:
					c['out'] = dict(layout=rng.choice(['C', 'F', 'strided', 'T']))
				ctx.count('stream:audit-call-forms')
				yield 'api', c

	# -- (i) plain lists / SignatureLists whose signatures have different dtypes, values over each dtype's range
	for cont in XCONT_HETERO:
		for fn in ('array', 'matrix', 'pairwise'):
			for _ in range(6 * K):
				c = _api_case(rng, fn=fn, n=rng.choice([2, 3, 4, 6]), wide=True, hetero=True, cont=cont)
				if fn == 'matrix' and isinstance(c['qdt'], list):
					c['qcont'] = rng.choice(XCONT_HETERO)
				ctx.count('stream:audit-mixed-dtype-lists')
				yield 'api', c

	# -- (j) the same object as queries and references (what the pairwise docstring compares itself with)
	for cont in ('array', 'hdf5', 'siglist', 'pylist', 'annot-array', 'view', 'tuple'):
		for _ in range(4 * K):
			c = _api_case(rng, fn='matrix', n=rng.choice([1, 2, 3, 5, 8]), cont=cont, qcont='same')
			ctx.count('stream:audit-same-object')
			yield 'api', c

	# -- (k) random combinations of all of the above
	for _ in range(ctx.pick(700, 5000)):
		hetero = rng.random() < 0.25
		c = _api_case(rng, hetero=hetero)
		c['cont'] = rng.choice(XCONT_HETERO if isinstance(c['rdt'], list) else XCONT_HOMOG)
		if c['fn'] == 'matrix':
			if isinstance(c['qdt'], list):
				c['qcont'] = rng.choice(XCONT_HETERO)
			elif rng.random() < 0.5:
				c['qcont'] = rng.choice(XCONT_HOMOG + ['same'])
			if c['cs'] is not None and rng.random() < 0.4:
				form = rng.choice(CS_FORMS[:8])
				c['cs_form'] = form
		if c['fn'] != 'array':
			if rng.random() < 0.5:
				_fit_index_form(rng, c, rng.choice(RI_FORMS))
			c['progress'] = rng.choice(PROGRESS)
			c['form'] = rng.choice(['kw', 'pos', 'omit'])
		if rng.random() < 0.4:
			c['out'] = dict(layout=rng.choice(['C', 'F', 'strided', 'neg', 'block', 'T', 'rowstrided', 'colstrided', 'subclass', 'memmap']))
		ctx.count('stream:audit-random-api')
		yield 'api', c

	# -- (l) sequences of calls sharing the container, the index object and output buffers
	for _ in range(ctx.pick(150, 1000)):
		n = rng.choice([2, 3, 4, 6, 9])
		hetero = rng.random() < 0.2
		rdt = [rng.choice(GOOD_DT) for _ in range(n)] if hetero else rng.choice(GOOD_DT)
		wide = rng.random() < 0.4
		c = dict(cont=rng.choice(XCONT_HETERO if hetero else XCONT_HOMOG), refs=_coll(rng, n, rdt, wide), rdt=rdt)
		c['ri'] = rng.choice([None, _rand_indices(rng, n)])
		c['ri_form'] = 'list'
		if c['ri'] is not None:
			_fit_index_form(rng, c, rng.choice(RI_FORMS))
		m = n if c['ri'] is None else len(c['ri'])
		steps = []
		for _ in range(rng.choice([2, 3, 5, 7])):
			fn = rng.choice(['array', 'matrix', 'pairwise'])
			s = dict(fn=fn, out=rng.choice(['none', 'none', 'shared', 'shared', 'fresh']), threads=rng.randint(1, 16))
			if fn == 'array':
				s['qdt'] = rng.choice(GOOD_DT)
				s['q'] = _coll(rng, 1, s['qdt'], wide)[0]
			elif fn == 'matrix':
				s['qdt'] = rng.choice(GOOD_DT)
				s['queries'] = _coll(rng, 2, s['qdt'], wide)     # always two queries so that shapes repeat between steps
				s['cs'] = rng.choice([None, 1, 2, m + 1])
				if rng.random() < 0.15:
					s['qcont'] = 'same'
			else:
				s['flat'] = rng.random() < 0.5
			steps.append(s)
		c['steps'] = steps
		ctx.count('stream:audit-call-sequences')
		yield 'sequence', c

	# -- (f2) a boolean mask as the selection: the functions document index lists only, so an error is accepted; a returned
	#    array must hold exactly the selected references' distances
	for form in ('boolmask', 'boollist'):
		for fn in ('matrix', 'pairwise'):
			for cont in ('array', 'hdf5', 'pylist'):
				for full in (True, False):
					n = rng.choice([2, 3, 5])
					c = _api_case(rng, fn=fn, n=n, cont=cont)
					c['ri'] = list(range(n)) if full else sorted(rng.sample(range(n), rng.randint(1, n - 1)))
					c['ri_form'] = form
					c['lenient'] = True
					ctx.count('stream:audit-bool-selection')
					yield 'api', c

	# -- (n) thread count / schedule from the OMP_* environment of a fresh interpreter
	envs = [dict(OMP_NUM_THREADS='1'), dict(OMP_NUM_THREADS='3'), dict(OMP_NUM_THREADS='16', OMP_DYNAMIC='true'),
	        dict(OMP_NUM_THREADS='32', OMP_SCHEDULE='static,1'), dict(OMP_NUM_THREADS='7', OMP_THREAD_LIMIT='2'),
	        dict(OMP_NUM_THREADS='4,2', OMP_NESTED='true'), dict(), dict(OMP_NUM_THREADS='2', OMP_PROC_BIND='close')]
	for env in envs[:ctx.pick(4, 8)]:
		jobs = []
		for _ in range(ctx.pick(40, 200)):
			j = _api_case(rng, n=rng.choice([2, 3, 6, 9, 30, 100]), cont=rng.choice(XCONT_MEM))
			j.pop('reps', None)
			j.pop('threads', None)
			jobs.append(j)
		ctx.count('stream:audit-env-threads')
		yield 'envthreads', dict(env=env, jobs=jobs, reps=2)

	# -- (m) bulk calls issued together from several Python threads
	for _ in range(ctx.pick(50, 400)):
		jobs = []
		for _ in range(rng.choice([2, 3, 4])):
			j = _api_case(rng, n=rng.choice([3, 6, 9, 30]), cont=rng.choice(XCONT_MEM))
			j['threads'] = rng.randint(1, 4)
			j.pop('reps', None)
			jobs.append(j)
		ctx.count('stream:audit-concurrent-callers')
		yield 'concurrent', dict(jobs=jobs, reps=3)


def _st_sig_like(rng, old, dt, wide):
	"""another sorted duplicate-free signature of the SAME length (what a cache keyed by length cannot tell apart)"""
	k = len(old)
	if wide:
		s = _wide_sig(rng, dt, k)
		if len(s) == k:
			return s
	return sorted(rng.sample(range(max(2 * k + 2, rng.choice([8, 40, 1000]))), k))


def _st_case(rng):
	wide = rng.random() < 0.3
	ncoll = rng.choice([2, 2, 3])
	alike = rng.random() < 0.5          # collections of equal size, signature lengths and dtype, other values
	n0, dt0 = rng.choice([2, 3, 4, 6]), rng.choice(GOOD_DT)
	colls = []
	for k in range(ncoll):
		dt = dt0 if (alike or rng.random() < 0.4) else rng.choice(GOOD_DT)
		if alike and k:
			sigs = [_st_sig_like(rng, s, dt, wide) if rng.random() < 0.8 else list(s) for s in colls[0]['sigs']]
		else:
			sigs = _coll(rng, n0 if alike else rng.choice([1, 2, 3, 4, 6, 9]), dt, wide)
		if alike and k and rng.random() < 0.5:
			cont = colls[0]['cont']
		else:
			cont = rng.choice(ST_CONTS_MAIN) if rng.random() < 0.6 else rng.choice(ST_CONTS)
		colls.append(dict(cont=cont, dt=dt, sigs=sigs))
	qs = []
	for _ in range(rng.choice([1, 2, 3])):
		dt = rng.choice(GOOD_DT)
		vals = _st_sig_like(rng, qs[0]['vals'], dt, wide) if (qs and rng.random() < 0.5) else _coll(rng, 1, dt, wide)[0]
		qs.append(dict(dt=dt, vals=vals))
	qsets = []
	for _ in range(rng.choice([1, 2])):
		dt = rng.choice(GOOD_DT)
		qsets.append(dict(cont=rng.choice(['pylist', 'array', 'siglist', 'tuple', 'view']), dt=dt, sigs=_coll(rng, 2, dt, wide)))
	idx = []
	for _ in range(2):
		n = len(rng.choice(colls)['sigs'])
		form = rng.choice(RI_FORMS)
		idx.append(dict(form=form, vals=list(_fit_index_form(rng, dict(refs=[None] * n, ri=None), form)['ri'])))
	c = dict(colls=colls, qs=qs, qsets=qsets, idx=idx)

	# the generator's own picture of the pool (so that every change it writes into the script is one the caller can make)
	sigs = [[list(s) for s in k['sigs']] for k in colls]
	closed = [False] * ncoll
	poisoned = []
	ivals = [list(k['vals']) for k in idx]
	qvals = [list(k['vals']) for k in qs]

	def call(coll=None, fail='auto', want=None):
		fn = rng.choice(['array', 'matrix', 'matrix', 'pairwise'])
		if want and want[0] == 'idx':
			fn = rng.choice(['matrix', 'pairwise'])
		elif want and want[0] == 'q':
			fn = 'array'
		s = dict(op='call', fn=fn, coll=rng.randrange(ncoll) if coll is None else coll, threads=rng.randint(1, 16), out=rng.choice(ST_OUTS))
		if fn == 'array':
			s['q'] = want[1] if want else rng.randrange(len(qs))
		else:
			s['idx'] = rng.choice([None, 0, 1])
			if want:
				s['idx'] = want[1]
			s['progress'] = rng.choice([None, None, 'cfg', 'cls'])
			if fn == 'matrix':
				s['qset'] = rng.choice(list(range(len(qsets))) + ['coll'])
				s['cs'] = rng.choice([None, 1, 2, 3, 5])
			else:
				s['flat'] = rng.random() < 0.5
		if fail == 'auto' and rng.random() < 0.2:
			opts = ['badout']
			if fn != 'array':
				opts += ['boom', 'boom']
			if fn == 'matrix' and s['qset'] != 'coll':
				opts += ['badq', 'boomq']
			s['fail'] = rng.choice(opts)
			s['at'] = rng.choice([1, 1, 2, 3])
		if rng.random() < 0.25:
			s['twice'] = True
		if rng.random() < 0.15:
			s['thread'] = True
		return s

	def change(target=None):
		"""one change the caller makes to an object of its own (to `target` = ('coll' | 'idx' | 'q', k) if given);
		-> (step, the object changed) or None when the object drawn offers no such change"""
		if target is None:
			r = rng.random()
			target = ('coll', rng.randrange(ncoll)) if r < 0.64 else ('idx', rng.randrange(len(idx))) if r < 0.82 else ('q', rng.randrange(len(qs)))
		what, k = target
		if what == 'idx':
			if idx[k]['form'] in ST_IDX_FIXED or not ivals[k]:
				return None
			n2 = len(sigs[rng.randrange(ncoll)])
			val = rng.randrange(-n2, n2)
			if not _ri_ok([val], idx[k]['form']):
				val = rng.randrange(n2)
			pos = rng.randrange(len(ivals[k]))
			if ivals[k][pos] == val:
				return None
			ivals[k][pos] = val
			return dict(op='setidx', k=k, pos=pos, val=val), target
		if what == 'q':
			if not qvals[k]:
				return None
			new = _st_sig_like(rng, qvals[k], qs[k]['dt'], wide)
			qvals[k] = new
			return dict(op='setq', k=k, vals=new), target
		cont, dt = colls[k]['cont'], colls[k]['dt']
		n = len(sigs[k])
		mine = [p for p in poisoned if p[0] == k]
		if mine and rng.random() < 0.7:
			poisoned.remove(mine[0])
			new = _coll(rng, 1, dt, wide)[0]
			sigs[k][mine[0][1]] = new
			return dict(op='set', mode='item', coll=k, i=mine[0][1], vals=new), target
		opts = ['rebuild']
		if not closed[k]:
			opts += ['item', 'item', 'item', 'poison'] if cont in ST_ITEM else []
			opts += ['inplace', 'inplace', 'inplace'] if _st_inplace(cont) else []
			opts += ['grow', 'shrink'] if cont in ST_GROW else []
			opts += ['close', 'rebuild'] if cont in ST_FILE else []
		op = rng.choice(opts)
		i = rng.randrange(n)
		if op in ('item', 'inplace', 'poison') and sigs[k][i] is None:
			return None
		if op == 'poison':
			if poisoned:
				return None
			poisoned.append((k, i))
			sigs[k][i] = None
			return dict(op='set', mode='item', coll=k, i=i, vals=None), target
		if op == 'item':
			new = _coll(rng, 1, dt, wide)[0] if rng.random() < 0.4 else _st_sig_like(rng, sigs[k][i], dt, wide)
			sigs[k][i] = new
			return dict(op='set', mode='item', coll=k, i=i, vals=new), target
		if op == 'inplace':
			if not sigs[k][i]:
				return None
			new = _st_sig_like(rng, sigs[k][i], dt, wide)
			sigs[k][i] = new
			return dict(op='set', mode='inplace', coll=k, i=i, vals=new), target
		if op == 'shrink':
			if n <= 1 or (k, n - 1) in poisoned:
				return None
			sigs[k].pop()
			return dict(op='shrink', coll=k), target
		if op == 'grow':
			new = _coll(rng, 1, dt, wide)[0]
			sigs[k].append(new)
			return dict(op='grow', coll=k, vals=new), target
		if op == 'close':
			closed[k] = True
			return dict(op='close', coll=k), target
		# the holder is dropped and made again: same shape and other values (what a cache keyed by address / size / lengths cannot
		# tell from the old one), or another size
		new = [_st_sig_like(rng, x, dt, wide) if x is not None else [] for x in sigs[k]] if rng.random() < 0.6 else \
			_coll(rng, rng.choice([1, 2, 3, 4, 6]), dt, wide)
		sigs[k] = [list(x) for x in new]
		closed[k] = False
		poisoned[:] = [p for p in poisoned if p[0] != k]
		return dict(op='rebuild', coll=k, sigs=new), target

	def used(s):
		"""the pool objects a call step uses"""
		out = [('coll', s['coll'])]
		if s['fn'] == 'array':
			out.append(('q', s['q']))
		elif s.get('idx') is not None:
			out += [('idx', s['idx'])] * 2
		return out

	def arg_for(w):
		return dict(coll=w[1]) if w and w[0] == 'coll' else dict(want=w) if w else {}

	steps = []
	pattern = rng.random()
	if pattern < 0.3:
		# the same call three times with ONE argument different in the middle: the collection (a, b, a), the index object, the
		# chunk size, the queries - everything else (index object, shared buffer, queries, progress configuration) stays
		first = call(fail=None)
		first.pop('thread', None)
		vary = rng.choice(['coll', 'coll', 'coll', 'idx', 'idx', 'cs', 'q'])
		second = dict(first)
		if vary == 'coll' or first['fn'] == 'array' and vary != 'q':
			second['coll'] = rng.choice([k for k in range(ncoll) if k != first['coll']])
		elif vary == 'idx' or first['fn'] == 'pairwise':
			second['idx'] = rng.choice([x for x in (None, 0, 1) if x != first['idx']])
		elif vary == 'cs':
			second['cs'] = rng.choice([x for x in (None, 1, 2, 3, 5) if x != first['cs']])
		elif first['fn'] == 'array':
			second['q'] = rng.randrange(len(qs))
		else:
			second['qset'] = rng.choice([x for x in list(range(len(qsets))) + ['coll'] if x != first['qset']] or [first['qset']])
		steps = [first, second, dict(first)]
		if rng.random() < 0.4:
			steps.insert(rng.choice([1, 2]), call(fail='auto'))
	elif pattern < 0.6:
		# a call, a change the caller makes to an object that call used, the same call again (and once more after a second change)
		first = call(fail=None)
		steps = [first]
		for _ in range(rng.choice([1, 1, 2])):
			ch = None
			for _ in range(4):
				ch = ch or change(rng.choice(used(first)))
			if ch:
				steps += [ch[0], dict(first)]
		if len(steps) == 1:
			steps.append(call(fail=None))
		if rng.random() < 0.3:
			steps.insert(1, call(fail='auto'))
	else:
		want = None
		for _ in range(rng.choice([2, 3, 4, 5, 6])):
			if not steps or rng.random() < 0.65:
				steps.append(call(**arg_for(want if rng.random() < 0.75 else None)))
				want = None
			else:
				ch = change()
				if ch:
					steps.append(ch[0])
					want = ch[1]
		steps.append(call(fail=None, **arg_for(want)))
	c['steps'] = steps
	return c


def _state_streams(ctx):
	rng = ctx.rng
	for _ in range(ctx.pick(640, 5000)):
		ctx.count('stream:state-scripts')
		yield 'state', _st_case(rng)
	# several Python threads at once on ONE references holder and ONE index object
	for _ in range(ctx.pick(40, 400)):
		base = _api_case(rng, fn='matrix', n=rng.choice([3, 6, 9, 30]), cont=rng.choice(XCONT_MEM))
		if base['ri'] is not None and rng.random() < 0.7:
			_fit_index_form(rng, base, rng.choice(RI_FORMS))
		jobs = []
		for _ in range(rng.choice([2, 3, 4])):
			j = _api_case(rng, fn=rng.choice(['array', 'matrix', 'matrix', 'pairwise']), n=2, cont=base['cont'], refs=base['refs'], rdt=base['rdt'])
			if j['fn'] != 'array':
				j.update(ri=base['ri'], ri_form=base.get('ri_form', 'list'))
			if j['fn'] == 'matrix' and rng.random() < 0.2:
				j['qcont'] = 'same'
				j['qdt'] = j['qdt'] if isinstance(j['qdt'], str) else j['qdt'][0]
			j['threads'] = rng.randint(1, 4)
			j.pop('reps', None)
			jobs.append(j)
		ctx.count('stream:state-concurrent-shared-objects')
		yield 'concurrent', dict(jobs=jobs, reps=3, shared=True, ri=base['ri'], ri_form=base.get('ri_form', 'list'))
	for _ in range(ctx.pick(40, 400)):
		pairs = [[rng.choice([0, 1, 2, 5, 9, 16]), rng.choice([1, 2, 3, 4, 7])] for _ in range(rng.choice([2, 3, 4]))]
		if rng.random() < 0.6:
			pairs.append(list(rng.choice(pairs)))
		ctx.count('stream:state-chunk-generators')
		yield 'chunkgens', dict(pairs=pairs)


def _blk_case(rng, cont=None):
	"""a script on ONE holder: take steps (holder[a:b], holder[:], holder[a:b:step], holder[index list], holder[i],
	[holder[i] for i in ...]) whose results are all kept (or dropped at once: keep=False), and bulk calls whose queries /
	query / references are such blocks, the holder itself, or the caller's own arrays"""
	cont = cont or rng.choice(BLK_FILE if rng.random() < 0.65 else BLK_MEM)
	plain = cont in BLK_PLAIN
	dt = rng.choice(GOOD_DT)
	n = rng.choice([2, 3, 4, 5, 6, 9, 12, 20])
	sigs = _rand_coll(rng, n, rng.choice([3, 6, 20]), rng.choice([6, 12, 40, 40, 1000]))
	owndt = rng.choice(GOOD_DT)
	c = dict(cont=cont, dt=dt, sigs=sigs, owndt=owndt, own=_rand_coll(rng, rng.choice([1, 2, 3]), 6, rng.choice([6, 12, 40])))
	steps = []
	colls, items = [], []        # block numbers holding a collection / a single signature
	lens = []

	def take():
		hows = ['slice'] * 4 + ['full'] * 3 + ['item', 'items'] + ([] if plain else ['index', 'index', 'stepslice'])
		how = rng.choice(hows)
		s = dict(op='take', how=how)
		if how == 'slice':
			a = rng.randint(0, n - 1)
			s.update(a=a, b=rng.randint(a + (rng.random() < 0.9), n))
		elif how == 'stepslice':
			step = rng.choice([2, 3, -1, -2])
			a, b = rng.randint(0, n - 1), rng.randint(0, n)
			s.update(a=max(a, b) if step < 0 else min(a, b), b=min(a, b) if step < 0 else max(a, b), step=step)
		elif how == 'item':
			s['i'] = rng.randint(-n, n - 1)
		else:
			if how != 'full':
				s['idx'] = [rng.randint(0 if how == 'items' and plain else -n, n - 1) for _ in range(rng.choice([1, 2, n, n + 2]))]
			if how == 'index':
				s['form'] = rng.choice(['list', 'np:i8', 'np:i4'])
		if rng.random() < 0.15:
			s['keep'] = False
		steps.append(s)
		got = _blk_indices(n, s)
		lens.append(1 if how == 'item' else len(got))
		if s.get('keep', True):
			(items if how == 'item' else colls).append(len(lens) - 1)

	def call():
		fn = rng.choice(['matrix', 'matrix', 'matrix', 'array', 'pairwise'])
		s = dict(op='call', fn=fn, threads=rng.randint(1, 16))
		r = rng.choice(colls + ['H']) if colls else 'H'
		if fn == 'matrix':
			q = rng.choice(colls + colls + ['H', 'own']) if colls else rng.choice(['H', 'own'])
			if q == 'own' and r == 'H' and colls:       # nothing of this stream in it: use a block
				q = rng.choice(colls)
			s['q'] = q
		elif fn == 'array':
			s['q'] = rng.choice(items + items + ['own']) if items else 'own'
			if s['q'] == 'own' and colls:
				r = rng.choice(colls)
		s['r'] = r
		m = n if r == 'H' else lens[r]
		if fn != 'array' and rng.random() < 0.4:
			s['ri'] = _rand_indices(rng, m) if m else []
			s['ri_form'] = rng.choice(['list', 'list', 'np:i8', 'tuple'])
		nr = len(s['ri']) if s.get('ri') is not None else m
		if fn == 'matrix':
			s['cs'] = rng.choice([None, 1, 1, 2, 3, max(1, nr - 1), max(1, nr // 2), nr + 1])
		if fn == 'pairwise':
			s['flat'] = rng.random() < 0.5
		if rng.random() < 0.3:
			s['out'] = True
		steps.append(s)

	take()
	for _ in range(rng.randint(1, 7)):
		if rng.random() < 0.45:
			take()
		else:
			call()
	call()
	c['steps'] = steps
	return c


def _block_streams(ctx):
	rng = ctx.rng
	# every holder type once per run with the two plainest scripts: all of the holder as the queries against the holder in
	# chunks; two blocks held at the same time, the first as the queries, the second as the references
	for cont in sorted(set(BLK_FILE + BLK_MEM)):
		n = rng.choice([5, 8, 12])
		base = dict(cont=cont, dt=rng.choice(GOOD_DT), sigs=_rand_coll(rng, n, 6, 12), owndt='u8', own=[])
		a = rng.randint(1, n - 2)
		ctx.count('stream:blocks-holder-types', 2)
		yield 'blocks', dict(base, steps=[dict(op='take', how='full'),
		                                  dict(op='call', fn='matrix', q=0, r='H', cs=rng.choice([1, 2, 3]), threads=rng.randint(1, 16))])
		yield 'blocks', dict(base, steps=[dict(op='take', how='slice', a=a, b=n), dict(op='take', how='slice', a=0, b=a),
		                                  dict(op='call', fn='matrix', q=0, r=1, cs=None, threads=rng.randint(1, 16))])
	for _ in range(ctx.pick(500, 8000)):
		ctx.count('stream:blocks-scripts')
		yield 'blocks', _blk_case(rng)
