"""C18 -- using a reference database never modifies it.

Tie: B.  Everything runs against a scratch COPY of tests/data/testdb_210818 (genome file *.gdb,
signature file *.gs; the original is only read once, to make the copy, and re-hashed at the end).

  session  a list of operations add | modify | delete | query | flush | commit | rollback | close |
           transaction-commit [| raw DML] is run on a real SQLAlchemy session obtained the way the
           library / the CLI obtain theirs (`file_sessionmaker(path)()`, `file_sessionmaker(path,
           cls=ReadOnlySession)()`, `CLIContext.Session()`), on the SHARED copy; after EVERY operation:
           SHA-256 + size + mtime of both files, directory listing and mtime, journal file, the write
           statements seen by a `before_cursor_execute` hook, len(session.new/dirty/deleted), the
           rows a SELECT returns.  Compared with the extracted session machine (Model/C18.v, op 1801).
           Contrast classes (plain `Session` via readonly=False; ReadOnlySession + raw DML) run on a
           PRIVATE copy and must change the file exactly when the model says so -- this is what shows
           that the detectors are alive and that the model is not vacuously "nothing happens".
  store    a list of open | read | write | delete | flush | close on the signature file through
           `load_signatures` / `load_signatures_hdf5` (default mode, explicit 'r'; contrast 'r+' on a
           private copy); writes are attribute / dataset / create_dataset writes through the h5py
           handle.  Model op 1802.
           in-place  (operations 6 and 7) the caller TAKES arrays from the opened signature object the way a
           read-side client does -- sigs[i], sigs[-i], sigs[np.int64(i)], sigs[a:b].values, rows of
           sigs[a:b], sigs[a:], stepped slices, index lists, boolean masks, iteration / reversed(),
           sigs.values[a:b], sigs.bounds[a:b], np.asarray(sigs.values), sigs[:] -- and then post-processes
           the RETURNED arrays IN PLACE (+=, fill, sort, ufunc(out=), item / slice assignment, ^=,
           byteswap(inplace), copyto, put, putmask, clip(out=), a write through arr.view(uint8) ...),
           possibly again after the handle was closed (operation 7: the arrays outlive the handle).  No
           API of the library or of h5py is asked to write anything: in the model this is a read (SRead)
           followed by a computation on a private value, so the file must not change by a single byte.
  history  sequences of invocations, in process: `gambit -d DB query` (csv/json/archive, genome files
           or -s SIGFILE), `dist --use-db`, `signatures info -d` (plain/-j/-i), `signatures info FILE`,
           `signatures create --db-params`, `tree -s DB/x.gs`, `ReferenceDatabase.load_from_dir` +
           signature iteration + a library query (query signatures taken as an index list or as a
           contiguous slice of the reference signatures) + in-place post-processing of the arrays obtained
           from db.signatures (same selections / numpy operations as `in-place` above), arbitrary ORM edits
           on a default session, arbitrary handle operations -- each possibly FAILING: bad argument, unreadable query file, unwritable
           output, or an exception injected at the n-th SQL statement (a failure in the middle of the
           command).  Snapshot before/after every invocation, journal check after every SQL statement,
           class of every session that begins a transaction (its two overrides are determined
           behaviourally on a throw-away copy), mode of every h5py.File opened on the copy.  Model op
           1803 (the command compiled to micro operations, cut at the failure point).

  dbstate  (kind `history`, case key `state`; streams history-dbstate / history-dbstate-random) the SAME invocations,
           run against a PRIVATE data base directory whose files were left in another PERSISTENT STATE by whoever
           built or last edited them -- a state a real user can have, stored in the files, not in gambit:
             genome file   journal mode WAL (clean; edited in WAL mode; with LEFTOVER -wal/-shm side files whose frames are
                           all checkpointed, -wal without -shm, zero-length -wal) | DELETE | TRUNCATE / PERSIST (leftover
                           -journal file) | MEMORY | OFF (after an edit made in that mode);  page size 512 .. 65536;
                           auto_vacuum NONE / FULL / INCREMENTAL;  free pages on the freelist;  freshly VACUUMed;
                           user_version / application_id set;  text encoding UTF-8 / UTF-16le / UTF-16be (rebuilt from
                           a dump);  file (and directory) made read-only on disk (chmod 0444 / 0555)
             signature file  as shipped | rewritten with the latest HDF5 file format (superblock v3) | read-only on disk
                           | of another SIZE CLASS / with TRAILING BYTES (stream history-sigsize, below)
           x read-side uses: `gambit -d DB query` (genome files / -s SIGFILE / csv, json, archive), `dist --use-db`,
           `signatures info -d`, `signatures create --db-params`, load_from_dir + iteration + library query + in-place
           post-processing, ORM edits on a session obtained by file_sessionmaker / explicit ReadOnlySession / CLIContext,
           signature handle operations, each possibly failing (bad argument, unreadable file, unwritable output,
           exception at the n-th SQL statement).
           JUDGED after every invocation (what the property states): SHA-256 and size of the genome file and of the
           signature file are those of the state before the first invocation; no write statement reached a cursor;
           commit() raised TypeError; every session is read-only in behaviour; every handle is in mode 'r'; writes
           through the handle were rejected.  NOT judged, only counted (the property does not constrain them and SQLite
           itself does this for a reader of a WAL data base): side files (-wal / -shm / -journal) appearing while a
           connection is open or leftover side files being removed when the reader closes, mtime of the files and of
           the directory (a reader that finds a leftover -wal copies its -- already checkpointed -- frames into the
           file again: same bytes, new mtime), whether a command on a read-only directory fails.
           Model op 1803 as for `history` (the state is below the model: its genome file is an abstract value).

  sigsize  (kind `history`, state key `sig`; stream history-sigsize, and one value in five of history-dbstate-random) the SIZE CLASS of
           the signature file.  The shipped one holds 213 signatures in 257 KiB; every other stream uses it (or a smaller one).  A
           real reference data base is hundreds of MiB, and code that reads one may take another path above some size (buffer
           sizes, memory mapping, another open call).  States, made by the harness with h5py on a private copy: big / huge / vast =
           the 213 reference signatures followed by 5 / 20 / 72 further copies under ids that match no genome (> 1 MiB, > 4 MiB,
           > 16 MiB; vast and most combinations only in the thorough tier), optionally written with libver='latest', optionally
           followed by TRAILING zero bytes up to the next multiple of 64 KiB (what a block-wise copy leaves after the end of the
           HDF5 data; also on the shipped content: same-pad), alone and combined with the genome-file dimensions above
           x read-side uses that open the signature file: `signatures info -d` / `signatures info FILE`, `query` (genome files /
           -s SIGFILE), `dist --use-db`, load_from_dir / load / CLIContext.get_database + iteration + library query + in-place
           post-processing + close, handle operations, failing variants (n-th SQL statement, unreadable query file), and a client
           in ANOTHER PROCESS that loads the data base, reads n signatures and genomes and is KILLED (SIGKILL) while it holds
           everything open -- a command that fails in the hardest way: no cleanup code of gambit, h5py, libhdf5 or SQLite runs
           (invocation `load` with fail kind `kill`; model: the command cut after the data base is loaded, then the process ends).
           JUDGED after every invocation exactly as for dbstate: SHA-256 and size of both files are those the harness left; every
           signature-file open is in mode r -- opens made through h5py's low-level h5py.h5f.open() (default flags: read-WRITE) and
           wrapped with h5py.File(fid) included, recorded with the access intent libhdf5 reports; writes through a handle
           rejected.  NOT judged: mtime, side files, whether the killed client got as far as the kill (counted).

  dbschema (kind `history`, state key `schema`; streams history-dbschema / history-dbschema-random; the `badload` steps of kind
           `sequence`) the state dimension above varies HOW the genome file stores a complete reference data base; this one
           varies WHAT is in the file the user points gambit at -- an INCOMPLETE or FOREIGN genome file, made by the harness
           from the shipped one with the sqlite3 module (list of modifications, applied in order, combined with the
           dimensions above):
             drop:T          a model table missing (taxa | genomes | genome_annotations | genome_sets; one, several, all) or the
                             alembic_version table missing;  rename:T  the table is there under another name
             dropindex:N | * an index / every index missing;  addtable | addcol:T | addindex  unknown table / column / index
             dropcol:T.C     an older schema: a column missing;  rebuild:T  the table re-imported by another tool (rows kept,
                             no constraint, no index);  norows:T | twosets  no rows / a second genome set
             file:zero | file:garbage | file:truncated   a zero-byte file, a non-SQLite file, the first 5000 bytes, under the
                             .gdb name;  file:notables | file:foreign | file:schema-only  a valid SQLite file with no table,
                             with another application's tables, with the tables of a reference data base and no row
           x read-side uses: EVERY WAY THE LIBRARY LOADS a data base -- ReferenceDatabase.load_from_dir(dir), .load(gdb, gs),
           .locate_files + .load, load_genomeset(gdb) alone, CLIContext.get_database() (invocation `load`, key `via` = dir |
           files | located | gset | cli) -- followed by what a client does next (genomes, signatures, a library query, in-place
           post-processing, an in-memory edit + flush + commit on the session it was given: key `commit`), the CLI commands and
           the three ways to a session of the streams above, with failure injection at the n-th SQL statement.  MOST OF THESE
           CALLS FAIL on such a file (failing commands are in the property's quantifier); the bytes are compared all the same.
           JUDGED after every invocation, whatever its outcome: SHA-256 and size of the genome file and of the signature file
           are those the harness left; no write statement reached a cursor (DDL may bypass a statement recorder: the hashes
           are what counts); commit() did not return normally; session class / handle mode as above.  NOT judged: whether a
           call succeeds or which exception it raises, side files, mtime, the number of sessions / handles a command opens.
           In the `sequence` stream a `badload` step (key `via` = dir | files | gset) points the library at a truncated /
           zero-byte / table-less / taxa-less genome file between the other steps; the bytes of the files of that
           directory are compared after the step (before: such steps were run and not looked at).

  sequence (kind `sequence`, streams sequence-fixed / sequence-random) -- STATE AND ALIASING.  The streams above make the
           objects of a case, use them once (or in one fixed pattern) and drop them.  A sequence case is a script of 2-7
           calls over a small POOL of long-lived objects that the steps share and that stay alive until the end of the
           case: ReferenceDatabase objects (load_from_dir / load / CLIContext.get_database(), two of them from one CLI
           context), session makers (file_sessionmaker default / cls=ReadOnlySession, CLIContext) and up to two sessions of
           each that stay OPEN, with their pending edits, while other steps run, signature handles (two slots per file),
           QueryParams objects, lists of query arrays, SignatureArray objects -- used against TWO DIFFERENT data bases in both
           orders (A: the shared copy; B: made by the harness from it with sqlite3 / h5py: 173 signatures in reversed order,
           150 genomes, signatures without a genome, other name; same file names, same genome set key), the query signature
           file Q, a private data base W on whose files (same paths) a WRITING tool works between the read-side uses
           (file_sessionmaker(readonly=False) / cls=Session with add + commit, possibly keeping its session; load_signatures(
           mode='r+') with an attribute write), and malformed inputs in between (truncated / non-HDF5 / empty / missing
           signature file, data base directory with a truncated genome or signature file, no files, two genome files; query
           batches with a failing iterator, a float64 / 2-D / str element in the middle, no element, inputs of the wrong
           length; an exception injected at the n-th SQL statement of a query or of a session operation).  Steps: query |
           dist (jaccarddist_matrix on db.signatures / db.sig_indices) | qfail | sess | store | cli (an in-process command, also
           in a second thread) | edit (ORM object of the data base object edited in memory, flush, commit) | close | contrast
           | badopen | badload; a step is new, or an earlier step AGAIN, or an earlier step against the OTHER data base.
           JUDGED after EVERY step: (1) the C18 predicate on every directory of the pool (SHA-256, size, mtime, listing of A,
           B, Q, and of W since the writing tool last touched it; no write statement on a genome file; every session that
           began is read-only in behaviour; every signature file opened in mode r; commit() raised TypeError; writes through
           a handle rejected; no journal); (2) CALLER OBJECTS UNMODIFIED: every ReferenceDatabase in the pool has the same
           genomes (identity keys, object identities), sig_indices, session, signatures object, signature ids / metadata /
           k-mer spec, nothing pending in its session, and its genomes show the fields the harness read from the genome file
           with sqlite3; every session maker / CLI context has its class, options, engine; the QueryParams object, the query
           arrays and the list holding them are byte-identical; (3) SAME CALL, SAME RESULT: the digest of the result (taxa,
           matches, float32 bit patterns of the distances, csv text) equals that of the same call on freshly loaded objects
           (a data base loaded for that call alone, arguments made for it alone), which must succeed; every long-lived
           session / handle, all its steps taken together, agrees with the session / store machine (ops 1801 / 1802).
           A violation is re-run in a FRESH process before it is reported (the state looked for lives in the process): alone,
           and if it does not fail alone, with the scripts that ran before it in front (case key `prior`).

           entry point                               object that can outlive one call                a    b    c    d    e
           file_sessionmaker(path, ro, cls, **kw)    sessionmaker (class_, kw, Engine)               seq  seq  seq  seq  no(1)
                                                     kw: a fresh dict per call (**), no alias          -    -    -    -    -
                                                     module state of gambit.db.sqla (none today)     seq: writable maker for the SAME path first
           ReadOnlySession (maker(), ctx.Session())  session: new / dirty / deleted, transaction     old+seq old old+seq old+seq no(1)
                                                        old = one session per case (close and reuse, failing commits); seq = two sessions of one
                                                        maker, sessions of makers of two data bases, edits pending while other calls run, SQL failure
                                                        injected inside an operation, then the session is used again
           load_genomeset, ReferenceDatabase(gset, sigs), .load, .load_from_dir, .locate_files
                                                     ReferenceDatabase: session, genomeset, genomes (ORM objects), sig_indices,
                                                     signatures (open handle)                        seq  seq  seq  seq  seq(2)
                                                     the signatures object GIVEN to __init__         seq (two data base objects of one CLI context share it)
                                                     module state of gambit.db.refdb (none today)    seq (A then B, B then A; W = same content as A)
           CLIContext .engine .Session .signatures .get_database()
                                                     _engine, _Session, _signatures (cached per context), class attributes
                                                                                                     seq  seq  seq  seq  no(1)
           load_signatures[_hdf5](path, **kw)        HDF5Signatures: h5py handle, ids (in memory), meta, values / bounds data sets;
                                                     arrays handed out                               old+seq old seq old+seq no(3)
                                                     the signature FILE: its size class (257 KiB shipped | > 1 | > 4 | > 16 MiB), bytes after
                                                     the end of the HDF5 data, superblock state left by an open that was never closed
                                                                                                     sigsize: >= 2 uses per state + 1 killed client
                                                                                                     process (c: the kill), bytes after each
                                                        old = one handle per case, reopened after close; in-place modification of what is handed out;
                                                        seq = two handles on one file at once, handles on A, B, Q at once, malformed file in between
                                                     module state of gambit.sigs.hdf5 (none today)   seq: r+ open of the SAME path first; failing open first
           gambit.query.query(db, queries, params, inputs=)
                                                     db (above); params; queries (list / SignatureArray); inputs
                                                                                                     seq  seq  seq  seq  seq(2)
           jaccarddist_matrix(q, db.signatures, ref_indices=db.sig_indices, chunksize=)
                                                     db.signatures, db.sig_indices, q                seq  seq  seq  seq  seq(2)
           results exporters (csv / json / archive)  the QueryResults and the ORM objects in it      seq (export between two queries on one data base object)
           CLI query | dist --use-db | signatures info [-d] | signatures create --db-params | tree
                                                     a new click context and CLIContext per invocation: only process-wide state
                                                     (module globals, class attributes, OpenMP thread count, SQLAlchemy / h5py
                                                     registries) survives                            old+seq old old seq old+seq(4)
           load_genomeset / ReferenceDatabase.load / .load_from_dir / .locate_files + .load / CLIContext.get_database / file_sessionmaker /
           CLI commands, pointed at an INCOMPLETE or FOREIGN genome file (table / index / column missing, unknown objects, zero-byte,
           non-SQLite, truncated, table-less, another application's file): streams history-dbschema[-random], `badload` steps
                                                     the genome FILE itself: its schema objects (tables, indexes, columns) and
                                                     bytes; the engine / session of a load that failed
                                                                                                     dbschema: >= 3 loads through >= 2 entry points + 1 CLI command
                                                                                                     + 1 session per file, bytes after each; seq: badload between steps (c)
           columns: a = reused across >= 2 calls whose other arguments differ (other data base / size / order / options), both orders;
           b = caller's object compared with what it was before, after every step; c = a call that fails part-way in between, then the
           good call again on the same thread and objects; d = same call twice, same result; e = second thread / forked workers.
           (1) sessions, SQLite connections and engines made in one thread are refused by SQLite in another, not advertised: not generated.
           (2) the second thread loads the data base itself, queries it and closes it while the first thread keeps its objects (a data base
           object cannot be handed to another thread: its session holds a SQLite connection).  (3) not advertised by gambit.  (4) old: query /
           dist / create fork worker processes while the data base is open (every history); seq: a command run in a second thread.

Property predicate (reported as VIOLATION with the history as replay): after every step both files
have the same SHA-256, size and mtime, the directory has the same entries and mtime, no journal
appeared, no INSERT/UPDATE/DELETE/CREATE/... reached a cursor, every commit() raised TypeError,
every write through the signature handle was rejected, every handle is in mode 'r' (h5py.File(path) and
h5py.h5f.open(path) + h5py.File(fid) alike), every session is a ReadOnlySession in behaviour.  A model/implementation difference that leaves this predicate true
(e.g. a different count of pending objects) is reported as a broken tie."""
import gc
import glob
import hashlib
import itertools
import json
import os
import shutil
import threading
import time

PROP = 'C18'
RULE = ('session: (how the session was obtained, autoflush, operation list) -> per-operation observables; non-trivial: '
        'a pending edit (add/modify/delete that succeeded) is followed by a query, flush, commit or transaction-commit. '
        'store: (operation list) ; non-trivial: a write or delete is attempted on an open handle, or (stream '
        'store-inplace / store-inplace-random) an array of >= 1 element RETURNED by indexing / slicing / iterating the '
        'opened signature object was modified in place and the modification took effect on the caller\'s array. '
        'history: list of invocations with failure points; non-trivial: >= 2 invocations of which >= 1 reads the '
        'database to completion and >= 1 fails or edits (an edit is an ORM edit, a handle operation, or an effective '
        'in-place modification of an array obtained from ReferenceDatabase.signatures: stream history-inplace). '
        'history with a `state` (streams history-dbstate / history-dbstate-random): (persistent state of the genome / '
        'signature file: journal mode incl. WAL with or without leftover side files, page size, auto_vacuum, freelist, '
        'VACUUM, user_version, application_id, text encoding, read-only on disk, HDF5 format version; list of invocations '
        'with failure points) -> SHA-256 and size of both files after every invocation; non-trivial: the state differs from '
        'the shipped one in >= 1 dimension and >= 1 invocation reads the data base to completion. '
        'history with a state that has a `schema` (streams history-dbschema / history-dbschema-random): (INCOMPLETE / FOREIGN genome file: '
        'model tables taxa / genomes / genome_annotations / genome_sets dropped one at a time, several, all; table renamed; index dropped; '
        'unknown table / column / index; column missing (older schema); table rebuilt without constraints; no rows / two genome sets; '
        'zero-byte file; non-SQLite file; truncated file; SQLite file without tables / with foreign tables / with the schema and no rows '
        '-- combined with the persistent-state dimensions; list of invocations: library loads via load_from_dir / load / locate_files + load '
        '/ load_genomeset / CLIContext.get_database with follow-up use, CLI commands, sessions, failure points) -> SHA-256 and size of both '
        'files after every invocation WHATEVER ITS OUTCOME, write statements, commit; non-trivial: >= 1 invocation got as far as a session '
        'on that genome file beginning a transaction (it may then fail: most do). '
        'history with a state whose `sig` is a size class (stream history-sigsize): (signature file of > 1 / > 4 / > 16 MiB -- the reference '
        'signatures plus copies that match no genome --, optionally in the latest HDF5 format, optionally with trailing zero bytes after the '
        'HDF5 data, also on the shipped content; list of invocations that open the signature file, one of them a client process killed while '
        'it holds the data base open) -> SHA-256 and size of both files after every invocation, mode of every open of the signature file '
        '(high-level and low-level h5py interface); non-trivial as for `state`. '
        'sequence (streams sequence-fixed / sequence-random): script of 2-7 calls over a pool of long-lived objects shared by the '
        'steps (data base objects, session makers and open sessions, signature handles, CLI contexts, QueryParams objects, query '
        'arrays) against two different data bases, a private one a writing tool works on in between, malformed inputs (a `badload` step '
        'points load_from_dir / load / load_genomeset at a truncated / zero-byte / table-less / taxa-less genome file: the bytes of the '
        'files of that directory are compared after the step) -> after every '
        'step the C18 predicate on every directory of the pool, caller objects unmodified, same call same result (vs freshly loaded '
        'objects; sessions / handles vs the session / store machine); non-trivial: >= 1 pool object is used by >= 2 steps, >= 1 step '
        'completes, and the script uses >= 2 data bases or contains >= 1 failing step or >= 1 repeated call')
TRUSTED = ['SQLite / pysqlite: a connection that executes only SELECT/PRAGMA does not write to the file (explored: '
           'SHA-256, size, mtime, journal after every step; not proved)',
           'libhdf5 / h5py: a file opened in mode r is not written (explored likewise); h5py.File default mode is r '
           '(asserted on every run through the recorded File.mode)',
           'SQLAlchemy 1.4 unit of work: everything the inherited Session code sends to the data base for pending '
           'objects goes through self.flush() (query autoflush, SessionTransaction.commit, begin_nested) -- the '
           'session machine of Model/C18.v; validated operation by operation against the real Session',
           'harness recorders: Engine before/after_cursor_execute, Session after_begin, wrapper of h5py.File.__init__ (opens by path) and '
           'of h5py.h5f.open (opens through the low-level interface that do not come from h5py.File(path): mode r iff libhdf5 reports the '
           'intent ACC_RDONLY for the identifier, which is what h5py.File.mode shows)',
           'sigsize stream: the larger / padded signature files are written by the harness with h5py (same attributes, data set names and '
           'types as the shipped file; values tiled, bounds continued, further ids that match no genome) and by appending zero bytes, trusted '
           'to produce what they are asked for (sizes recorded in coverage.signature_file_bytes_by_state; a class that does not exceed its '
           'bound is not buildable); that libhdf5 reads a file with trailing bytes like the unpadded one, and that a reader killed while it '
           'has a file open in mode r leaves no trace in it, is explored by the same hashes on the unchanged code, not assumed; the killed '
           'client runs in a process of its own, outside the recorders: only the bytes of the two files judge it',
           'in-place stream: the arrays a caller obtains from the signature object (int / negative / numpy-int index, '
           'contiguous / open / stepped slice and its .values / .bounds / rows, index list, boolean mask, iteration, '
           'reversed(), .values[a:b], .bounds[a:b], np.asarray(.values)) are modelled as private values (Model/C18.v SRead '
           'returns a value, the store is unchanged), so modifying them is not a store operation; explored on the real '
           'objects with 17 numpy in-place operations: SHA-256/size/mtime of both files after every such step, also when the '
           'arrays outlive the handle. That a write through a shared file mapping is seen at once by the hashing is '
           'asserted on every run on a private copy (extra.mmap_write_detected); an array the implementation hands out '
           'read-only (the operation raises) is not judged',
           'dbstate stream: "SQLite does not write for a connection that only reads" is EXPLORED, not assumed, over the '
           'persistent states of the genome file listed in the module docstring (journal mode WAL / DELETE / TRUNCATE / '
           'PERSIST / MEMORY / OFF, leftover side files, page sizes 512..65536, auto_vacuum, freelist, VACUUM, user_version, '
           'application_id, UTF-16 encodings, read-only on disk) and two of the signature file; the states are produced by '
           'the harness with the sqlite3 / h5py modules on private copies (trusted to produce what they are asked for: the '
           'SQLite header fields of every state are recorded in the replay values); judged there: bytes (SHA-256, size) of '
           'the two files, write statements, commit, session class, handle mode -- not mtime, not side files',
           'dbschema stream (history-dbschema / history-dbschema-random, badload steps of the sequence stream): the incomplete / foreign '
           'genome files are produced by the harness with the sqlite3 module on private copies (DROP TABLE / DROP INDEX / ALTER TABLE ADD, '
           'DROP COLUMN, RENAME / CREATE TABLE AS SELECT / DELETE / INSERT; files written byte by byte), trusted to produce what they are '
           'asked for: the schema objects (sqlite_master, read through a mode=ro connection) and the SQLite header of every such file are '
           'recorded in the replay values; that a read-side call changed nothing is decided by SHA-256 + size of the two files after '
           'EVERY invocation whatever its outcome (schema statements -- CREATE TABLE / CREATE INDEX / ALTER TABLE -- do not go through '
           'the ORM flush, SQLite commits them at once, and they need not pass the statement recorder: the recorder is a second opinion, '
           'the hashes decide); the model (op 1803) knows no schema -- its genome file is an abstract value that no read-side micro '
           'operation changes -- so for these states only the property predicate is judged, not the number of sessions / handles a '
           'command opens; that SQLite itself does not write when a reader meets such a file (zero-byte, foreign, truncated) is explored '
           'by the same hashes on the unchanged code, not assumed',
           'the mapping invocation -> micro operations (Model/C18.v compile) is a summary of the CLI code paths; only '
           'its observable consequences (sessions opened, handle modes, nothing written) are compared',
           'sequence stream: data base B, the malformed files / directories and the genome-field table the data base objects are '
           'compared with are made / read by the harness with the sqlite3 and h5py modules (trusted to do what they are asked); '
           '"same call, same result" compares with the same call on freshly loaded objects IN THE SAME PROCESS -- a reference for '
           'drift, not a model of what the result should be (that is C04 / C08 / C09 / C14); in the model every session and every '
           'handle is a machine of its own over an unchanged file, which is why long-lived sessions / handles of one case are '
           'compared with the session / store machine one by one; a violation is confirmed in a fresh process (sys.executable -c) '
           'before it is reported, with the earlier scripts in front if it needs the state they left (case key prior)']
ASSUMPTIONS = ['no other process writes to the data base directory while a command runs',
               'raw DML through session.execute()/connection and committing the SessionTransaction object directly '
               'are NOT read-side use: C18_raw_dml_boundary_refuted shows (and the harness confirms on a private copy) '
               'that ReadOnlySession does not stop them',
               'the file system reports modification through mtime_ns / content; atime is ignored',
               'a genome file with PENDING (not yet checkpointed) frames in a leftover -wal file (left behind by a crashed '
               'writer) is a separate kind (walpending): SQLite transfers such frames into the file when ANY connection to '
               'it closes, a reading one included, because gambit opens the file read-write -- `gambit query` changes the '
               'bytes of the genome file: genuine defect, known finding C18-wal-pending-frames; `signatures info -d`, which '
               'opens no SQLite connection, is run on the same state and must leave it alone.  The dbstate streams generate '
               'leftover side files whose frames are all checkpointed',
               'sequence stream: while a writing tool holds a read-write (r+) handle on a signature file open IN THE SAME PROCESS, '
               'libhdf5 shares that access with every later open of the file (a default load_signatures() then reports mode r+; '
               'observed on the unchanged code, a property of libhdf5): the file is being written by its owner, outside the '
               'property -- the writing tool of the stream closes its handle before the read-side use (its SQLAlchemy session may '
               'stay open); data base objects, sessions and engines are not handed to a second thread (SQLite refuses, not '
               'advertised): the thread steps load the data base in the thread']
BATCH = 60
SHRINK = True

TRACKED = [1, 2, 3, 4, 5]          # genome ids whose description is followed
ADD_BASE = 900000                  # ids of added genomes
PFX = 'c18v'
_S = {}


class InjectedFailure(Exception):
	pass


# ------------------------------------------------------------------------------------------------
# environment
# ------------------------------------------------------------------------------------------------

def _sha(path):
	h = hashlib.sha256()
	with open(path, 'rb') as f:
		for chunk in iter(lambda: f.read(1 << 20), b''):
			h.update(chunk)
	return h.hexdigest()


def _snap(d):
	names = sorted(os.listdir(d))
	files = {}
	for n in names:
		p = os.path.join(d, n)
		st = os.stat(p)
		files[n] = (_sha(p) if os.path.isfile(p) else 'dir', st.st_size, st.st_mtime_ns)
	return dict(names=names, files=files, dir_mtime=os.stat(d).st_mtime_ns)


def _diff(base, now):
	"""human-readable list of differences between two snapshots ([] = identical)"""
	out = []
	if base['names'] != now['names']:
		out.append(f'directory listing {base["names"]} -> {now["names"]}')
	for n in base['names']:
		if n in now['files']:
			b, c = base['files'][n], now['files'][n]
			if b[0] != c[0]:
				out.append(f'{n}: SHA-256 {b[0][:12]} -> {c[0][:12]}')
			if b[1] != c[1]:
				out.append(f'{n}: size {b[1]} -> {c[1]}')
			if b[2] != c[2]:
				out.append(f'{n}: mtime_ns {b[2]} -> {c[2]}')
	if not out and base['dir_mtime'] != now['dir_mtime']:
		out.append(f'directory mtime_ns {base["dir_mtime"]} -> {now["dir_mtime"]}')
	return out


def _env():
	if 'root' in _S:
		return _S
	from vf import impl
	impl.check_import()
	root = impl.scratch_dir('gambit-verif-c18-')
	src = os.path.join(os.environ.get('VERIF_REPO', '/repo'), 'tests', 'data', 'testdb_210818')
	_S['orig'] = src
	_S['orig_sha'] = {n: _sha(os.path.join(src, n)) for n in ('ref-genomes.gdb', 'ref-signatures.gs')}
	pr = os.path.join(root, 'pristine')
	os.makedirs(pr)
	for n in ('ref-genomes.gdb', 'ref-signatures.gs', 'Readme.md'):
		shutil.copy(os.path.join(src, n), os.path.join(pr, n))
	qd = os.path.join(root, 'queries')
	os.makedirs(qd)
	qs = sorted(glob.glob(os.path.join(src, 'queries', 'genomes', '*.fasta.gz')))[:8]
	for q in qs:
		shutil.copy(q, qd)
	_S['queries'] = sorted(glob.glob(os.path.join(qd, '*.fasta.gz')))
	bad = os.path.join(qd, 'unreadable.fasta')
	with open(bad, 'wb') as f:
		f.write(b'\x00\xff\xfe this is not FASTA \x80\x81\n')
	_S['badquery'] = bad
	shutil.copy(os.path.join(src, 'queries', 'query-signatures.gs'), os.path.join(qd, 'query-signatures.gs'))
	_S['querysigs'] = os.path.join(qd, 'query-signatures.gs')
	_S['out'] = os.path.join(root, 'out')
	os.makedirs(_S['out'])
	_S['pristine'] = pr
	_S['root'] = root
	_S['db'] = os.path.join(root, 'db')
	_S['pristine_sha'] = {n: _sha(os.path.join(pr, n)) for n in ('ref-genomes.gdb', 'ref-signatures.gs')}
	_S['npriv'] = 0
	# 213 reference signatures: OpenMP teams of 16 threads on a shared machine only add latency
	from gambit._cython.threads import omp_set_num_threads
	omp_set_num_threads(1)
	_install()
	_restore()
	return _S


def _restore():
	"""(re)create the shared working copy from the pristine copy and take the baseline snapshot"""
	gc.collect()
	d = _S['db']
	if os.path.exists(d):
		shutil.rmtree(d)
	shutil.copytree(_S['pristine'], d)
	_S['gdb'] = os.path.join(d, 'ref-genomes.gdb')
	_S['gs'] = os.path.join(d, 'ref-signatures.gs')
	_S['base'] = _snap(d)


def _private():
	"""a private copy of the data base (for the contrast classes, which are expected to write)"""
	_S['npriv'] += 1
	d = os.path.join(_S['root'], f'priv{_S["npriv"]}')
	shutil.copytree(_S['pristine'], d)
	return d


def _install():
	"""recorders: SQL statements per data base file, session classes, h5py open modes"""
	from sqlalchemy import event
	from sqlalchemy.engine import Engine
	from sqlalchemy.orm import Session
	import h5py
	rec = _S['rec'] = dict(stmts=[], classes=[], modes=[], journal=[], nsql=0, fail_at=None)

	def dbpath(conn):
		try:
			return os.path.realpath(conn.engine.url.database or '')
		except Exception:
			return ''

	def bce(conn, cursor, statement, parameters, context, executemany):
		p = dbpath(conn)
		if not p.startswith(_S['root']):
			return
		word = (statement.lstrip().split(None, 1) or ['?'])[0].upper()
		# transaction control (SAVEPOINT / RELEASE / ROLLBACK [TO] / BEGIN) is not a write statement
		if word not in ('SELECT', 'PRAGMA', 'SAVEPOINT', 'RELEASE', 'ROLLBACK', 'BEGIN'):
			rec['stmts'].append((p, word))
		if p == os.path.realpath(_S.get('gdb', '')):
			rec['nsql'] += 1
			if rec['fail_at'] is not None and rec['nsql'] == rec['fail_at']:
				raise InjectedFailure(f'injected failure at SQL statement {rec["nsql"]}')

	def ace(conn, cursor, statement, parameters, context, executemany):
		p = dbpath(conn)
		if not p.startswith(_S['root']):
			return
		extra = [n for n in os.listdir(os.path.dirname(p)) if n.endswith(('-journal', '-wal', '-shm'))]
		if extra:
			rec['journal'].append((p, extra))

	def ab(session, transaction, connection):
		p = dbpath(connection)
		if p.startswith(_S['root']):
			rec['classes'].append((p, type(session)))

	event.listen(Engine, 'before_cursor_execute', bce)
	event.listen(Engine, 'after_cursor_execute', ace)
	event.listen(Session, 'after_begin', ab)

	orig_init = h5py.File.__init__
	tl = threading.local()      # depth of h5py.File.__init__(path) calls of this thread (they open through h5f.open themselves)

	def init(self, name, *a, **kw):
		by_name = isinstance(name, (str, bytes, os.PathLike))
		if by_name:
			tl.depth = getattr(tl, 'depth', 0) + 1
		try:
			orig_init(self, name, *a, **kw)
		finally:
			if by_name:
				tl.depth -= 1
		try:
			p = os.path.realpath(os.fsdecode(name)) if by_name else ''
			if p.startswith(_S['root']):
				m = self.mode
				rec['modes'].append((p, m, None if m == 'r' else _sha(p)))
		except Exception:
			pass

	# a file can also be opened through h5py's LOW-LEVEL interface (h5py.h5f.open(name, flags, fapl), whose default flags are
	# read-WRITE) and the identifier wrapped: h5py.File(fid).  h5py.File.__init__ is then given no path (and is also what every
	# `obj.file` access calls, with an identifier: not an open), so such opens are recorded here, with the access intent libhdf5
	# reports for the identifier (what h5py.File.mode shows); opens made by h5py.File(path) itself are recorded above, once
	orig_open = h5py.h5f.open

	def low_open(name, *a, **kw):
		fid = orig_open(name, *a, **kw)
		if not getattr(tl, 'depth', 0):
			try:
				p = os.path.realpath(os.fsdecode(name))
				if p.startswith(_S['root']):
					m = 'r' if fid.get_intent() == h5py.h5f.ACC_RDONLY else 'r+'
					rec['modes'].append((p, m, None if m == 'r' else _sha(p)))
			except Exception:
				pass
		return fid

	if not getattr(h5py.File.__init__, '_c18', False):
		init._c18 = True
		h5py.File.__init__ = init
		h5py.h5f.open = low_open


def _class_flags(cls):
	"""(flush_noop, commit_raises) of a session class, determined by what it DOES on a throw-away copy"""
	cache = _S.setdefault('flags', {})
	if cls in cache:
		return cache[cls]
	# sessionmaker() derives an (empty) subclass of its class_ for every maker: it does what its only base does
	if len(cls.__bases__) == 1 and not [k for k in vars(cls) if k not in ('__module__', '__doc__', '__dict__', '__weakref__')]:
		cache[cls] = _class_flags(cls.__bases__[0])
		return cache[cls]
	from sqlalchemy import create_engine
	from gambit.db.models import Genome
	d = _private()
	p = os.path.join(d, 'ref-genomes.gdb')
	eng = create_engine(f'sqlite:///{p}')
	rec = _S['rec']
	n0 = len(rec['stmts'])
	s = cls(bind=eng)
	s.add(Genome(id=ADD_BASE - 1, key='c18/probe', description='probe'))
	try:
		s.flush()
	except Exception:
		pass
	flush_noop = not any(x[0] == os.path.realpath(p) for x in rec['stmts'][n0:])
	s.rollback()
	s.close()
	s2 = cls(bind=eng)
	try:
		s2.commit()
		commit_raises = False
	except TypeError:
		commit_raises = True
	except Exception:
		commit_raises = False
	s2.close()
	eng.dispose()
	del rec['stmts'][n0:]
	rec['classes'] = [c for c in rec['classes'] if c[0] != os.path.realpath(p)]
	shutil.rmtree(d, ignore_errors=True)
	cache[cls] = (int(flush_noop), int(commit_raises))
	return cache[cls]


def _code(desc):
	if isinstance(desc, str) and desc.startswith(PFX):
		try:
			return int(desc[len(PFX):])
		except ValueError:
			return -1
	return 0


def setup(ctx):
	_env()
	for a in ASSUMPTIONS:
		ctx.assume(a)
	_selfcheck_mmap(ctx)
	_warm_up()
	if not ctx.replaying:
		ctx.extra['readonly_on_disk_effective'] = (os.geteuid() != 0)   # chmod does not stop root: the state is then only a mode bit


def _warm_up():
	"""every invocation ends with a full gc.collect() (that is what closes the files a command left open); its cost is
	proportional to the number of live container objects, most of which are the import-time objects of SQLAlchemy, click,
	h5py, numpy, Bio ...: load them now and move them to the permanent generation"""
	if _S.get('warm'):
		return
	_S['warm'] = True
	try:
		import gambit.cli, gambit.query, gambit.results, gambit.db, gambit.sigs.calc, gambit.cluster   # noqa: F401
		import Bio.Phylo   # noqa: F401
		gc.collect()
		gc.freeze()
	except Exception:
		pass


def finish(ctx):
	env = _env()
	gc.collect()
	d = _diff(env['base'], _snap(env['db']))
	if d:
		ctx.violation('history', dict(invs=[]), 'at the end of the campaign the working copy differs from its baseline: ' + '; '.join(d))
	now = {n: _sha(os.path.join(env['orig'], n)) for n in env['orig_sha']}
	if now != env['orig_sha']:
		ctx.broke('harness hygiene', 'the ORIGINAL tests/data/testdb_210818 changed during the campaign')
	ctx.extra['h5py_default_mode_observed'] = sorted({m[1] for m in env.get('seen_modes', [])}) or ['r']
	ctx.extra['session_classes_observed'] = sorted(env.get('seen_classes', set()))
	if env.get('sig_sizes'):
		ctx.extra['signature_file_bytes_by_state'] = dict(sorted(env['sig_sizes'].items()))


# ------------------------------------------------------------------------------------------------
# session machine on the real Session
# ------------------------------------------------------------------------------------------------

HOW = ('default', 'explicit', 'cli', 'plain', 'rawdml')
PROPERTY_HOW = ('default', 'explicit', 'cli')


def _open_session(how, af, gdb):
	"""-> (session, engine or None)"""
	from gambit.db.sqla import file_sessionmaker, ReadOnlySession
	if how in ('default', 'rawdml'):
		mk = file_sessionmaker(gdb, autoflush=bool(af))
		return mk(), mk.kw['bind']
	if how == 'explicit':
		mk = file_sessionmaker(gdb, cls=ReadOnlySession, autoflush=bool(af))
		return mk(), mk.kw['bind']
	if how == 'plain':
		mk = file_sessionmaker(gdb, readonly=False, autoflush=bool(af))
		return mk(), mk.kw['bind']
	if how == 'cli':
		from gambit.cli import cli
		from gambit.cli.common import CLIContext
		c = cli.make_context('gambit', ['-d', os.path.dirname(gdb), 'query'])
		obj = CLIContext(c)
		return obj.Session(), obj.engine
	raise ValueError(how)


def _model_flags(ctx, how):
	"""what the MODEL says the class of such a session is"""
	key = 'mflags'
	if key not in _S:
		ro = ctx.model([(1804, [1]), (1804, [0])])
		_S[key] = dict(default=ro[0][0], explicit=[1, 1], cli=ro[0][1], plain=ro[1][0], rawdml=ro[0][0], defmode=ro[0][2])
	return _S[key][how]


def _run_session(case, gdb, shared, live=None):
	"""run the operations on the implementation; -> list of per-operation observables
	[resp, n_new, n_dirty, n_deleted, wrote(bool), file_changed(bool), journal(bool)], problems.
	live (kind `sequence`): dict(s, eng, added, base) of a LONG-LIVED session that was opened earlier and stays open
	afterwards; an exception injected at the n-th SQL statement is then the answer [8] of that operation"""
	from sqlalchemy import update, insert, delete
	from sqlalchemy.exc import InvalidRequestError
	from sqlalchemy.orm.exc import FlushError
	from gambit.db.models import Genome
	env = _env()
	rec = env['rec']
	d = os.path.dirname(gdb)
	base = live['base'] if live is not None else (env['base'] if shared else _snap(d))
	base_sha = base['files']['ref-genomes.gdb'][0]
	rp = os.path.realpath(gdb)
	n0 = len(rec['stmts'])
	if live is not None:
		s, eng, added = live['s'], live['eng'], live['added']
	else:
		s, eng = _open_session(case['how'], case['af'], gdb)
		added = []
	obs, problems = [], []
	try:
		for i, o in enumerate(case['ops']):
			c = o[0]
			resp = [0]
			try:
				if c == 0:
					s.add(Genome(id=o[1], key=f'c18/{o[1]}', description=f'{PFX}{o[2]}'))
					added.append(o[1])
				elif c in (1, 2):
					g = s.query(Genome).filter_by(id=o[1]).one_or_none()
					if g is None:
						resp = [4]
					elif c == 1:
						g.description = f'{PFX}{o[2]}'
					else:
						s.delete(g)
				elif c == 3:
					ids = TRACKED + added
					rows = s.query(Genome.id, Genome.description).filter(Genome.id.in_(ids)).all()
					resp = [1, sorted([int(a), _code(b)] for a, b in rows)]
				elif c == 4:
					s.flush()
				elif c == 5:
					try:
						s.commit()
					except TypeError:
						resp = [2]
					except FlushError:
						resp = [3]
				elif c == 6:
					s.rollback()
				elif c == 7:
					s.close()
				elif c == 8:
					tx = s.get_transaction() or s.begin()
					try:
						tx.commit()
					except TypeError:
						resp = [2]
					except FlushError:
						resp = [3]
				elif c == 9:
					ch = o[1]
					if ch[0] == 0:
						st = insert(Genome).values(id=ch[1], key=f'c18/{ch[1]}', description=f'{PFX}{ch[2]}')
						added.append(ch[1])
					elif ch[0] == 1:
						st = update(Genome).where(Genome.id == ch[1]).values(description=f'{PFX}{ch[2]}')
					else:
						st = delete(Genome).where(Genome.id == ch[1])
					s.execute(st.execution_options(synchronize_session=False))
				# savepoint operations (not part of the Coq session machine: judged by the property predicate only)
				elif c == 10:
					s.begin_nested()
				elif c == 11:
					tx = s.get_nested_transaction()
					if tx is None:
						resp = [4]
					else:
						try:
							tx.commit()
						except TypeError:
							resp = [2]
						except FlushError:
							resp = [3]
				elif c == 12:
					tx = s.get_nested_transaction()
					if tx is None:
						resp = [4]
					else:
						tx.rollback()
				elif c == 13:
					try:
						with s.begin_nested():
							g = s.query(Genome).filter_by(id=o[1]).one_or_none()
							if g is not None:
								g.description = f'{PFX}{o[2]}'
					except TypeError:
						resp = [2]
					except FlushError:
						resp = [3]
			except InjectedFailure:
				if live is None:
					raise
				resp = [8]
			except Exception as e:  # an exception class the model does not know
				resp = [9, type(e).__name__]
			wrote = any(x[0] == rp for x in rec['stmts'][n0:])
			now = _snap(d)
			df = _diff(base, now) if shared else []
			changed = now['files'].get('ref-genomes.gdb', ('?',))[0] != base_sha
			journal = any(n.endswith(('-journal', '-wal', '-shm')) for n in now['names'])
			n_new = sum(isinstance(x, Genome) for x in s.new)
			n_dirty = sum(isinstance(x, Genome) for x in s.dirty)
			n_del = sum(isinstance(x, Genome) for x in s.deleted)
			obs.append([resp, n_new, n_dirty, n_del, int(wrote), int(changed), int(journal)])
			if shared:
				if df:
					problems.append((i, 'after operation %d (%s) the data base directory changed: %s' % (i, _opname(o), '; '.join(df))))
				if wrote:
					w = sorted({x[1] for x in rec['stmts'][n0:] if x[0] == rp})
					problems.append((i, 'operation %d (%s): write statement(s) %s reached the cursor' % (i, _opname(o), w)))
				if c == 5 and resp != [2]:
					problems.append((i, 'operation %d: commit() did not raise TypeError (got %s)' % (i, resp)))
				if problems:
					break
	finally:
		if live is None:
			try:
				s.close()
			except Exception:
				pass
			if eng is not None:
				eng.dispose()
		del s
	return obs, problems


OPNAMES = {0: 'add', 1: 'modify', 2: 'delete', 3: 'query', 4: 'flush', 5: 'commit', 6: 'rollback', 7: 'close',
           8: 'transaction.commit', 9: 'raw DML', 10: 'begin_nested', 11: 'savepoint.commit (release)',
           12: 'savepoint.rollback', 13: 'with begin_nested(): modify'}


def _opname(o):
	return OPNAMES.get(o[0], '?')


def _model_session_obs(m):
	"""model answer -> same shape as the implementation observables"""
	out = []
	for r, nn, nd, nx, nlog, ch, j in m:
		if r[0] == 1:
			r = [1, sorted([int(a), int(b)] for a, b in r[1])]
		out.append([r, nn, nd, nx, int(nlog > 0), ch, j])
	return out


def _session_nontrivial(case, obs):
	edit = False
	for o, ob in zip(case['ops'], obs):
		if o[0] in (0, 1, 2) and ob[0] == [0]:
			edit = True
		elif edit and o[0] in (3, 4, 5, 8):
			return True
		elif o[0] in (6, 7):
			edit = False
	return False


def k_session(ctx, cases):
	env = _env()
	table = [[k, 0] for k in TRACKED]
	reqs = []
	for c in cases:
		fl = _model_flags(ctx, c['how']) if ctx.model_ok else [1, 1]
		af = 1 if c['how'] == 'cli' else c['af']
		modelled = [o for o in c['ops'] if o[0] < 10]
		reqs.append((1801, [fl[0], fl[1], af, table, modelled]))
	models = ctx.model(reqs) if ctx.model_ok else [None] * len(cases)
	for c, m in zip(cases, models):
		if any(o[0] >= 10 for o in c['ops']):
			m = None   # savepoint operations are outside the session machine: property predicate only
		if c['how'] == 'cli':
			c = dict(c, af=1)
		shared = c['how'] in PROPERTY_HOW
		if shared:
			gdb = env['gdb']
		else:
			pd = _private()
			gdb = os.path.join(pd, 'ref-genomes.gdb')
		try:
			obs, problems = _run_session(c, gdb, shared)
		finally:
			if not shared:
				shutil.rmtree(pd, ignore_errors=True)
		ctx.count('session:' + c['how'])
		ctx.case(c, nontrivial=_session_nontrivial(c, obs))
		if shared and problems:
			ctx.violation('session', c, problems[0][1], impl=obs, model=m)
			_restore()
			continue
		if shared and _diff(env['base'], _snap(env['db'])):
			ctx.violation('session', c, 'after closing the session the directory differs: ' + '; '.join(_diff(env['base'], _snap(env['db']))), impl=obs)
			_restore()
			continue
		if m is None or m == [2]:
			if m == [2]:
				ctx.broke('correspondence session', f'model rejected the request for {c}')
			continue
		mo = _model_session_obs(m)
		if mo != obs:
			i = next((i for i, (a, b) in enumerate(zip(mo, obs)) if a != b), min(len(mo), len(obs)))
			detail = f'{c}: first difference at operation {i}: model {mo[i] if i < len(mo) else None}, implementation {obs[i] if i < len(obs) else None}'
			if shared:
				# property predicate already checked above and true: tie broken without a failing input
				ctx.broke('correspondence session (default/CLI session vs session machine)', detail)
			else:
				ctx.broke('correspondence session (contrast class vs session machine)', detail)


# ------------------------------------------------------------------------------------------------
# arrays handed out by the signature object, post-processed in place by the caller
# ------------------------------------------------------------------------------------------------

SEL_NAMES = {0: 'sigs[i]', 1: 'sigs[i-n]', 2: 'sigs[np.int64(i)]', 3: 'sigs[i:j].values', 4: 'rows of sigs[i:j]',
             5: 'sigs[i:].values', 6: 'sigs[i:j:2].values', 7: 'sigs[[i,..]].values', 8: 'sigs[mask].values',
             9: 'for sig in sigs', 10: 'sigs.values[a:b]', 11: 'sigs.bounds[i:j]', 12: 'np.asarray(sigs.values)',
             13: 'sigs[:] (.values, .bounds)', 14: 'reversed(sigs)', 15: 'sigs[:j].values and .bounds'}
MUT_NAMES = {0: 'a += 1', 1: 'a.fill(0)', 2: 'a[::-1].sort()', 3: 'np.add(a, 1, out=a)', 4: 'a[...] = 7', 5: 'a ^= 1',
             6: 'np.multiply(a, 3, out=a)', 7: 'a[0] += 1', 8: 'a.byteswap(inplace=True)', 9: 'np.copyto(a, a[::-1].copy())',
             10: 'a.sort()', 11: 'a.put(range(0, n, 2), 0)', 12: 'np.subtract(a, a, out=a)', 13: 'a.view(uint8).fill(0xAA)',
             14: 'np.putmask(a, a >= 0, 1)', 15: 'a.clip(0, 1, out=a)', 16: 'a[1::2] = a[::2][:len(a[1::2])]'}
NSEL, NMUT = len(SEL_NAMES), len(MUT_NAMES)


def _take(sigs, sel, i, w):
	"""the arrays a read-side caller obtains from an (opened) signature object -- the RETURNED objects themselves"""
	import numpy as np
	n = len(sigs)
	i = int(i) % n
	w = 1 + int(w) % 8
	j = min(n, i + w)
	sel = int(sel) % NSEL
	if sel == 0:
		out = [sigs[i]]
	elif sel == 1:
		out = [sigs[i - n]]
	elif sel == 2:
		out = [sigs[np.int64(i)]]
	elif sel == 3:
		out = [sigs[i:j].values]
	elif sel == 4:
		sub = sigs[i:j]
		out = [sub[0], sub[len(sub) - 1]]
	elif sel == 5:
		out = [sigs[i:].values]
	elif sel == 6:
		out = [sigs[i:min(n, i + 2 * w):2].values]
	elif sel == 7:
		out = [sigs[[i, (i + w) % n, (i * 7 + 3) % n]].values]
	elif sel == 8:
		mask = np.zeros(n, dtype=bool)
		mask[i:j] = True
		mask[(i * 7 + 3) % n] = True
		out = [sigs[mask].values]
	elif sel == 9:
		out = [sig for sig, _ in zip(sigs, range(w))]
	elif sel == 10:
		a, b = int(sigs.bounds[i]), int(sigs.bounds[j])
		out = [sigs.values[a:b]]
	elif sel == 11:
		out = [sigs.bounds[i:j + 1]]
	elif sel == 12:
		out = [np.asarray(sigs.values)]
	elif sel == 13:
		sub = sigs[:]
		out = [sub.values, sub.bounds]
	elif sel == 14:
		out = [sig for sig, _ in zip(reversed(sigs), range(w))]
	else:
		sub = sigs[:j]
		out = [sub.values, sub.bounds]
	return [a for a in out if isinstance(a, np.ndarray)]


def _mutate(a, mut):
	"""modify the caller's array in place (ordinary numpy practice); -> True iff the array now differs"""
	import numpy as np
	mut = int(mut) % NMUT
	if a.size == 0:
		return False
	before = np.array(a, copy=True)
	if mut == 0:
		a += 1
	elif mut == 1:
		a.fill(0)
	elif mut == 2:
		a[::-1].sort()
	elif mut == 3:
		np.add(a, 1, out=a)
	elif mut == 4:
		a[...] = 7
	elif mut == 5:
		a ^= 1
	elif mut == 6:
		np.multiply(a, 3, out=a)
	elif mut == 7:
		a[0] += 1
	elif mut == 8:
		a.byteswap(inplace=True)
	elif mut == 9:
		np.copyto(a, a[::-1].copy())
	elif mut == 10:
		a.sort()
	elif mut == 11:
		a.put(range(0, a.size, 2), 0)
	elif mut == 12:
		np.subtract(a, a, out=a)
	elif mut == 13:
		a.view(np.uint8).fill(0xAA)
	elif mut == 14:
		np.putmask(a, a >= 0, 1)
	elif mut == 15:
		a.clip(0, 1, out=a)
	else:
		m = len(a[1::2])
		a[1::2] = a[::2][:m].copy()
	return not np.array_equal(before, a)


def _mutate_all(arrays, mut):
	"""-> number of arrays effectively modified.  An array that refuses (read-only, ...) is the implementation's
	business and is not judged: the property constrains the files, not the writability of what is handed out."""
	eff = 0
	for a in arrays:
		try:
			if _mutate(a, mut):
				eff += 1
		except Exception:
			pass
	return eff


def _sig_damage(gs):
	"""for the message of a violation only: what a FRESH load of the signature file returns now, compared with the
	pristine copy (read with plain h5py)"""
	import numpy as np
	import h5py
	from gambit.sigs.base import load_signatures
	try:
		with h5py.File(os.path.join(_S['pristine'], 'ref-signatures.gs'), 'r') as f:
			values, bounds = f['values'][:], f['bounds'][:]
		with load_signatures(gs) as sg:
			n = len(sg)
			got = [np.array(sg[k], copy=True) for k in range(n)]
		if n != len(bounds) - 1:
			return f'a fresh load_signatures() now returns {n} signatures instead of {len(bounds) - 1}'
		bad = [k for k in range(n) if not np.array_equal(got[k], values[bounds[k]:bounds[k + 1]])]
		del got
		if not bad:
			return 'a fresh load_signatures() still returns the original signatures'
		return (f'a fresh load_signatures() now returns {len(bad)} of {n} signatures changed '
		        f'(indices {bad[:6]}{" ..." if len(bad) > 6 else ""})')
	except Exception as e:
		return f'a fresh load_signatures() now fails: {type(e).__name__}: {str(e)[:80]}'
	finally:
		gc.collect()


def _with_damage(df, gs):
	if any(x.startswith('ref-signatures.gs') for x in df):
		return '; '.join(df) + ' -- ' + _sig_damage(gs)
	return '; '.join(df)


def _selfcheck_mmap(ctx):
	"""detector alive: a write through a shared mapping of a PRIVATE copy of the signature file (what an in-place
	modification of a file-backed array amounts to) is seen by the snapshot at once, before unmapping"""
	import numpy as np
	import h5py
	d = _private()
	try:
		gs = os.path.join(d, 'ref-signatures.gs')
		base = _snap(d)
		with h5py.File(gs, 'r') as f:
			ds = f['values']
			off, shape, dtype = ds.id.get_offset(), ds.shape, ds.dtype
		if off is None or not shape or not shape[0]:
			ctx.extra['mmap_write_detected'] = 'not applicable: values dataset is not one contiguous block'
			return
		mm = np.memmap(gs, dtype=dtype, mode='r+', offset=off, shape=shape)
		a = mm[10:20]
		a += 1
		seen = bool(_diff(base, _snap(d)))
		del a, mm
		gc.collect()
		ctx.extra['mmap_write_detected'] = seen
		if not seen:
			ctx.broke('harness self-check (in-place stream)', 'a write through a shared mapping of a private copy of the '
			          'signature file was not seen by the snapshot: the in-place stream cannot detect anything here')
	finally:
		shutil.rmtree(d, ignore_errors=True)


def _model_sops(ops):
	"""store operations as the model sees them: take-and-modify (6) is a read of the same key followed by a computation
	on a private value; modifying arrays taken earlier (7) is no store operation at all"""
	out = []
	for o in ops:
		if o[0] == 6:
			out.append([1, o[1] if len(o) > 1 else 0])
		elif o[0] != 7:
			out.append(o)
	return out


# ------------------------------------------------------------------------------------------------
# signature store
# ------------------------------------------------------------------------------------------------

MODES = {-1: None, 0: 'r', 1: 'r+'}
MODE_CODE = {'r': 0, 'r+': 1}


def _store_shared(case):
	return all(o[1] in (-1, 0) for o in case['ops'] if o[0] == 0)


def _run_store(case, gs, shared, live=None):
	"""live (kind `sequence`): dict(sigs, is_open, held, base) of a LONG-LIVED handle slot: the signature object opened
	by an earlier step (or None), still open or not, and the arrays taken from it so far; updated in place, nothing
	is closed at the end"""
	import numpy as np
	from gambit.sigs.base import load_signatures
	from gambit.sigs.hdf5 import load_signatures_hdf5
	env = _env()
	d = os.path.dirname(gs)
	base = live['base'] if live is not None else (env['base'] if shared else _snap(d))
	base_sha = base['files'][os.path.basename(gs)][0]
	sigs = None
	is_open = False
	obs, problems = [], []
	held = []          # arrays the caller took from the signature object (they outlive the handle)
	eff = 0            # effective in-place modifications of such arrays
	if live is not None:
		sigs, is_open, held = live['sigs'], live['is_open'], live['held']

	def rejected(e):
		return 'no write intent' in str(e)

	def closed_err(e):
		t = str(e).lower()
		return any(x in t for x in ('invalid', 'not a file', 'closed', 'not open', 'identifier', "can't", 'unable'))

	try:
		for i, o in enumerate(case['ops']):
			c = o[0]
			resp = [0]
			try:
				if c == 0:
					if is_open:
						resp = [4]
					else:
						m = MODES[o[1]]
						sigs = load_signatures(gs) if m is None else load_signatures_hdf5(gs, mode=m)
						is_open = True
				elif sigs is None:
					resp = [3]
				elif c == 1:
					if not is_open:
						try:
							sigs.group.attrs.get('x')
							resp = [9, 'read on a closed handle succeeded']
						except Exception:
							resp = [3]
					else:
						n = len(sigs)
						_ = sigs[o[1] % n]
						_ = sigs.ids[o[1] % n]
						_ = sigs.meta, sigs.kmerspec
						v = sigs.group.attrs.get(f'c18_{o[1]}')
						resp = [1, [] if v is None else [int(v)]]
				elif c == 2:
					if not is_open:
						try:
							sigs.group.attrs[f'c18_{o[1]}'] = o[2]
							resp = [9, 'write on a closed handle succeeded']
						except Exception:
							resp = [3]
					else:
						form = o[1] % 3 if sigs.group.file.mode == 'r' else 0
						if form == 0:
							sigs.group.attrs[f'c18_{o[1]}'] = o[2]
						elif form == 1:
							sigs.group.create_dataset(f'c18_{o[1]}', data=np.arange(3))
						else:
							sigs.group['values'][o[1] % 7] = o[2] % 4096
				elif c == 3:
					if not is_open:
						try:
							del sigs.group.attrs['kmerspec_k']
							resp = [9, 'delete on a closed handle succeeded']
						except Exception:
							resp = [3]
					elif sigs.group.file.mode == 'r':
						if o[1] % 2:
							del sigs.group.attrs['kmerspec_k']
						else:
							del sigs.group['bounds']
					elif f'c18_{o[1]}' in sigs.group.attrs:
						del sigs.group.attrs[f'c18_{o[1]}']
				elif c == 4:
					if is_open:
						sigs.group.file.flush()
					else:
						resp = [3]
				elif c == 5:
					if is_open:
						sigs.group.file.close()
						is_open = False
					else:
						resp = [3]
				elif c == 6:
					# take arrays from the signature object and post-process them in place (for the store: a read)
					k = o[1]
					sel, mut = (o[2] if len(o) > 2 else 0), (o[3] if len(o) > 3 else 0)
					ix, w = (o[4] if len(o) > 4 else k), (o[5] if len(o) > 5 else 0)
					if not is_open:
						try:
							got = _take(sigs, sel, ix, w)
						except Exception:
							got = None
							resp = [3]
						if got is not None:
							held.extend(got)
							eff += _mutate_all(got, mut)
							resp = [9, 'read on a closed handle succeeded']
						del got
					else:
						got = _take(sigs, sel, ix, w)
						held.extend(got)
						eff += _mutate_all(got, mut)
						del got
						v = sigs.group.attrs.get(f'c18_{k}')
						resp = [1, [] if v is None else [int(v)]]
				elif c == 7:
					# modify once more, in place, every array taken so far (possibly after the handle was closed)
					eff += _mutate_all(held, o[1] if len(o) > 1 else 0)
			except Exception as e:
				if c in (2, 3) and rejected(e):
					resp = [2]
				else:
					resp = [9, type(e).__name__ + ': ' + str(e)[:80]]
			now = _snap(d)
			changed = now['files'].get(os.path.basename(gs), ('?',))[0] != base_sha
			hm = -1
			if is_open:
				hm = MODE_CODE.get(sigs.group.file.mode, 9)
			obs.append([resp, int(changed), hm])
			if shared:
				df = _diff(base, now)
				if df:
					what = ''
					if c == 6:
						what = ' (%s, then %s on what was returned)' % (SEL_NAMES[(o[2] if len(o) > 2 else 0) % NSEL],
						                                                MUT_NAMES[(o[3] if len(o) > 3 else 0) % NMUT])
					elif c == 7:
						what = ' (%s on the arrays taken earlier)' % MUT_NAMES[(o[1] if len(o) > 1 else 0) % NMUT]
					problems.append('after operation %d %s%s the data base directory changed: %s' % (i, o, what, _with_damage(df, gs)))
				if c in (2, 3) and resp == [0]:
					problems.append('operation %d %s: a write through the signature handle was accepted' % (i, o))
				if is_open and hm != 0:
					problems.append('operation %d %s: the signature file is open in mode %r' % (i, o, sigs.group.file.mode))
				if problems:
					break
	finally:
		if live is not None:
			live['sigs'], live['is_open'] = sigs, is_open
		else:
			try:
				if sigs is not None and is_open:
					sigs.group.file.close()
			except Exception:
				pass
			del held[:]       # reference counting frees the arrays (and whatever they are windows onto) here
		del sigs
		if problems:
			gc.collect()
	return obs, problems, eff


def k_store(ctx, cases):
	env = _env()
	reqs = [(1802, [0, [], -1, _model_sops(c['ops'])]) for c in cases]
	models = ctx.model(reqs) if ctx.model_ok else [None] * len(cases)
	for c, m in zip(cases, models):
		shared = _store_shared(c)
		if shared:
			gs = env['gs']
		else:
			pd = _private()
			gs = os.path.join(pd, 'ref-signatures.gs')
		try:
			obs, problems, eff = _run_store(c, gs, shared)
		finally:
			if not shared:
				shutil.rmtree(pd, ignore_errors=True)
		ctx.count('store:' + ('read-mode' if shared else 'contrast-r+'))
		if eff:
			ctx.count('store:effective-in-place-modifications', eff)
		nontrivial = any(o[0] in (2, 3) and ob[2] != -1 for o, ob in zip(c['ops'], obs)) or eff > 0
		ctx.case(c, nontrivial=nontrivial)
		if shared and problems:
			ctx.violation('store', c, problems[0], impl=obs, model=m)
			_restore()
			continue
		if shared and _diff(env['base'], _snap(env['db'])):
			ctx.violation('store', c, 'after closing the handle the directory differs: ' + _with_damage(_diff(env['base'], _snap(env['db'])), env['gs']), impl=obs)
			_restore()
			continue
		if m is None or m == [2]:
			if m == [2]:
				ctx.broke('correspondence store', f'model rejected the request for {c}')
			continue
		mo = [[r if r[0] != 1 else [1, list(r[1])], ch, h] for r, ch, h in m]
		# operation 7 (a computation on arrays the caller already holds) is no operation of the store machine
		obs = [ob for o, ob in zip(c['ops'], obs) if o[0] != 7]
		if mo != obs:
			i = next((i for i, (a, b) in enumerate(zip(mo, obs)) if a != b), min(len(mo), len(obs)))
			ctx.broke('correspondence store (signature handle vs store machine)',
			          f'{c}: first difference at operation {i}: model {mo[i] if i < len(mo) else None}, implementation {obs[i] if i < len(obs) else None}')


# ------------------------------------------------------------------------------------------------
# persistent states of the data base files (stream history-dbstate)
# ------------------------------------------------------------------------------------------------

# jm       journal mode the genome file was last used in: delete | wal | truncate | persist | memory | off
# edit     what was done to it in that mode: none | desc (a description updated) | free (a scratch table created and
#          dropped: free pages stay on the freelist unless auto_vacuum = FULL)
# sidecar  (jm = wal) leftover side files: none | ckpt (-wal and -shm, every frame checkpointed) | ckpt-noshm (-wal only)
#          | empty (zero-length -wal, -shm)
# page     page size (0 = as shipped, 4096);  av  auto_vacuum 0 none / 1 full / 2 incremental;  vacuum  1 = VACUUMed
# uv / appid  PRAGMA user_version / application_id;  enc  utf8 | utf16le | utf16be (rebuilt from a dump)
# ro       none | file (both files chmod 0444) | dir (files 0444 and directory 0555)
# sig      signature file: orig | latest (rewritten with libver='latest')
#          | <size class>[-latest][-pad]: big | huge | vast (> 1 / 4 / 16 MiB) | same-pad, see _build_sig_size
# schema   (streams history-dbschema / history-dbschema-random) list of modifications that make the genome file an INCOMPLETE or
#          FOREIGN one, applied in order to the shipped file before everything else (see _apply_schema):
#          drop:T | dropindex:NAME | dropindex:* | addtable | addcol:T | addindex | dropcol:T.C | rename:T | rebuild:T |
#          norows:T | twosets | file:zero | file:garbage | file:truncated | file:notables | file:foreign | file:schema-only
STATE_DEFAULT = dict(jm='delete', edit='none', sidecar='none', page=0, av=0, vacuum=0, uv=0, appid=0, enc='utf8', ro='none', sig='orig',
                     schema=[])
JOURNAL_MODES = ('delete', 'wal', 'truncate', 'persist', 'memory', 'off')
PAGE_SIZES = (512, 1024, 2048, 4096, 8192, 16384, 32768, 65536)
ENCODINGS = {'utf8': 'UTF-8', 'utf16le': 'UTF-16le', 'utf16be': 'UTF-16be'}
DB_FILES = ('ref-genomes.gdb', 'ref-signatures.gs')


def _norm_state(st):
	out = dict(STATE_DEFAULT)
	out.update(st or {})
	return out


def _sqlite_header(path):
	"""the fields of the 100-byte SQLite header that a state sets / a modification shows in"""
	import struct
	try:
		with open(path, 'rb') as f:
			h = f.read(100)
		u32 = lambda o: struct.unpack('>I', h[o:o + 4])[0]
		ps = struct.unpack('>H', h[16:18])[0]
		return dict(page_size=65536 if ps == 1 else ps, format_write_read=h[18:20].hex(), change_counter=u32(24), pages=u32(28),
		            freelist_pages=u32(36), auto_vacuum_root=u32(52), encoding=u32(56), user_version=u32(60),
		            incremental_vacuum=u32(64), application_id=u32(68))
	except Exception as e:
		return dict(error=repr(e)[:80])


MODEL_TABLES = ('genomes', 'genome_sets', 'taxa', 'genome_annotations')
SCHEMA_RAW_FILES = ('zero', 'garbage', 'truncated')              # the genome file is no SQLite data base at all
SCHEMA_SQLITE_FILES = ('notables', 'foreign', 'schema-only')     # a valid SQLite file that is not (yet) a reference data base
SCHEMA_DROPCOLS = ('taxa.report', 'taxa.distance_threshold', 'taxa.ncbi_id', 'taxa.extra', 'genomes.extra',
                   'genome_sets.extra', 'genome_sets.description', 'genome_annotations.organism')


def _sqlite_objects(path):
	"""names of the schema objects of an SQLite file (read-only connection; for replay values and messages)"""
	import sqlite3
	try:
		con = sqlite3.connect('file:%s?mode=ro' % path, uri=True)
		try:
			return sorted('%s %s' % (t, n) for t, n in con.execute('SELECT type, name FROM sqlite_master') if not n.startswith('sqlite_'))
		finally:
			con.close()
	except Exception as e:
		return 'not readable as an SQLite data base (%s, %d bytes)' % (type(e).__name__, os.path.getsize(path) if os.path.exists(path) else -1)


def _apply_schema(mods, g):
	"""make the genome file g an INCOMPLETE / FOREIGN one, the way other tools (an older gambit, a data base browser, an
	export script, an interrupted download) leave such files; done with the sqlite3 module, every connection closed on
	return.  -> True iff the file is no SQLite data base any more (the SQLite dimensions of the state do not apply)"""
	import sqlite3
	raw = False
	for mod in mods:
		op, _, arg = str(mod).partition(':')
		if op == 'file':
			if arg == 'zero':
				data = b''
			elif arg == 'garbage':
				data = b'<html><body>404 Not Found: the data base you asked for is not here</body></html>\n' * 60
			elif arg == 'truncated':
				with open(g, 'rb') as f:
					data = f.read(5000)
			elif arg in SCHEMA_SQLITE_FILES:
				data = None
			else:
				raise ValueError(mod)
			if data is not None:
				with open(g, 'wb') as f:
					f.write(data)
				raw = True
				continue
			ddl = []
			if arg == 'schema-only':
				con = sqlite3.connect(g)
				ddl = [r[0] for r in con.execute("SELECT sql FROM sqlite_master WHERE sql IS NOT NULL ORDER BY type = 'index', rowid")]
				con.close()
			os.remove(g)
			con = sqlite3.connect(g, isolation_level=None)
			try:
				if arg == 'notables':
					con.execute('CREATE TABLE c18_t (x)')
					con.execute('DROP TABLE c18_t')
					con.execute('VACUUM')
				elif arg == 'foreign':
					con.execute('CREATE TABLE samples (id INTEGER PRIMARY KEY, name VARCHAR NOT NULL, collected DATE)')
					con.execute('CREATE TABLE runs (id INTEGER PRIMARY KEY, sample_id INTEGER REFERENCES samples (id), path VARCHAR)')
					con.execute('CREATE INDEX ix_runs_sample_id ON runs (sample_id)')
					con.execute('BEGIN')
					for i in range(40):
						con.execute('INSERT INTO samples VALUES (?, ?, ?)', (i, 'sample %d' % i, '2021-08-18'))
						con.execute('INSERT INTO runs VALUES (?, ?, ?)', (i, i, '/data/run%d.fastq.gz' % i))
					con.execute('COMMIT')
				else:
					for sql in ddl:
						con.execute(sql)
			finally:
				con.close()
			raw = False
			continue
		if raw:
			continue
		con = sqlite3.connect(g, isolation_level=None)
		try:
			tables = {r[0] for r in con.execute("SELECT name FROM sqlite_master WHERE type = 'table'")}
			if op == 'drop':
				con.execute('DROP TABLE IF EXISTS "%s"' % arg)
			elif op == 'dropindex':
				names = [r[0] for r in con.execute("SELECT name FROM sqlite_master WHERE type = 'index' AND sql IS NOT NULL")]
				for n in (names if arg == '*' else [n for n in names if n == arg]):
					con.execute('DROP INDEX "%s"' % n)
			elif op == 'addtable':
				con.execute('CREATE TABLE IF NOT EXISTS c18_lab_notes (id INTEGER PRIMARY KEY, genome_key VARCHAR, note TEXT)')
				con.execute("INSERT INTO c18_lab_notes (genome_key, note) VALUES ('x/1', 'table added with a data base browser')")
			elif op == 'addcol':
				if arg in tables:
					con.execute('ALTER TABLE "%s" ADD COLUMN c18_added_by_another_tool VARCHAR' % arg)
			elif op == 'addindex':
				if 'genomes' in tables:
					con.execute('CREATE INDEX IF NOT EXISTS c18_ix_genomes_description ON genomes (description)')
			elif op == 'dropcol':
				t, _, c = arg.partition('.')
				if t in tables:
					for ix in [r[1] for r in con.execute('PRAGMA index_list("%s")' % t) if r[3] == 'c']:
						if any(r[2] == c for r in con.execute('PRAGMA index_info("%s")' % ix)):
							con.execute('DROP INDEX "%s"' % ix)
					con.execute('ALTER TABLE "%s" DROP COLUMN "%s"' % (t, c))
			elif op == 'rename':
				if arg in tables:
					con.execute('ALTER TABLE "%s" RENAME TO "%s_old"' % (arg, arg))
			elif op == 'rebuild':
				# what an export / import through another tool leaves: the rows, no constraint, no index
				if arg in tables:
					con.execute('CREATE TABLE c18_rebuild AS SELECT * FROM "%s"' % arg)
					con.execute('DROP TABLE "%s"' % arg)
					con.execute('ALTER TABLE c18_rebuild RENAME TO "%s"' % arg)
			elif op == 'norows':
				if arg in tables:
					con.execute('DELETE FROM "%s"' % arg)
			elif op == 'twosets':
				if 'genome_sets' in tables:
					con.execute("INSERT INTO genome_sets (\"key\", version, name) VALUES ('c18/second', '1.0', 'a second genome set')")
			else:
				raise ValueError(mod)
		finally:
			con.close()
	return raw


# SIZE CLASS / TRAILING BYTES of the signature file (state key `sig`, next to orig | latest): the shipped file has 213 signatures in
# 257 KiB; a real reference data base has tens of thousands in hundreds of MiB, and code that reads one may treat a file differently
# above some size (buffers, memory mapping, another open call).  <class>[-latest][-pad]:
#   big / huge / vast  the 213 reference signatures followed by 5 / 20 / 72 further copies of them stored under ids that match no
#                      genome (a reference data base may hold such signatures: data base B of the sequence stream does too):
#                      > 1 MiB / > 4 MiB / > 16 MiB, written by the harness with h5py (same attributes, data set names and types)
#   same               the shipped content and size (only with -pad)
#   -latest            written with libver='latest' (superblock v3)
#   -pad               zero bytes appended after the end of the HDF5 data up to the next multiple of 64 KiB, what a block-wise
#                      copy (dd, some archive / object-store tools) leaves; libhdf5 reads such a file like the unpadded one
SIG_COPIES = dict(same=0, big=5, huge=20, vast=72)
SIG_MIN_SIZE = dict(same=0, big=1 << 20, huge=4 << 20, vast=16 << 20)
SIG_PAD_BLOCK = 65536


def _build_sig_size(sig, gs):
	"""rewrite the signature file gs (a copy of the shipped one) in the size class / with the trailing bytes named by sig"""
	import h5py
	import numpy as np
	parts = str(sig).split('-')
	cls, opts = parts[0], parts[1:]
	if cls not in SIG_COPIES or any(o not in ('latest', 'pad') for o in opts) or (cls == 'same' and opts != ['pad']):
		raise ValueError(f'unknown signature file state {sig!r}')
	copies = SIG_COPIES[cls]
	if copies or 'latest' in opts:
		with h5py.File(gs, 'r') as a:
			attrs = [(k, a.attrs[k]) for k in a.attrs]
			v, b = a['values'][:], a['bounds'][:]
			ids = [bytes(x) for x in a['ids'][:]]
		n = len(b) - 1
		tmp = gs + '.tmp'
		with h5py.File(tmp, 'w', **(dict(libver='latest') if 'latest' in opts else {})) as f:
			for k, x in attrs:
				f.attrs.create(k, x)
			allids = ids + [b'c18-no-genome/%d/%d' % (c, i) for c in range(copies) for i in range(n)]
			f.create_dataset('ids', data=np.array(allids, dtype=object), dtype=h5py.string_dtype())
			f.create_dataset('values', data=np.tile(v, copies + 1))
			f.create_dataset('bounds', data=np.concatenate([b] + [b[1:] + (c + 1) * b[-1] for c in range(copies)]).astype(b.dtype))
		os.replace(tmp, gs)
	size = os.path.getsize(gs)
	if size <= SIG_MIN_SIZE[cls]:
		raise RuntimeError(f'signature file of class {cls} has only {size} bytes')
	if 'pad' in opts:
		with open(gs, 'ab') as f:
			f.write(b'\0' * (-size % SIG_PAD_BLOCK or SIG_PAD_BLOCK))
	_S.setdefault('sig_sizes', {})[str(sig)] = os.path.getsize(gs)


def _build_state(st, d):
	"""d holds fresh copies of the shipped genome and signature file; leave them the way a user's tools could have:
	every connection of the builder is closed when this returns"""
	g = os.path.join(d, 'ref-genomes.gdb')
	gs = os.path.join(d, 'ref-signatures.gs')
	raw = _apply_schema(st.get('schema') or [], g)
	# (listed now, while the file is in its plain journal mode with no side file: a connection opened on the finished state, even a
	# read-only one, could create a -shm file next to a leftover -wal; the steps below add or remove no schema object)
	objects = _sqlite_objects(g) if st.get('schema') else None
	if not raw:
		_build_sqlite_state(st, g)
	if st['sig'] == 'latest':
		import h5py
		tmp = gs + '.tmp'
		with h5py.File(gs, 'r') as a, h5py.File(tmp, 'w', libver='latest') as b:
			for k in a.attrs:
				b.attrs.create(k, a.attrs[k])
			for name in a:
				a.copy(name, b)
		os.replace(tmp, gs)
	elif st['sig'] != 'orig':
		_build_sig_size(st['sig'], gs)
	if st['ro'] in ('file', 'dir'):
		for n in os.listdir(d):
			os.chmod(os.path.join(d, n), 0o444)
		if st['ro'] == 'dir':
			os.chmod(d, 0o555)
	return objects


def _build_sqlite_state(st, g):
	import sqlite3
	page, av = int(st['page']), int(st['av'])
	if st['enc'] != 'utf8':
		src = sqlite3.connect(g)
		script = '\n'.join(src.iterdump())
		src.close()
		os.remove(g)
		con = sqlite3.connect(g, isolation_level=None)
		con.execute('PRAGMA encoding = "%s"' % ENCODINGS[st['enc']])
		con.executescript(script)
		con.close()
	con = sqlite3.connect(g, isolation_level=None)
	try:
		if page or av or st['vacuum']:
			if page:
				con.execute('PRAGMA page_size = %d' % page)
			con.execute('PRAGMA auto_vacuum = %d' % av)
			con.execute('VACUUM')
		if st['uv']:
			con.execute('PRAGMA user_version = %d' % int(st['uv']))
		if st['appid']:
			con.execute('PRAGMA application_id = %d' % int(st['appid']))
		jm = st['jm']
		got = con.execute('PRAGMA journal_mode = %s' % jm).fetchone()[0]
		if got.lower() != jm:
			raise RuntimeError(f'journal_mode {jm} not obtained: {got}')
		edit = st['edit']
		if st['sidecar'] != 'none' and edit == 'none':
			edit = 'desc'       # leftover frames need an edit made in WAL mode
		if edit == 'desc' and st.get('schema'):
			# (an incomplete / foreign genome file may have no genomes table to edit: the other tool edits a table of its own)
			try:
				if con.execute('SELECT count(*) FROM genomes WHERE id = 1').fetchone()[0] != 1:
					edit = 'free'
			except sqlite3.Error:
				edit = 'free'
		if edit == 'desc':
			con.execute('BEGIN')
			con.execute("UPDATE genomes SET description = 'edited with another tool' WHERE id = 1")
			con.execute('COMMIT')
		elif edit == 'free':
			con.execute('CREATE TABLE c18_scratch (x)')
			con.execute('BEGIN')
			for _ in range(6):
				con.execute('INSERT INTO c18_scratch VALUES (zeroblob(9000))')
			con.execute('COMMIT')
			con.execute('DROP TABLE c18_scratch')
		keep = []
		if jm == 'wal' and st['sidecar'] != 'none':
			# what is left when the files are copied (backup, rsync) while the editing tool still has them open
			con.execute('PRAGMA wal_checkpoint(%s)' % ('TRUNCATE' if st['sidecar'] == 'empty' else 'FULL')).fetchall()
			for suffix in (('-wal',) if st['sidecar'] == 'ckpt-noshm' else ('-wal', '-shm')):
				if os.path.exists(g + suffix):
					shutil.copy(g + suffix, g + suffix + '.keep')
					keep.append(suffix)
	finally:
		con.close()
	for suffix in keep:
		os.replace(g + suffix + '.keep', g + suffix)


def _writable_again(d):
	try:
		os.chmod(d, 0o755)
		for n in os.listdir(d):
			os.chmod(os.path.join(d, n), 0o644)
	except OSError:
		pass


class _InState:
	"""the shared names db / gdb / gs / base of the environment point to a private directory in the given state"""

	def __init__(self, st):
		self.st = _norm_state(st)

	def __enter__(self):
		env = _env()
		env['npriv'] += 1
		d = self.d = os.path.join(env['root'], f'state{env["npriv"]}')
		os.makedirs(d)
		for n in DB_FILES:
			shutil.copy(os.path.join(env['pristine'], n), os.path.join(d, n))
		self.saved = {k: env[k] for k in ('db', 'gdb', 'gs', 'base')}
		try:
			self.objects = _build_state(self.st, d)
		except Exception:
			_writable_again(d)
			shutil.rmtree(d, ignore_errors=True)
			raise
		env['db'], env['gdb'], env['gs'] = d, os.path.join(d, DB_FILES[0]), os.path.join(d, DB_FILES[1])
		env['base'] = _snap(d)
		self.header = _sqlite_header(env['gdb'])
		return self

	def __exit__(self, *exc):
		env = _env()          # (every invocation ends with a gc.collect(): no connection of the case is still open)
		env.update(self.saved)
		_writable_again(self.d)
		shutil.rmtree(self.d, ignore_errors=True)
		return False


def _bytes_changed(base, now):
	"""what the property constrains in every state: content and size of the genome file and of the signature file"""
	out = []
	for n in DB_FILES:
		b, c = base['files'][n], now['files'].get(n)
		if c is None:
			out.append(f'{n}: file is gone')
		elif b[0] != c[0] or b[1] != c[1]:
			out.append(f'{n}: SHA-256 {b[0][:12]} -> {c[0][:12]}, size {b[1]} -> {c[1]}')
	return out


def _state_text(st):
	d = {k: v for k, v in _norm_state(st).items() if v != STATE_DEFAULT[k]}
	return ', '.join(f'{k}={v}' for k, v in sorted(d.items())) or 'as shipped'


def _session_obs_problems(case, obs):
	"""the property predicate on the per-operation observables of _run_session (used where the directory-level
	comparison of the shared copy does not apply)"""
	for i, (o, ob) in enumerate(zip(case['ops'], obs)):
		if ob[4]:
			return 'operation %d (%s): a write statement reached the cursor' % (i, _opname(o))
		if ob[5]:
			return 'after operation %d (%s) the bytes of the genome file changed' % (i, _opname(o))
		if o[0] == 5 and ob[0] != [2]:
			return 'operation %d: commit() did not raise TypeError (got %s)' % (i, ob[0])
	return None


def _store_obs_problems(case, obs):
	for i, (o, ob) in enumerate(zip(case['ops'], obs)):
		if ob[1]:
			return 'after operation %d %s the bytes of the signature file changed' % (i, o)
		if o[0] in (2, 3) and ob[0] == [0]:
			return 'operation %d %s: a write through the signature handle was accepted' % (i, o)
		if ob[2] not in (-1, 0):
			return 'operation %d %s: the signature file is open in a mode other than r' % (i, o)
	return None


def k_walpending(ctx, cases):
	"""A genome file in WAL mode with PENDING (not yet checkpointed) frames in a leftover -wal file -- what a crashed
	writer leaves behind -- used by a read-side command.  Judged like every other state: no byte of the genome file
	may change.  On the unchanged repository this FAILS (known finding C18-wal-pending-frames): gambit opens the file
	read-write, so SQLite transfers the frames into the file when the reading connection closes."""
	import sqlite3
	from click.testing import CliRunner
	from gambit.cli import cli
	env = _env()
	for c in cases:
		ctx.case(c, nontrivial=True)
		ctx.count('stream:wal-pending-frames')
		d = _private()
		try:
			g = os.path.join(d, DB_FILES[0])
			con = sqlite3.connect(g, isolation_level=None)
			try:
				con.execute('PRAGMA journal_mode = wal')
				con.execute("UPDATE genomes SET description = 'pending' WHERE id = 1")
				for suffix in ('-wal', '-shm'):
					shutil.copy(g + suffix, g + suffix + '.keep')
				shutil.copy(g, g + '.keep')
			finally:
				con.close()
			os.replace(g + '.keep', g)
			for suffix in ('-wal', '-shm'):
				os.replace(g + suffix + '.keep', g + suffix)
			before = _sha(g)
			sig_before = _sha(os.path.join(d, DB_FILES[1]))
			if c.get('cmd') == 'info':
				args = ['-d', d, 'signatures', 'info', '-d']
			else:
				args = ['-d', d, 'query', '-o', os.path.join(env['out'], 'pending'), '--no-progress', '-s', env['querysigs']]
			res = CliRunner().invoke(cli, args)
			gc.collect()
			after = _sha(g)
			side = sorted(n for n in os.listdir(d) if n.endswith(('-wal', '-shm')))
			ctx.extra['wal_pending_frames_after_read_side_' + c.get('cmd', 'query')] = (
				('genome file bytes CHANGED' if after != before else 'genome file bytes unchanged') + f' (exit code {res.exit_code}; side files now: {side})')
			if after != before or _sha(os.path.join(d, DB_FILES[1])) != sig_before:
				ctx.violation('walpending', c, f'genome file in WAL mode with pending frames in a leftover -wal file: `gambit {" ".join(a for a in args[2:4])} ...` '
				              f'(exit code {res.exit_code}) changed the bytes of {DB_FILES[0]}: SHA-256 {before[:12]} -> {after[:12]} (side files now: {side})',
				              impl=dict(before=before, after=after))
		except Exception as e:
			ctx.broke('walpending: state could not be built or observed', repr(e)[:200])
		finally:
			rec = env['rec']
			rp = os.path.realpath(d)
			for k in ('stmts', 'classes', 'modes', 'journal'):
				rec[k] = [x for x in rec[k] if not x[0].startswith(rp)]


# ------------------------------------------------------------------------------------------------
# histories of invocations
# ------------------------------------------------------------------------------------------------

CMD_CODE = {'query': 0, 'querysig': 0, 'dist': 1, 'create': 1, 'info-db': 2, 'info-file': 3, 'tree': 4, 'load': 5,
            'libsession': 6, 'libstore': 7}
NOFAIL = 1000


def _fp(inv):
	"""model failure point (number of micro operations executed) for an invocation"""
	f = inv.get('fail')
	if not f:
		return NOFAIL
	if f['kind'] in ('badarg', 'nodb'):
		return 0
	if f['kind'] == 'badout':
		return 0 if inv['cmd'] in ('query', 'querysig') else 1       # click opens -o of `query` while parsing
	if f['kind'] == 'badfile':
		return 10                                                     # data base loaded, then parsing fails
	if f['kind'] == 'kill':
		return 10                                                     # data base loaded and in use, then the process dies
	if f['kind'] == 'sql':
		j = f['at']
		if j <= 1:
			return 2
		if j <= 4:
			return 5 + j
		return 10 + 4 * ((j - 5) // 2) + 2 + ((j - 5) % 2)
	return NOFAIL


def _model_inv(inv):
	code = CMD_CODE[inv['cmd']]
	if code in (0, 1, 5):
		c = [code, inv.get('n', 1)]
	elif code == 6:
		c = [6, 1 if inv.get('how') == 'cli' else inv.get('af', 1), [o for o in inv['ops'] if o[0] < 10]]
	elif code == 7:
		c = [7, _model_sops(inv['ops'])]
	else:
		c = [code]
	return [c, _fp(inv)]


def _edit_and_commit(session, gset):
	"""the client edits the genome set it loaded, in memory, and tries to make that permanent through the session the
	library gave it (the library's default session): flush() must send nothing (judged by the statement recorder and the
	file hashes), commit() must refuse.  -> text of the problem or None"""
	name = gset.name
	try:
		gset.name = (name or '') + ' (edited by the client, in memory)'
		session.flush()
		try:
			session.commit()
		except Exception:
			return None
		return 'commit() on the session obtained from the library (a %s) returned normally with an edit pending' % type(session).__mro__[1].__name__
	finally:
		try:
			session.rollback()
		except Exception:
			pass


KILLED_CLIENT = """
import os, signal, sys
from gambit.db import ReferenceDatabase
db = ReferenceDatabase.load_from_dir(sys.argv[1])
n = int(sys.argv[2])
got = [db.signatures[i] for i in range(min(n, len(db.signatures)))]
for g in db.genomes[:n]:
    _ = g.taxon, g.key
sys.stdout.write('C18-CLIENT-READY\\n')
sys.stdout.flush()
os.kill(os.getpid(), signal.SIGKILL)
"""


def _killed_client(db, n):
	"""run the client above in a process of its own; -> description of how it ended (the harness recorders do not see it)"""
	import signal
	import subprocess
	import sys
	try:
		r = subprocess.run([sys.executable, '-c', KILLED_CLIENT, db, str(int(n))], capture_output=True, text=True, timeout=300)
	except Exception as e:
		return 'client process could not be run: ' + repr(e)[:120]
	if 'C18-CLIENT-READY' in r.stdout and r.returncode == -signal.SIGKILL:
		_S['kills'] = _S.get('kills', 0) + 1
		return 'client process killed while it held the data base open'
	return 'client process ended with %s before it was killed: %s' % (r.returncode, (r.stderr or '').strip()[-160:])


def _run_invocation(inv, idx, strict=True):
	"""-> dict(status=..., detail=...) ; everything else is read from the recorders.  strict=False (data base in a
	generated persistent state): library sessions / handles are judged on their per-operation observables (bytes, write
	statements, commit, handle mode), not on directory listing and mtime"""
	from click.testing import CliRunner
	from gambit.cli import cli
	env = _env()
	db, gs, gdb = env['db'], env['gs'], env['gdb']
	out = os.path.join(env['out'], f'o{idx}')
	f = inv.get('fail') or {}
	qs = [env['queries'][i % len(env['queries'])] for i in inv.get('q', [0])][:max(1, inv.get('n', 1))]
	if f.get('kind') == 'badfile':
		qs = qs + [env['badquery']]
	if f.get('kind') == 'badarg':
		qs = qs + [os.path.join(env['root'], 'does-not-exist.fasta')]
	if f.get('kind') == 'badout':
		out = os.path.join(env['root'], 'no-such-dir', 'x')
	dbarg = ['-d', db]
	if f.get('kind') == 'nodb':
		dbarg = []
	cmd = inv['cmd']
	rec = env['rec']
	rec['nsql'] = 0
	rec['fail_at'] = f['at'] if f.get('kind') == 'sql' else None
	status = 'ok'
	detail = ''
	eff = 0
	try:
		if cmd in ('query', 'querysig', 'dist', 'create', 'info-db', 'info-file', 'tree'):
			if cmd == 'query':
				args = dbarg + ['query', '-o', out, '--no-progress', '-f', inv.get('fmt', 'csv')] + qs
			elif cmd == 'querysig':
				args = dbarg + ['query', '-o', out, '--no-progress', '-s', env['querysigs']]
			elif cmd == 'dist':
				args = dbarg + ['dist', '--use-db', '-o', out, '--no-progress'] + sum((['-q', q] for q in qs), [])
			elif cmd == 'create':
				args = dbarg + ['signatures', 'create', '--db-params', '-o', out, '--no-progress'] + qs
			elif cmd == 'info-db':
				args = dbarg + ['signatures', 'info', '-d'] + list(inv.get('flags', []))
			elif cmd == 'info-file':
				args = ['signatures', 'info'] + list(inv.get('flags', [])) + [gs if f.get('kind') != 'badarg' else gs + '.missing']
			else:
				args = ['tree', '--no-progress', '-s', gs if f.get('kind') != 'badarg' else gs + '.missing']
			res = CliRunner().invoke(cli, args)
			if res.exit_code != 0:
				status = 'failed'
				detail = (repr(res.exception) + ' ' + (res.output or '')[-120:]).strip()
		elif cmd == 'load' and f.get('kind') == 'kill':
			# the client is ANOTHER PROCESS, which loads the data base, has read n signatures and genomes and still holds everything
			# open when it is killed (SIGKILL: no handler, no cleanup of gambit / h5py / libhdf5 / SQLite runs) -- a command that
			# fails in the hardest way; what it leaves in the two files is compared by the caller like after every invocation
			status, detail = 'failed', _killed_client(db, inv.get('n', 1))
		elif cmd == 'load' and inv.get('via') == 'gset':
			# the genome file alone, through the library's load_genomeset(): the default session and the genome set
			from gambit.db import load_genomeset
			n = inv.get('n', 1)
			session, gset = load_genomeset(gdb)
			try:
				_ = gset.key, gset.version, gset.name
				_ = gset.genomes.count()
				for g in gset.genomes.limit(n):
					_ = g.taxon, g.key
				if inv.get('commit'):
					pr = _edit_and_commit(session, gset)
					if pr:
						status, detail = 'problem', pr
			finally:
				session.close()
				del session, gset
		elif cmd == 'load':
			from gambit.db import ReferenceDatabase
			from gambit.query import query, QueryParams
			via = inv.get('via', 'dir')
			if via == 'dir':
				rdb = ReferenceDatabase.load_from_dir(db)
			elif via == 'files':
				rdb = ReferenceDatabase.load(gdb, gs)
			elif via == 'located':
				rdb = ReferenceDatabase.load(*ReferenceDatabase.locate_files(db))
			elif via == 'cli':
				from gambit.cli.common import CLIContext
				rdb = CLIContext(cli.make_context('gambit', ['-d', db, 'query'])).get_database()
			else:
				raise ValueError(via)
			n = inv.get('n', 1)
			for i in range(min(n, len(rdb.signatures))):
				_ = rdb.signatures[i]
			for g in rdb.genomes[:n]:
				_ = g.taxon, g.key
			held = []
			try:
				if inv.get('libquery'):
					qsl = inv.get('qslice')
					if qsl:
						# query signatures = a contiguous block of the reference signatures, post-processed in place afterwards
						a = int(qsl[0]) % len(rdb.signatures)
						sub = rdb.signatures[a:min(len(rdb.signatures), a + 1 + int(qsl[1]) % 3)]
					else:
						sub = rdb.signatures[[0, 1]]
					_ = query(rdb, sub, QueryParams())
					if qsl:
						held.append(sub.values)
						eff += _mutate_all([sub.values], qsl[2] if len(qsl) > 2 else 0)
					del sub, _
				# the caller inspects reference signatures and post-processes ITS arrays in place: [sel, mut, i, w]
				for st in inv.get('mut', []):
					st = list(st) + [0] * (4 - len(st))
					got = _take(rdb.signatures, st[0], st[2], st[3])
					held.extend(got)
					eff += _mutate_all(got, st[1])
					del got
				if inv.get('commit'):
					pr = _edit_and_commit(rdb.session, rdb.genomeset)
					if pr:
						status, detail = 'problem', pr
				if inv.get('close'):
					rdb.signatures.close()
					rdb.session.close()
					if inv.get('mut_after_close') is not None:
						eff += _mutate_all(held, inv['mut_after_close'])
			finally:
				del held[:]
				del rdb
		elif cmd == 'libsession':
			how = inv.get('how', 'default')
			if how not in PROPERTY_HOW:
				raise ValueError(how)
			case = dict(how=how, af=1 if how == 'cli' else inv.get('af', 1), ops=inv['ops'])
			obs, problems = _run_session(case, gdb, strict)
			if not strict:
				pr = _session_obs_problems(case, obs)
				problems = [(0, pr)] if pr else []
			if problems:
				status = 'problem'
				detail = problems[0][1]
		elif cmd == 'libstore':
			case = dict(ops=[[0, -1]] + inv['ops'])
			if not strict and not _store_shared(case):
				raise ValueError('only read-mode opens belong to the property')
			obs, problems, eff = _run_store(case, gs, strict)
			if not strict:
				pr = _store_obs_problems(case, obs)
				problems = [pr] if pr else []
			if problems:
				status = 'problem'
				detail = problems[0]
	except InjectedFailure as e:
		status = 'failed'
		detail = str(e)
	except Exception as e:
		status = 'failed'
		detail = repr(e)[:200]
	finally:
		rec['fail_at'] = None
	gc.collect()
	return dict(status=status, detail=detail, eff=eff)


def k_history(ctx, cases):
	env = _env()
	table = [[k, 0] for k in TRACKED]
	reqs = [(1803, [table, 0, [], [1, 2], [_model_inv(i) for i in c['invs']]]) for c in cases]
	models = ctx.model(reqs) if ctx.model_ok else [None] * len(cases)
	mflags_ok = _model_flags(ctx, 'default') if ctx.model_ok else [1, 1]
	for c, m in zip(cases, models):
		if c.get('state') is not None:
			_history_in_state(ctx, c, m, mflags_ok)
		else:
			_history_case(ctx, c, m, mflags_ok, None)


def _history_in_state(ctx, c, m, mflags_ok):
	"""the history runs against a private data base directory whose files are in the persistent state c['state']"""
	t0 = time.time()
	try:
		holder = _InState(c['state'])
		holder.__enter__()
	except Exception as e:
		# a state the local SQLite / h5py cannot produce is not an input
		ctx.count('history:dbstate-not-buildable')
		ctx.case(c, nontrivial=False)
		ctx.extra.setdefault('dbstate_not_buildable', []).append(f'{_state_text(c["state"])}: {e!r}'[:200])
		return
	try:
		_history_case(ctx, c, m, mflags_ok, holder)
	finally:
		holder.__exit__(None, None, None)
		ctx.extra['dbstate_wall_s'] = round(ctx.extra.get('dbstate_wall_s', 0) + time.time() - t0, 2)


def _history_case(ctx, c, m, mflags_ok, holder):
	env = _env()
	strict = holder is None
	rec = env['rec']
	completed = failed = edits = opened = 0
	bad = None
	steps = []
	unjudged = False
	schema = bool(holder is not None and holder.st.get('schema'))
	for idx, inv in enumerate(c['invs']):
		n_st, n_cl, n_md, n_j = len(rec['stmts']), len(rec['classes']), len(rec['modes']), len(rec['journal'])
		r = _run_invocation(inv, idx, strict)
		now = _snap(env['db'])
		if strict:
			df = _diff(env['base'], now)
		else:
			# generated persistent state: the property constrains the BYTES of the two files; listing / mtime only counted
			df = _bytes_changed(env['base'], now)
			if not df and not unjudged and _diff(env['base'], now):
				unjudged = True
				ctx.count('history:dbstate-side-file-or-mtime-change-not-judged')
			if df:
				if holder.objects is not None:
					was, is_ = holder.objects, _sqlite_objects(env['gdb'])
					if isinstance(was, list) and isinstance(is_, list):
						df.append(f'schema objects that APPEARED in the genome file: {[x for x in is_ if x not in was]}, that are gone: {[x for x in was if x not in is_]}')
					else:
						df.append(f'schema objects of the genome file: {was} -> {is_}')
				df.append(f'SQLite header of the genome file {holder.header} -> {_sqlite_header(env["gdb"])}')
		rp_gdb, rp_gs = os.path.realpath(env['gdb']), os.path.realpath(env['gs'])
		stm = sorted({x[1] for x in rec['stmts'][n_st:] if x[0] == rp_gdb})
		classes = [x[1] for x in rec['classes'][n_cl:] if x[0] == rp_gdb]
		modes = [x for x in rec['modes'][n_md:] if x[0] == rp_gs]
		journal = [x for x in rec['journal'][n_j:] if x[0] == rp_gdb]
		flags = [list(_class_flags(k)) for k in classes]
		env.setdefault('seen_modes', []).extend(modes)
		env.setdefault('seen_classes', set()).update(k.__name__ for k in classes)
		steps.append(dict(status=r['status'], sessions=len(classes), opens=len(modes)))
		name = f'invocation {idx} ({inv["cmd"]}{", fail=" + str(inv["fail"]) if inv.get("fail") else ""})'
		if r['status'] == 'problem':
			bad = f'{name}: {r["detail"]}'
		elif df:
			bad = f'{name} changed the {"data base directory" if strict else "bytes of the data base files"}: ' + _with_damage(df, env['gs'])
			if inv.get('mut') or inv.get('qslice'):
				steps_txt = [f'{SEL_NAMES[int(x[0]) % NSEL]} then {MUT_NAMES[int(x[1]) % NMUT]}' for x in inv.get('mut', []) if len(x) > 1]
				bad += f' [in-place post-processing of arrays obtained from db.signatures: {steps_txt}' + \
				       (f'; query signatures db.signatures[a:b], .values then {MUT_NAMES[int(inv["qslice"][2]) % NMUT]}'
				        if inv.get('qslice') and len(inv['qslice']) > 2 else '') + ']'
		elif stm:
			bad = f'{name}: write statement(s) {stm} reached the cursor of the genome file'
		elif journal and strict:
			bad = f'{name}: journal file(s) {journal[0][1]} appeared next to the genome file'
		elif any(fl != [1, 1] for fl in flags):
			k = next(k for k, fl in zip(classes, flags) if fl != [1, 1])
			fl = _class_flags(k)
			bad = (f'{name}: the session is a {k.__name__} whose flush is {"a no-op" if fl[0] else "REAL"} and whose commit '
			       f'{"raises" if fl[1] else "is ALLOWED"} (not a read-only session)')
		elif any(x[1] != 'r' for x in modes):
			x = next(x for x in modes if x[1] != 'r')
			bad = (f'{name}: signature file opened in mode {x[1]!r}; SHA-256 while open {str(x[2])[:12]} vs '
			       f'{env["base"]["files"]["ref-signatures.gs"][0][:12]} before')
		if bad:
			break
		if r['status'] == 'ok' and inv['cmd'] not in ('libsession', 'libstore'):
			completed += 1
		if r['status'] == 'failed':
			failed += 1
		if classes:
			opened += 1     # a session on the genome file began a transaction (whatever became of the call)
		if inv['cmd'] in ('libsession', 'libstore'):
			edits += 1
		elif r.get('eff'):
			edits += 1      # arrays obtained from db.signatures were effectively modified in place
		if r.get('eff'):
			ctx.count('history:effective-in-place-modifications', r['eff'])
		if (inv.get('fail') or {}).get('kind') == 'kill':
			ctx.count('history:client-process-killed-holding-the-data-base' if r['detail'].startswith('client process killed')
			          else 'history:client-process-ended-before-the-kill')
		# a failing invocation was announced but the command succeeded (or vice versa): the generator's
		# idea of what fails is not part of the property -- only counted
		if bool(inv.get('fail')) != (r['status'] == 'failed'):
			ctx.count('history:fail-expectation-differs')
	ctx.count('history:invocations', len(steps))
	if strict:
		ctx.case(c, nontrivial=(len(c['invs']) >= 2 and completed >= 1 and (failed + edits) >= 1))
	elif schema:
		ctx.count('history:dbschema-invocations', len(steps))
		ctx.count('history:dbschema-invocations-that-failed', failed)
		ctx.case(c, nontrivial=(opened >= 1))
	else:
		ctx.count('history:dbstate-invocations', len(steps))
		ctx.case(c, nontrivial=(completed >= 1 and holder.st != STATE_DEFAULT))
	if bad:
		if strict:
			ctx.violation('history', c, bad, impl=steps, model=m)
			_restore()
		else:
			ctx.violation('history', c, f'data base in state [{_state_text(c["state"])}]: {bad}', impl=steps, model=m,
			              state=dict(holder.st), sqlite_header_of_state=holder.header,
			              **(dict(schema_objects_of_state=holder.objects) if holder.objects is not None else {}))
		return
	if m is None or m == [2]:
		if m == [2]:
			ctx.broke('correspondence history', f'model rejected the request for {c}')
		return
	hist_ok, per = m
	if not hist_ok:
		ctx.broke('correspondence history', f'the generated history is outside the theorem (history_ok = false): {c}')
		return
	for idx, (inv, st, mi) in enumerate(zip(c['invs'], steps, per)):
		nops, gch, sch, nch, jr, nst, mcl, mmd, nout, ever = mi
		if gch or sch or nch or jr or nst or ever or any(x != mflags_ok for x in mcl) or any(x != 0 for x in mmd):
			ctx.broke('correspondence history', f'the MODEL predicts a modification for invocation {idx} of {c}: {mi}')
		# completed CLI / load invocations: same number of sessions and signature-file opens as the model's command
		# (the model's command summary is that of a COMPLETE data base loaded as a whole: not compared for load_genomeset()
		# alone, nor for an incomplete / foreign genome file, where a command may stop or go on at another point)
		if schema or inv.get('via') == 'gset':
			continue
		if st['status'] == 'ok' and not inv.get('fail') and inv['cmd'] in ('query', 'querysig', 'dist', 'create', 'info-db', 'info-file', 'tree', 'load'):
			if st['sessions'] != len(mcl) or st['opens'] != len(mmd):
				ctx.broke('correspondence history (sessions / handles opened by a command)',
				          f'invocation {idx} {inv}: implementation opened {st["sessions"]} session(s), {st["opens"]} handle(s); '
				          f'model {len(mcl)} / {len(mmd)}')


# ------------------------------------------------------------------------------------------------
# sequences of calls over a pool of shared, long-lived objects (kind `sequence`; docstring: "state and aliasing")
# ------------------------------------------------------------------------------------------------

SEQ_PARAMS = [dict(), dict(chunksize=7, report_closest=3), dict(chunksize=None, classify_strict=True, report_closest=1),
              dict(chunksize=16, report_closest=10)]
SEQ_PARAM_DEFAULTS = dict(classify_strict=False, chunksize=1000, report_closest=10)
SEQ_VIAS = ('dir', 'files', 'cli', 'cli2', 'fresh')
SEQ_BAD_FILES = ('trunc', 'nothdf', 'missing', 'empty')
SEQ_BAD_DIRS = ('truncgdb', 'truncgs', 'nofiles', 'twogdb', 'zerogdb', 'notaxa', 'notables')


class _SeqProblem(Exception):
	"""the property predicate (or one of the two sequence checks) is false after a step"""


def _sha_obj(x):
	return hashlib.sha1(repr(x).encode()).hexdigest()[:16]


def _build_variant(env, d, values, bounds, ids, attrs):
	"""data base B: ANOTHER reference data base (other size, other order, other content), made by the harness with the
	sqlite3 / h5py modules from the shipped one: 170-odd signatures in REVERSED order, the genomes of the dropped
	signatures and every 7th other genome removed (so B also has signatures without a genome), genome set renamed"""
	import sqlite3
	import numpy as np
	import h5py
	n = len(bounds) - 1
	keep = [i for i in reversed(range(n)) if not (i >= 10 and i % 5 == 4)]
	g, gs = os.path.join(d, DB_FILES[0]), os.path.join(d, DB_FILES[1])
	shutil.copy(os.path.join(env['pristine'], DB_FILES[0]), g)
	with h5py.File(gs, 'w') as f:
		for k, v in attrs.items():
			f.attrs.create(k, v)
		f.attrs['name'] = 'testdb_variant_B'
		f.create_dataset('ids', data=np.array([ids[i] for i in keep], dtype=object), dtype=h5py.string_dtype())
		f.create_dataset('values', data=np.concatenate([values[bounds[i]:bounds[i + 1]] for i in keep]))
		nb = np.zeros(len(keep) + 1, dtype=bounds.dtype)
		nb[1:] = np.cumsum([bounds[i + 1] - bounds[i] for i in keep])
		f.create_dataset('bounds', data=nb)
	kept_keys = {ids[i].decode() for i in keep}
	con = sqlite3.connect(g)
	try:
		rows = con.execute('SELECT id, key FROM genomes').fetchall()
		drop = [i for i, k in rows if k not in kept_keys or (i > 10 and i % 7 == 0)]
		con.executemany('DELETE FROM genome_annotations WHERE genome_id = ?', [(i,) for i in drop])
		con.executemany('DELETE FROM genomes WHERE id = ?', [(i,) for i in drop])
		con.execute("UPDATE genome_sets SET name = 'variant B'")
		con.commit()
	finally:
		con.close()
	return dict(nsig=len(keep), ngenomes=len(rows) - len(drop))


def _genome_table(gdb):
	"""what the harness knows about the genomes of a data base (read with sqlite3, not through gambit)"""
	import sqlite3
	con = sqlite3.connect(gdb)
	try:
		return {int(r[0]): [r[1], r[2], r[3], r[4]] for r in con.execute(
			'SELECT g.id, g.key, g.description, a.taxon_id, a.organism FROM genomes g JOIN genome_annotations a ON a.genome_id = g.id')}
	finally:
		con.close()


def _seq_env():
	env = _env()
	if 'seq' in env:
		return env['seq']
	import h5py
	sq = {}
	with h5py.File(os.path.join(env['pristine'], DB_FILES[1]), 'r') as f:
		v, b = f['values'][:], f['bounds'][:]
		ids = [bytes(x) for x in f['ids'][:]]
		attrs = {k: f.attrs[k] for k in f.attrs}
	sq['rows'] = [v[b[i]:b[i + 1]].copy() for i in range(len(b) - 1)]
	with h5py.File(env['querysigs'], 'r') as f:
		qv, qb = f['values'][:], f['bounds'][:]
	sq['qrows'] = [qv[qb[i]:qb[i + 1]].copy() for i in range(len(qb) - 1)]
	root = env['root']
	pb = os.path.join(root, 'pristineB')
	os.makedirs(pb)
	sq['variant'] = _build_variant(env, pb, v, b, ids, attrs)
	sq['pristineB'] = pb
	sq['dbB'] = os.path.join(root, 'dbB')
	sq['table'] = dict(A=_genome_table(os.path.join(env['pristine'], DB_FILES[0])), B=_genome_table(os.path.join(pb, DB_FILES[0])))
	sq['table']['W'] = sq['table']['A']
	# the query signature file in a directory of its own (the snapshot of a directory hashes every file in it)
	qd = os.path.join(root, 'qsigs')
	os.makedirs(qd)
	shutil.copy(env['querysigs'], os.path.join(qd, 'query-signatures.gs'))
	sq['Q'] = dict(d=qd, gdb=None, gs=os.path.join(qd, 'query-signatures.gs'), base=_snap(qd))
	# malformed files and directories
	bad = os.path.join(root, 'seqbad')
	os.makedirs(bad)
	raw_gs = open(os.path.join(env['pristine'], DB_FILES[1]), 'rb').read()
	raw_gdb = open(os.path.join(env['pristine'], DB_FILES[0]), 'rb').read()
	files = dict(trunc=raw_gs[:3000], nothdf=b'# not an HDF5 file\n' * 40, empty=b'')
	sq['badfile'] = {}
	for k, data in files.items():
		p = os.path.join(bad, k + '.gs')
		with open(p, 'wb') as f:
			f.write(data)
		sq['badfile'][k] = p
	sq['badfile']['missing'] = os.path.join(bad, 'missing.gs')
	sq['baddir'] = {}
	sq['badbytes'] = {}
	for k in SEQ_BAD_DIRS:
		sq['baddir'][k] = os.path.join(bad, k)
		_make_baddir(sq, k)
	sq['ref'] = {}
	env['seq'] = sq
	_restore_B()
	return sq


def _make_baddir(sq, k):
	"""(re)create the malformed / incomplete data base directory k and note the bytes of its files"""
	env = _env()
	dd = sq['baddir'][k]
	if os.path.exists(dd):
		shutil.rmtree(dd)
	os.makedirs(dd)
	raw_gs = open(os.path.join(env['pristine'], DB_FILES[1]), 'rb').read()
	raw_gdb = open(os.path.join(env['pristine'], DB_FILES[0]), 'rb').read()
	content = dict(truncgdb={DB_FILES[0]: raw_gdb[:5000], DB_FILES[1]: raw_gs}, truncgs={DB_FILES[0]: raw_gdb, DB_FILES[1]: raw_gs[:3000]},
	               nofiles={}, twogdb={'a.gdb': raw_gdb, 'b.gdb': raw_gdb, DB_FILES[1]: raw_gs},
	               zerogdb={DB_FILES[0]: b'', DB_FILES[1]: raw_gs})
	for n, data in content.get(k, {DB_FILES[0]: raw_gdb, DB_FILES[1]: raw_gs}).items():
		with open(os.path.join(dd, n), 'wb') as f:
			f.write(data)
	if k == 'notaxa':
		_apply_schema(['drop:taxa'], os.path.join(dd, DB_FILES[0]))
	elif k == 'notables':
		_apply_schema(['file:notables'], os.path.join(dd, DB_FILES[0]))
	sq['badbytes'][k] = _file_bytes(dd)


def _file_bytes(d):
	"""name -> (SHA-256, size) of the genome / signature files in a directory (side files are not the property's business)"""
	return {n: (_sha(os.path.join(d, n)), os.path.getsize(os.path.join(d, n))) for n in sorted(os.listdir(d))
	        if n.endswith(('.gdb', '.db', '.gs', '.h5'))}


def _restore_B():
	gc.collect()
	sq = _S['seq']
	d = sq['dbB']
	if os.path.exists(d):
		shutil.rmtree(d)
	shutil.copytree(sq['pristineB'], d)
	sq['B'] = dict(d=d, gdb=os.path.join(d, DB_FILES[0]), gs=os.path.join(d, DB_FILES[1]), base=_snap(d))


class _Names:
	"""the names db / gdb / gs / base of the environment (read by _run_invocation and by the statement recorder's failure
	injection) point to the directory of a pool data base while a step runs"""

	def __init__(self, dd):
		self.dd = dd

	def __enter__(self):
		env = _env()
		self.saved = {k: env[k] for k in ('db', 'gdb', 'gs', 'base')}
		env['db'], env['gdb'], env['gs'], env['base'] = self.dd['d'], self.dd['gdb'], self.dd['gs'], self.dd['base']

	def __exit__(self, *exc):
		_env().update(self.saved)
		return False


class _Pool:
	"""the long-lived objects of one sequence case, created on first use and kept until the end of the case"""

	def __init__(self):
		self.env = _env()
		self.sq = _seq_env()
		self.dirs = {}
		self.makers = {}       # (db, how, af) -> dict(kind, obj, make, engine, fp)
		self.sessions = {}     # (db, how, af, slot) -> dict(s, eng, added, base, ops, obs, tainted)
		self.clictx = {}       # db -> CLIContext
		self.rdbs = {}         # (db, via) -> dict(rdb, fp)
		self.handles = {}      # (file, slot) -> dict(sigs, is_open, held, base, ops, obs)
		self.params = {}       # index -> QueryParams
		self.arrays = {}       # literal -> (caller object, list of byte strings)
		self.held = []         # contrast objects kept open on W
		self.uses = {}         # pool object -> number of steps that used it
		self.dbs_used = set()

	def use(self, key):
		self.uses[key] = self.uses.get(key, 0) + 1

	def dir(self, name):
		if name in self.dirs:
			return self.dirs[name]
		env = self.env
		if name == 'A':
			dd = dict(d=env['db'], gdb=env['gdb'], gs=env['gs'], base=env['base'])
		elif name == 'B':
			dd = self.sq['B']
		elif name == 'Q':
			dd = self.sq['Q']
		elif name == 'W':
			d = _private()
			os.remove(os.path.join(d, 'Readme.md'))
			dd = dict(d=d, gdb=os.path.join(d, DB_FILES[0]), gs=os.path.join(d, DB_FILES[1]), base=_snap(d), private=True)
		else:
			raise ValueError(name)
		dd['name'] = name
		self.dirs[name] = dd
		return dd

	# ---- session makers and sessions ---------------------------------------------------------------------------
	def maker(self, db, how, af):
		key = (db, how, af)
		if key in self.makers:
			return self.makers[key]
		from gambit.db.sqla import file_sessionmaker, ReadOnlySession
		gdb = self.dir(db)['gdb']
		if how == 'cli':
			obj = self.cli(db)
			mk = dict(kind='cli', obj=obj, make=lambda: obj.Session(), engine=lambda: obj.engine)
		elif how == 'explicit':
			m = file_sessionmaker(gdb, cls=ReadOnlySession, autoflush=bool(af))
			mk = dict(kind='mk', obj=m, make=m, engine=lambda: m.kw['bind'])
		elif how == 'default':
			# (autoflush on is the default: the call the library itself makes, file_sessionmaker(path), without options)
			m = file_sessionmaker(gdb) if af else file_sessionmaker(gdb, autoflush=False)
			mk = dict(kind='mk', obj=m, make=m, engine=lambda: m.kw['bind'])
		else:
			raise ValueError(how)
		mk['fp'] = _maker_fp(mk)
		self.makers[key] = mk
		return mk

	def cli(self, db):
		if db not in self.clictx:
			from gambit.cli import cli
			from gambit.cli.common import CLIContext
			c = cli.make_context('gambit', ['-d', self.dir(db)['d'], 'query'])
			self.clictx[db] = CLIContext(c)
		return self.clictx[db]

	def session(self, db, how, af, slot):
		key = (db, how, af, slot)
		if key not in self.sessions:
			try:
				mk = self.maker(db, how, af)
				self.sessions[key] = dict(s=mk['make'](), eng=None, added=[], ops=[], obs=[], tainted=False)
			except Exception as e:
				raise _SeqProblem(f'a {how} session on data base {db} could not be obtained at this point of the sequence: {type(e).__name__}: {str(e)[:200]}')
		return self.sessions[key]

	# ---- reference data base objects -----------------------------------------------------------------------------
	def rdb(self, db, via):
		key = (db, via)
		if key in self.rdbs:
			return self.rdbs[key]
		from gambit.db import ReferenceDatabase
		dd = self.dir(db)
		if via not in ('dir', 'files', 'cli', 'cli2'):
			raise ValueError(via)
		try:
			if via == 'dir':
				r = ReferenceDatabase.load_from_dir(dd['d'])
			elif via == 'files':
				r = ReferenceDatabase.load(dd['gdb'], dd['gs'])
			else:
				r = self.cli(db).get_database()       # cli2: a second data base object from the SAME CLI context (same signature handle)
		except Exception as e:
			raise _SeqProblem(f'data base {db} (a well-formed data base that loads in a fresh process) could not be loaded via {via} at this point '
			                  f'of the sequence: {type(e).__name__}: {str(e)[:200]}')
		try:
			fp = _rdb_fp(r, self.sq['table'][db])
		except Exception as e:
			_close_rdb(r)
			raise _SeqProblem(f'the ReferenceDatabase object of data base {db} just obtained via {via} cannot be inspected (genomes, their fields, '
			                  f'signature metadata): {type(e).__name__}: {str(e)[:200]}')
		if fp['fields_differ'] or fp['pending'] != [0, 0, 0]:
			_close_rdb(r)
			raise _SeqProblem(f'the ReferenceDatabase object of data base {db} just obtained via {via} does not show the content of the genome file '
			                  f'(genome id, [key, description, taxon, organism] as loaded): {fp["fields_differ"][:3]}, pending changes {fp["pending"]}')
		self.rdbs[key] = dict(rdb=r, fp=fp)
		return self.rdbs[key]

	def drop_rdb(self, db, via):
		ent = self.rdbs.pop((db, via), None)
		if ent is not None:
			_close_rdb(ent['rdb'])
		if via in ('cli', 'cli2'):
			# the CLI context caches its signature handle: a context whose handle was closed is not reused, nor is the
			# other data base object made from it
			other = self.rdbs.pop((db, 'cli2' if via == 'cli' else 'cli'), None)
			if other is not None:
				_close_rdb(other['rdb'])
			self.clictx.pop(db, None)
			for k in [k for k in self.makers if k[0] == db and k[1] == 'cli']:
				del self.makers[k]

	# ---- caller-supplied arguments ---------------------------------------------------------------------------------
	def param(self, i):
		i = int(i) % len(SEQ_PARAMS)
		if i not in self.params:
			from gambit.query import QueryParams
			self.params[i] = QueryParams(**SEQ_PARAMS[i])
		return i, self.params[i]

	def queries(self, q):
		"""the caller's query signatures for the literal q: the SAME object every time the literal is used"""
		key = json.dumps(q)
		if key in self.arrays:
			return self.arrays[key]
		rows = self.sq['rows'] if q[0] in ('ref', 'sa') else self.sq['qrows']
		arrs = [rows[int(i) % len(rows)].copy() for i in q[1]]
		if q[0] == 'sa':
			from gambit.sigs import SignatureArray
			from gambit.kmers import KmerSpec
			obj = SignatureArray(arrs, KmerSpec(6, 'AT'))
			watch = [obj.values, obj.bounds]
		else:
			obj = arrs
			watch = arrs
		self.arrays[key] = (obj, watch, [a.tobytes() for a in watch])
		return self.arrays[key]

	def close(self):
		for ent in self.sessions.values():
			try:
				ent['s'].close()
			except Exception:
				pass
		for h in self.held:
			try:
				h()
			except Exception:
				pass
		for mk in self.makers.values():
			try:
				e = mk['engine']()
				if e is not None:
					e.dispose()
			except Exception:
				pass
		for ent in self.rdbs.values():
			_close_rdb(ent['rdb'])
		for ent in self.handles.values():
			try:
				if ent['sigs'] is not None and ent['is_open']:
					ent['sigs'].group.file.close()
			except Exception:
				pass
			del ent['held'][:]
		for c in self.clictx.values():
			try:
				if c._signatures is not None:
					c._signatures.close()
				if c._engine is not None:
					c._engine.dispose()
			except Exception:
				pass
		self.sessions.clear(), self.makers.clear(), self.rdbs.clear(), self.handles.clear(), self.clictx.clear()
		self.arrays.clear(), self.params.clear()
		del self.held[:]
		gc.collect()      # (cheap: the import-time objects are in the permanent generation, see _warm_up)
		w = self.dirs.get('W')
		if w is not None:
			shutil.rmtree(w['d'], ignore_errors=True)


def _close_rdb(rdb):
	for f in (lambda: rdb.signatures.close(), lambda: rdb.session.close(), lambda: rdb.session.bind.dispose()):
		try:
			f()
		except Exception:
			pass


def _maker_fp(mk):
	"""observable configuration of a session maker / CLI context (must not change while it is used)"""
	if mk['kind'] == 'cli':
		o = mk['obj']
		m = o.Session
		return dict(db_path=str(o.db_path), url=str(o.engine.url), cls=[c.__name__ for c in m.class_.__mro__[:3]],
		            ids=[id(o._engine), id(o._Session)], kw=sorted((k, repr(v)) for k, v in m.kw.items() if k != 'bind'))
	m = mk['obj']
	return dict(url=str(m.kw['bind'].url), cls=[c.__name__ for c in m.class_.__mro__[:3]], ids=[id(m.kw['bind'])],
	            kw=sorted((k, repr(v)) for k, v in m.kw.items() if k != 'bind'))


def _rdb_fp(rdb, table):
	"""observable state of a ReferenceDatabase a caller holds; the genome fields are compared with what the harness read
	from the genome file with sqlite3"""
	import attr
	from sqlalchemy import inspect as sa_inspect
	s, sig = rdb.session, rdb.signatures
	n = len(rdb.genomes)
	sample = sorted({0, 1, 2, n // 3, n // 2, n - 2, n - 1} & set(range(n)))
	fields_bad = []
	for i in sample:
		g = rdb.genomes[i]
		got = [g.genome.key, g.genome.description, g.taxon_id, g.organism]
		if table.get(int(g.genome_id)) != got:
			fields_bad.append([int(g.genome_id), got])
	is_open = bool(sig)
	return dict(attrs=[k for k in ('genomeset', 'genomes', 'signatures', 'sig_indices', 'session') if k in vars(rdb)],
	            n=n, genomes=_sha_obj([sa_inspect(g).identity for g in rdb.genomes]), objects=_sha_obj([id(g) for g in rdb.genomes]),
	            sig_indices=_sha_obj([int(i) for i in rdb.sig_indices]),
	            ident=[id(s), id(sig), id(rdb.genomeset), id(rdb.genomes), id(rdb.sig_indices), id(s.bind)],
	            pending=[len(s.new), len(s.dirty), len(s.deleted)], session_class=type(s).__mro__[1].__name__ if len(type(s).__mro__) > 1 else '',
	            open=is_open, nsig=len(sig) if is_open else -1, ids=_sha_obj(list(sig.ids)), meta=repr(attr.asdict(sig.meta)),
	            kspec=[int(sig.kmerspec.k), sig.kmerspec.prefix_str], fields_differ=fields_bad,
	            gset=[rdb.genomeset.id, rdb.genomeset.key, rdb.genomeset.version, rdb.genomeset.name])


def _results_digest(res):
	import numpy as np
	tx = lambda t: None if t is None else int(t.id)
	gm = lambda m: None if m is None else [int(m.genome.genome_id), int(np.float32(m.distance).view(np.uint32)), tx(m.matched_taxon)]
	items = []
	for it in res.items:
		cr = it.classifier_result
		items.append([it.input.label, int(bool(cr.success)), tx(cr.predicted_taxon), gm(cr.primary_match), gm(cr.closest_match),
		              tx(cr.next_taxon), list(cr.warnings), cr.error, tx(it.report_taxon), [gm(m) for m in it.closest_genomes]])
	return _sha_obj([items, res.genomeset.key, res.genomeset.name, res.signaturesmeta.name])


def _in_thread(fn):
	"""(SQLite refuses to close a connection from another thread than the one that opened it: garbage holding connections
	is collected by the thread that made it -- before the other thread starts, and before it ends)"""
	import threading
	box = {}

	def run():
		try:
			box['r'] = fn()
		except BaseException as e:
			box['e'] = e
		gc.collect()

	gc.collect()
	t = threading.Thread(target=run)
	t.start()
	t.join()
	if 'e' in box:
		raise box['e']
	return box.get('r')


def _bad_queries(pool, how, at):
	"""caller-supplied query signatures that make the call fail part-way"""
	import numpy as np
	rows = pool.sq['rows']
	good = [rows[(7 * i + 3) % len(rows)].copy() for i in range(4)]
	at = int(at) % 4
	if how == 'iter':
		def gen():
			for i, a in enumerate(good):
				if i == at:
					raise RuntimeError('the iterator supplied by the caller failed')
				yield a
		return gen(), {}
	if how == 'dtype':
		bad = list(good)
		bad[at] = rows[5].astype(np.float64) + 0.5
		return bad, {}
	if how == 'object':
		bad = list(good)
		bad[at] = 'not a signature'
		return bad, {}
	if how == 'ndim':
		bad = list(good)
		bad[at] = np.zeros((2, 3), dtype=np.uint16)
		return bad, {}
	if how == 'empty':
		return [], {}
	if how == 'inputs':
		return good, dict(inputs=['x', 'y'])
	return good, {}


def _seq_query_call(pool, st, rdb, fresh_args=False):
	"""the call `query(rdb, queries, params, ...)` of a step; -> digest.  fresh_args: arguments made for this call only
	(reference run); otherwise the pool's long-lived params object and arrays"""
	import io
	from gambit.query import query, QueryParams
	if fresh_args:
		p = QueryParams(**SEQ_PARAMS[int(st.get('p', 0)) % len(SEQ_PARAMS)])
		rows = pool.sq['rows'] if st['q'][0] in ('ref', 'sa') else pool.sq['qrows']
		qs = [rows[int(i) % len(rows)].copy() for i in st['q'][1]]
		if st['q'][0] == 'sa':
			from gambit.sigs import SignatureArray
			from gambit.kmers import KmerSpec
			qs = SignatureArray(qs, KmerSpec(6, 'AT'))
	else:
		p = pool.param(st.get('p', 0))[1]
		qs = pool.queries(st['q'])[0]
	kw = {}
	if st.get('inputs'):
		kw['inputs'] = ['in%d' % i for i in range(len(st['q'][1]))]
	res = query(rdb, qs, p, **kw)
	dg = _results_digest(res)
	if st.get('exp'):
		from gambit.results import CSVResultsExporter, JSONResultsExporter, ResultsArchiveWriter
		ex = dict(csv=CSVResultsExporter, json=JSONResultsExporter, archive=ResultsArchiveWriter)[st['exp']]()
		buf = io.StringIO()
		ex.export(buf, res)
		if not buf.getvalue():
			raise _SeqProblem(f'the {st["exp"]} exporter wrote nothing')
	return dg


def _seq_dist_call(pool, st, rdb, fresh_args=False):
	from gambit.metric import jaccarddist_matrix
	if fresh_args:
		rows = pool.sq['rows'] if st['q'][0] in ('ref', 'sa') else pool.sq['qrows']
		qs = [rows[int(i) % len(rows)].copy() for i in st['q'][1]]
	else:
		qs = pool.queries(['ref' if st['q'][0] == 'sa' else st['q'][0], st['q'][1]])[0]
	d = jaccarddist_matrix(qs, rdb.signatures, ref_indices=rdb.sig_indices, chunksize=st.get('chunk'))
	return _sha_obj([list(d.shape), str(d.dtype), hashlib.sha1(d.tobytes()).hexdigest()])


def _cli_digest(inv, idx):
	"""what a completed CLI invocation wrote to its -o file (csv output of query / dist only: other formats carry a time stamp)"""
	if inv['cmd'] in ('querysig', 'dist') or (inv['cmd'] == 'query' and inv.get('fmt', 'csv') == 'csv'):
		p = os.path.join(_env()['out'], f'o{idx}')
		try:
			return _sha(p)[:16]
		except OSError:
			return 'no output file'
	return None


def _seq_ref_key(st):
	"""what the result of a call depends on (a SignatureArray of the same rows gives the result of the list; an export afterwards
	does not change the result)"""
	keep = {k: st[k] for k in ('op', 'db', 'q', 'p', 'inputs', 'chunk', 'inv') if k in st}
	if 'q' in keep and keep['q'][0] == 'sa':
		keep['q'] = ['ref', keep['q'][1]]
	return json.dumps(keep, sort_keys=True)


def _seq_reference(pool, st):
	"""result of the same call on FRESH objects (a data base loaded for this call alone, arguments made for it alone);
	cached for the campaign.  -> ('ok', digest) | ('raised', type name)"""
	ref = pool.sq['ref']
	key = _seq_ref_key(st)
	if key in ref:
		return ref[key]
	from gambit.db import ReferenceDatabase
	dd = pool.dir(st['db'])
	try:
		if st['op'] == 'cli':
			with _Names(dd):
				r = _run_invocation(st['inv'], 900, True)
			out = ('ok', _cli_digest(st['inv'], 900)) if r['status'] == 'ok' else ('raised', r['status'] + ': ' + r['detail'][:160])
		else:
			rdb = ReferenceDatabase.load_from_dir(dd['d'])
			try:
				dg = _seq_query_call(pool, st, rdb, True) if st['op'] == 'query' else _seq_dist_call(pool, st, rdb, True)
			finally:
				_close_rdb(rdb)
				del rdb
			out = ('ok', dg)
	except Exception as e:
		out = ('raised', f'{type(e).__name__}: {str(e)[:160]}')
	ref[key] = out
	return out


def _seq_check_args(pool, st):
	"""the caller's params object and query arrays are what they were before the call"""
	import attr
	if 'p' in st:
		i, p = pool.param(st['p'])
		want = dict(SEQ_PARAM_DEFAULTS)
		want.update(SEQ_PARAMS[i])
		if attr.asdict(p) != want:
			raise _SeqProblem(f'the QueryParams object supplied by the caller was modified by the call: {attr.asdict(p)} (it was {want})')
	if 'q' in st and st['op'] in ('query', 'dist'):
		q = ['ref' if (st['op'] == 'dist' and st['q'][0] == 'sa') else st['q'][0], st['q'][1]]
		key = json.dumps(q)
		if key in pool.arrays:
			obj, watch, before = pool.arrays[key]
			for k, (a, b) in enumerate(zip(watch, before)):
				if a.tobytes() != b:
					raise _SeqProblem(f'query signature array {k} supplied by the caller was modified by the call')
			if isinstance(obj, list) and len(obj) != len(before):
				raise _SeqProblem('the list of query signatures supplied by the caller was modified by the call')


def _seq_check_objects(pool):
	"""every long-lived object the caller holds is what it was when it was obtained"""
	for (db, via), ent in list(pool.rdbs.items()):
		try:
			now = _rdb_fp(ent['rdb'], pool.sq['table'][db])
		except Exception as e:
			raise _SeqProblem(f'the ReferenceDatabase object of data base {db} (obtained via {via}) can no longer be inspected: {type(e).__name__}: {str(e)[:120]}')
		if now != ent['fp']:
			diff = {k: [ent['fp'][k], now[k]] for k in now if now[k] != ent['fp'].get(k)}
			raise _SeqProblem(f'the ReferenceDatabase object of data base {db} (obtained via {via}) was modified by a read-side call: {diff}')
	for key, mk in list(pool.makers.items()):
		try:
			now = _maker_fp(mk)
		except Exception as e:
			raise _SeqProblem(f'the session maker {key} can no longer be inspected: {type(e).__name__}: {str(e)[:120]}')
		if now != mk['fp']:
			raise _SeqProblem(f'the session maker {key} was modified: {mk["fp"]} -> {now}')


def _seq_marks():
	rec = _env()['rec']
	return [len(rec[k]) for k in ('stmts', 'classes', 'modes', 'journal')]


def _seq_judge_recorders(pool, marks, allow=()):
	"""what the recorders saw since `marks` on the files of the pool (allow: paths a contrast step may write to)"""
	rec = pool.env['rec']
	gdbs, gss = {}, {}
	for name, dd in pool.dirs.items():
		if dd.get('gdb'):
			gdbs[os.path.realpath(dd['gdb'])] = name
		gss[os.path.realpath(dd['gs'])] = name
	stm = sorted({(gdbs[x[0]], x[1]) for x in rec['stmts'][marks[0]:] if x[0] in gdbs and x[0] not in allow})
	if stm:
		raise _SeqProblem(f'write statement(s) {[w for _, w in stm]} reached the cursor of the genome file of data base {stm[0][0]}')
	for p, k in rec['classes'][marks[1]:]:
		if p in gdbs and p not in allow:
			pool.env.setdefault('seen_classes', set()).add(k.__name__)
			fl = _class_flags(k)
			if list(fl) != [1, 1]:
				raise _SeqProblem(f'a session on the genome file of data base {gdbs[p]} is a {k.__name__} whose flush is '
				                  f'{"a no-op" if fl[0] else "REAL"} and whose commit {"raises" if fl[1] else "is ALLOWED"} (not a read-only session)')
	for x in rec['modes'][marks[2]:]:
		if x[0] in gss and x[0] not in allow:
			pool.env.setdefault('seen_modes', []).append(x)
			if x[1] != 'r':
				raise _SeqProblem(f'the signature file of {gss[x[0]]} was opened in mode {x[1]!r}')
	for p, extra in rec['journal'][marks[3]:]:
		if p in gdbs and p not in allow and not pool.dirs[gdbs[p]].get('private'):
			raise _SeqProblem(f'journal file(s) {extra} appeared next to the genome file of data base {gdbs[p]}')


def _seq_judge_files(pool):
	for name, dd in pool.dirs.items():
		df = _diff(dd['base'], _snap(dd['d']))
		if df:
			raise _SeqProblem(f'the directory of data base {name} changed: ' + _with_damage(df, dd['gs']))


def _seq_contrast(pool, st):
	"""a WRITING tool at work in the same process on the private data base W (same paths as the later read-side uses of W);
	it may change W: the baseline of W is taken again afterwards"""
	from sqlalchemy.orm import Session
	from gambit.db.sqla import file_sessionmaker
	from gambit.db.models import Genome
	from gambit.sigs.base import load_signatures
	dd = pool.dir('W')
	what = st.get('what', 'plain')
	status = 'ok'
	if what not in ('plain', 'cls', 'rplus'):
		raise ValueError(what)
	try:
		status = _seq_contrast_tool(pool, st, dd, what)
	except Exception as e:
		# e.g. libhdf5 refuses a read-write open while a read-only handle on the file is open in this process
		status = f'the writing tool failed: {type(e).__name__}: {str(e)[:120]}'
	gc.collect()
	dd['base'] = _snap(dd['d'])
	for ent in pool.handles.values():
		if ent.get('file') == 'W':
			ent['base'] = dd['base']
	return status


def _seq_contrast_tool(pool, st, dd, what):
	from sqlalchemy.orm import Session
	from gambit.db.sqla import file_sessionmaker
	from gambit.db.models import Genome
	from gambit.sigs.base import load_signatures
	if what in ('plain', 'cls'):
		mk = file_sessionmaker(dd['gdb'], readonly=False) if what == 'plain' else file_sessionmaker(dd['gdb'], cls=Session)
		s = mk()
		s.query(Genome).filter_by(id=1).one_or_none()
		if st.get('edit'):
			k = ADD_BASE + 50000 + len(pool.held) + int(st.get('edit'))
			if s.query(Genome).filter_by(id=k).one_or_none() is None:
				s.add(Genome(id=k, key=f'c18/w{k}', description='added by a writing tool'))
			s.commit()

		def done():
			s.close()
			mk.kw['bind'].dispose()
		if st.get('hold'):
			s.rollback()        # the tool keeps its session, with no transaction open
			pool.held.append(done)
		else:
			done()
	elif what == 'rplus':
		h = load_signatures(dd['gs'], mode='r+')
		_ = h[0]
		if st.get('edit'):
			h.group.attrs['c18_tool'] = int(st.get('edit'))
			h.group.file.flush()
		# (the tool closes its handle before anybody reads: while a read-write handle is open IN THIS PROCESS libhdf5 shares
		# its access mode with every later open of the same file, see ASSUMPTIONS)
		h.group.file.close()
	return 'ok'


def _seq_step(pool, st, idx):
	"""run one step; -> dict(status, digest, ...).  Raises _SeqProblem when the step itself shows a violation"""
	op = st['op']
	env = pool.env
	rec = env['rec']
	out = dict(status='ok')
	if op in ('query', 'dist', 'qfail'):
		db, via = st['db'], st.get('via', 'dir')
		pool.dbs_used.add(db)
		fresh = via == 'fresh'
		if fresh:
			from gambit.db import ReferenceDatabase
			dd = pool.dir(db)

			def call():
				rdb = ReferenceDatabase.load_from_dir(dd['d'])
				try:
					return _seq_query_call(pool, st, rdb) if op == 'query' else _seq_dist_call(pool, st, rdb)
				finally:
					_close_rdb(rdb)
			rdb = None
		else:
			ent = pool.rdb(db, via)
			pool.use(('rdb', db, via))
			rdb = ent['rdb']
		if op == 'qfail':
			from gambit.query import query
			qs, kw = _bad_queries(pool, st.get('how', 'iter'), st.get('at', 0))
			p = pool.param(st.get('p', 0))[1]
			if st.get('how') == 'sql':
				rec['nsql'], rec['fail_at'] = 0, max(1, int(st.get('at', 1)))
			try:
				with _Names(pool.dir(db)):
					query(rdb, qs, p, **kw)
				out['status'] = 'ok (the bad input was accepted)'
			except _SeqProblem:
				raise
			except Exception as e:
				out['status'] = 'raised ' + type(e).__name__
			finally:
				rec['fail_at'] = None
			return out
		for k in ('p', 'q'):
			if k in st and not fresh:
				pool.use((k, json.dumps(st[k])))
		want = _seq_reference(pool, st)
		if want[0] != 'ok':
			raise _SeqProblem(f'a well-formed call fails even on freshly loaded objects at this point of the campaign (it succeeds in a fresh '
			                  f'process): {want}')
		try:
			if fresh:
				dg = _in_thread(call) if st.get('thread') else call()
			else:
				dg = _seq_query_call(pool, st, rdb) if op == 'query' else _seq_dist_call(pool, st, rdb)
			got = ('ok', dg)
		except Exception as e:
			got = ('raised', type(e).__name__)
			out['status'] = f'raised {type(e).__name__}: {str(e)[:160]}'
		out['digest'] = got[1]
		if got != want:
			raise _SeqProblem(f'same call, other result: on freshly loaded objects this call gives {want}, here it gives {got}'
			                  + (f' ({out["status"]})' if got[0] == 'raised' else ''))
		_seq_check_args(pool, st)
		return out
	if op == 'edit':
		# the client edits, in memory, an ORM object it got from the data base object, and tries to make that permanent
		db, via = st['db'], st.get('via', 'dir')
		if via == 'fresh':
			via = 'dir'
		pool.dbs_used.add(db)
		ent = pool.rdb(db, via)
		pool.use(('rdb', db, via))
		rdb = ent['rdb']
		try:
			g = rdb.genomes[int(st.get('i', 0)) % len(rdb.genomes)].genome
			g.description = f'{PFX}{int(st.get("v", 1))}'
			if st.get('flush'):
				rdb.session.flush()
			if st.get('commit'):
				try:
					rdb.session.commit()
				except TypeError:
					pass
				else:
					raise _SeqProblem(f'commit() on the session of the ReferenceDatabase object of data base {db} (obtained via {via}) did not raise TypeError')
		finally:
			ent['fp'] = _rdb_fp(rdb, pool.sq['table'][db])      # the caller's own edit is part of what it holds from now on
		return out
	if op == 'close':
		db, via = st['db'], st.get('via', 'dir')
		if (db, via) in pool.rdbs:
			pool.drop_rdb(db, via)
		else:
			out['status'] = 'nothing to close'
		return out
	if op == 'sess':
		db, how, af, slot = st['db'], st.get('how', 'default'), (1 if st.get('how') == 'cli' else int(st.get('af', 1))), int(st.get('slot', 0))
		pool.dbs_used.add(db)
		dd = pool.dir(db)
		ent = pool.session(db, how, af, slot)
		pool.use(('session', db, how, af, slot))
		pool.use(('maker', db, how, af))
		ent['base'] = dd['base']
		if st.get('fail'):
			ent['tainted'] = True
		case = dict(how=how, af=af, ops=st['ops'])
		with _Names(dd):
			rec['nsql'], rec['fail_at'] = 0, (int(st['fail']) if st.get('fail') else None)
			try:
				obs, problems = _run_session(case, dd['gdb'], True, live=ent)
			finally:
				rec['fail_at'] = None
		ent['ops'] += [list(o) for o in st['ops'][:len(obs)]]
		ent['obs'] += obs
		if any(ob[0] == [8] for ob in obs):
			out['status'] = 'an operation failed (injected)'
		if problems:
			raise _SeqProblem(f'session {how} (slot {slot}) on data base {db}: {problems[0][1]}')
		return out
	if op == 'store':
		f, slot = st.get('f', 'A'), int(st.get('slot', 0))
		dd = pool.dir(f)
		pool.dbs_used.add(f)
		key = (f, slot)
		if key not in pool.handles:
			pool.handles[key] = dict(sigs=None, is_open=False, held=[], ops=[], obs=[], file=f)
		ent = pool.handles[key]
		pool.use(('handle', f, slot))
		ent['base'] = dd['base']
		obs, problems, eff = _run_store(dict(ops=st['ops']), dd['gs'], True, live=ent)
		ent['ops'] += [list(o) for o in st['ops'][:len(obs)]]
		ent['obs'] += obs
		out['eff'] = eff
		if problems:
			raise _SeqProblem(f'signature handle (slot {slot}) on the signature file of {f}: {problems[0]}')
		return out
	if op == 'cli':
		db = st['db']
		pool.dbs_used.add(db)
		dd = pool.dir(db)
		inv = st['inv']
		want = _seq_reference(pool, st) if not inv.get('fail') else None
		if want is not None and want[0] != 'ok':
			raise _SeqProblem(f'a well-formed command fails when run for the first time against data base {db} at this point of the campaign (it '
			                  f'succeeds in a fresh process): {want}')
		with _Names(dd):
			r = _in_thread(lambda: _run_invocation(inv, 700 + idx, True)) if st.get('thread') else _run_invocation(inv, 700 + idx, True)
		out['status'] = r['status'] + (': ' + r['detail'][:160] if r['status'] != 'ok' else '')
		if r['status'] == 'problem':
			raise _SeqProblem(f'{inv["cmd"]} on data base {db}: {r["detail"]}')
		if want is not None:
			got = ('ok', _cli_digest(inv, 700 + idx)) if r['status'] == 'ok' else ('raised', r['status'])
			out['digest'] = got[1]
			if got != want:
				raise _SeqProblem(f'same command, other result: run first against data base {db} it gives {want}, here it gives {got} ({out["status"]})')
		return out
	if op == 'contrast':
		pool.dbs_used.add('W')
		out['status'] = _seq_contrast(pool, st)
		return out
	if op == 'badopen':
		from gambit.sigs.base import load_signatures
		p = pool.sq['badfile'][st.get('f', 'trunc')]
		try:
			h = load_signatures(p)
			out['status'] = 'ok (the malformed file was opened)'
			h.close()
		except Exception as e:
			out['status'] = 'raised ' + type(e).__name__
		return out
	if op == 'badload':
		from gambit.db import ReferenceDatabase, load_genomeset
		k = st.get('d', 'truncgdb')
		dd = pool.sq['baddir'][k]
		via = st.get('via', 'dir')
		try:
			if via == 'dir':
				r = ReferenceDatabase.load_from_dir(dd)
			else:
				gdbs = sorted(n for n in os.listdir(dd) if n.endswith('.gdb'))
				if not gdbs:
					raise FileNotFoundError('no genome file')
				if via == 'files':
					r = ReferenceDatabase.load(os.path.join(dd, gdbs[0]), os.path.join(dd, DB_FILES[1]))
				elif via == 'gset':
					session, gset = load_genomeset(os.path.join(dd, gdbs[0]))
					r = None
					session.close()
					session.bind.dispose()
					del session, gset
				else:
					raise ValueError(via)
			out['status'] = 'ok (the malformed data base was loaded)'
			if r is not None:
				_close_rdb(r)
			del r
		except Exception as e:
			out['status'] = 'raised ' + type(e).__name__
		# a load that fails (or not) is a read-side call all the same: the files it was pointed at keep their bytes
		gc.collect()
		was, now = pool.sq['badbytes'][k], _file_bytes(dd)
		if now != was:
			diff = [f'{n}: SHA-256 {was[n][0][:12]} -> {now.get(n, ("gone", -1))[0][:12]}, size {was[n][1]} -> {now.get(n, ("gone", -1))[1]}'
			        for n in was if now.get(n) != was[n]]
			objs = [_sqlite_objects(os.path.join(dd, n)) for n in was if n.endswith('.gdb') and now.get(n) != was[n]]
			_make_baddir(pool.sq, k)
			raise _SeqProblem(f'loading the incomplete / malformed data base directory `{k}` via {via} ({out["status"]}) changed the bytes of its files: '
			                  + '; '.join(diff) + (f' -- schema objects now in the genome file: {objs[0]}' if objs else ''))
		return out
	raise ValueError(op)


def _tie_session(ctx, key, ent):
	"""a long-lived session, all its steps taken together, against the session machine"""
	db, how, af, slot = key
	ops, obs = ent['ops'], ent['obs']
	if not ctx.model_ok or ent['tainted'] or not ops or any(o[0] >= 10 for o in ops):
		return
	fl = _model_flags(ctx, how)
	m = ctx.model([(1801, [fl[0], fl[1], af, [[k, 0] for k in TRACKED], ops])])[0]
	if m == [2]:
		ctx.broke('correspondence sequence (session)', f'model rejected the operations {ops}')
		return
	mo = _model_session_obs(m)
	if mo != obs:
		i = next((i for i, (a, b) in enumerate(zip(mo, obs)) if a != b), min(len(mo), len(obs)))
		ctx.broke('correspondence sequence (long-lived session of a shared maker vs session machine)',
		          f'session {key}, operations {ops}: first difference at operation {i}: model {mo[i] if i < len(mo) else None}, '
		          f'implementation {obs[i] if i < len(obs) else None}')


def _tie_handle(ctx, key, ent):
	ops, obs = ent['ops'], ent['obs']
	if not ctx.model_ok or not ops or key[0] == 'W':
		return
	m = ctx.model([(1802, [0, [], -1, _model_sops(ops)])])[0]
	if m == [2]:
		ctx.broke('correspondence sequence (store)', f'model rejected the operations {ops}')
		return
	mo = [[r if r[0] != 1 else [1, list(r[1])], ch, h] for r, ch, h in m]
	obs = [ob for o, ob in zip(ops, obs) if o[0] != 7]
	if mo != obs:
		i = next((i for i, (a, b) in enumerate(zip(mo, obs)) if a != b), min(len(mo), len(obs)))
		ctx.broke('correspondence sequence (long-lived signature handle vs store machine)',
		          f'handle {key}, operations {ops}: first difference at operation {i}: model {mo[i] if i < len(mo) else None}, '
		          f'implementation {obs[i] if i < len(obs) else None}')


def _step_text(st):
	t = {k: v for k, v in st.items() if k != 'op'}
	return f'{st["op"]} {json.dumps(t, sort_keys=True)}'


def _seq_run_script(ctx, steps):
	"""one script on a pool of its own; -> (violation text or None, statuses, nontrivial)"""
	env = _env()
	sq = _seq_env()
	pool = _Pool()
	bad = None
	statuses = []
	failed = completed = repeated = 0
	seen_calls = set()
	nontrivial = False
	try:
		for idx, st in enumerate(steps):
			marks = _seq_marks()
			name = f'step {idx} ({_step_text(st)})'
			try:
				allow = ()
				if st['op'] == 'contrast':
					w = pool.dir('W')
					allow = (os.path.realpath(w['gdb']), os.path.realpath(w['gs']))
				elif st['op'] in ('query', 'dist', 'cli'):
					pool.dir(st['db'])
					if not (st['op'] == 'cli' and st['inv'].get('fail')):
						_seq_reference(pool, st)
					marks = _seq_marks()      # the reference run on fresh objects is not a step of the sequence
				r = _seq_step(pool, st, idx)
				statuses.append(r)
				if r['status'] == 'ok':
					completed += 1
				else:
					failed += 1
				if st['op'] in ('query', 'dist', 'cli', 'sess', 'store'):
					repeated += json.dumps(st, sort_keys=True) in seen_calls
					seen_calls.add(json.dumps(st, sort_keys=True))
				_seq_judge_recorders(pool, marks, allow)
				_seq_judge_files(pool)
				_seq_check_objects(pool)
			except _SeqProblem as e:
				bad = f'{name}: {e}'
				break
		ctx.count('sequence:steps', len(statuses))
		ctx.count('sequence:steps-that-failed', failed)
		shared_objects = sum(1 for n in pool.uses.values() if n >= 2)
		ctx.count('sequence:objects-used-by-two-or-more-steps', shared_objects)
		dbs = {d for d in pool.dbs_used if d in ('A', 'B', 'W')}
		nontrivial = shared_objects >= 1 and completed >= 1 and (len(dbs) >= 2 or failed >= 1 or repeated >= 1)
		if bad is None:
			for key, ent in pool.sessions.items():
				_tie_session(ctx, key, ent)
			for key, ent in pool.handles.items():
				_tie_handle(ctx, key, ent)
	finally:
		pool.close()
	if bad is None:
		# after every long-lived object was closed
		for name, dd in (('A', dict(d=env['db'], base=env['base'], gs=env['gs'])), ('B', sq['B'])):
			df = _diff(dd['base'], _snap(dd['d']))
			if df:
				bad = f'after closing every object of the pool the directory of data base {name} differs: ' + _with_damage(df, dd['gs'])
				break
	if bad:
		_restore()
		_restore_B()
		env['rec']['fail_at'] = None
	return bad, statuses, nontrivial


def _seq_child(path):
	"""entry point of the FRESH process that re-runs one sequence case (see _self_contained):
	python -c 'import harness.c18 as m; m._seq_child(PATH)'"""
	from vf.main import Ctx
	data = json.load(open(path))
	ctx = Ctx(PROP, 'quick', 0, os.environ.get('VERIF_REPO', '/repo'))
	ctx.model_ok = False
	ctx.replaying = True
	setup(ctx)
	k_sequence(ctx, [data['case']])
	print('C18-SEQ-CHILD ' + json.dumps(dict(violations=[v['what'] for v in ctx.violations])))


def _fresh_process_fails(case):
	"""-> text of the violation the case shows when it is the ONLY thing a fresh process runs, '' if it shows none, None if
	the process could not be run"""
	import subprocess
	import sys
	env = _env()
	env['nchild'] = env.get('nchild', 0) + 1
	path = os.path.join(env['root'], f'child{env["nchild"]}.json')
	with open(path, 'w') as f:
		json.dump(dict(case=case), f)
	try:
		r = subprocess.run([sys.executable, '-c', 'import harness.c18 as m; m._seq_child(%r)' % path], capture_output=True, text=True, timeout=600)
	except Exception:
		return None
	for line in r.stdout.splitlines():
		if line.startswith('C18-SEQ-CHILD '):
			v = json.loads(line[len('C18-SEQ-CHILD '):])['violations']
			return v[0] if v else ''
	return None


def _self_contained(c, bad, history):
	"""The objects the sequence stream looks for live in the PROCESS (module globals, class attributes, registries): a case
	that fails in the campaign may fail because of what an EARLIER case left behind.  A replay must fail in a fresh
	process: the case is re-run alone in one; if it does not fail there, the scripts of the sequence cases that ran
	before it are put in front (key `prior`; the last 1, 2, 4, ... of them) until it does.  -> (case to report, text)"""
	r = _fresh_process_fails(c)
	if r:
		return c, bad
	if r is None:
		return c, bad + ' [could not be re-run in a fresh process]'
	k = 1
	while history:
		prior = history[-k:]
		cand = dict(steps=c['steps'], prior=[h for h in prior])
		r = _fresh_process_fails(cand)
		if r:
			return cand, f'{bad} [not when this script is the first thing a process runs: only after the {len(prior)} earlier script(s) under `prior`, which left state behind in the process]'
		if r is None or k >= len(history):
			break
		k *= 2
	# state left by the other streams (which use data base A through every entry point): a script that does the same
	for db in ('A', 'B'):
		cand = dict(steps=c['steps'], prior=[_seq_prelude(db)])
		if _fresh_process_fails(cand):
			return cand, f'{bad} [not when this script is the first thing a process runs: only after data base {db} was used in the process, script under `prior`]'
	return c, bad + (' [seen only after earlier cases of this campaign -- state left in the process by other streams; re-run the campaign with the '
	                 'same VERIF_SEED to see it again]')


def _seq_prelude(db):
	"""one use of a data base through every entry point"""
	return [dict(op='cli', db=db, inv=dict(cmd='querysig')), dict(op='cli', db=db, inv=dict(cmd='info-db', flags=[])),
	        dict(op='query', db=db, via='dir', q=['ref', [0]], p=0), dict(op='query', db=db, via='cli', q=['ref', [0]], p=0),
	        dict(op='sess', db=db, how='default', af=1, slot=0, ops=[[3], [5]]), dict(op='sess', db=db, how='cli', af=1, slot=0, ops=[[3], [5]]),
	        dict(op='store', f=db, slot=0, ops=[[0, -1], [1, 0], [5]])]


def k_sequence(ctx, cases):
	"""a short script of calls over a small pool of long-lived objects shared between the steps: reference data base
	objects, session makers and their sessions, signature handles, CLI contexts, QueryParams objects, query arrays --
	against two different data bases (A: the shared copy; B: another data base, other size and order), a private data
	base W on which a writing tool works in between, malformed files.  After EVERY step: the C18 predicate on every
	directory of the pool, `caller objects unmodified`, `same call, same result`."""
	env = _env()
	sq = _seq_env()
	if not ctx.replaying:
		ctx.extra['sequence_data_base_B'] = dict(sq['variant'], note='made by the harness from the shipped data base: signatures in reversed order, '
		                                         'every 5th dropped, their genomes and every 7th other genome removed')
	t0 = time.time()
	if not ctx.replaying:
		env['campaign'] = True      # (corpus cases included: they run in the campaign process after the corpus cases of the other kinds)
	for c in cases:
		if ctx.replaying and env.get('campaign'):
			# the runner's shrinker re-runs candidates inside the campaign process, whose module-level state is what the earlier
			# cases left: nothing can be concluded there about a shorter script (sequence cases are short: reported as found)
			continue
		bad = None
		for k, steps in enumerate(c.get('prior', [])):
			bad, statuses, _ = _seq_run_script(ctx, steps)
			if bad:
				bad = f'script {k} of `prior`: {bad}'
				break
		if bad is None:
			bad, statuses, nontrivial = _seq_run_script(ctx, c.get('steps', []))
			ctx.case(c, nontrivial=nontrivial)
		else:
			ctx.case(c, nontrivial=False)
		if bad:
			report = c
			if not ctx.replaying and env.get('campaign') and env.get('seq_confirmed', 0) < 3:
				env['seq_confirmed'] = env.get('seq_confirmed', 0) + 1
				report, bad = _self_contained(c, bad, env.get('seq_history', []))
			ctx.violation('sequence', report, bad, impl=[s.get('status') for s in statuses])
		if not ctx.replaying:
			env.setdefault('seq_history', []).append(c.get('steps', []))
	if not ctx.replaying:
		ctx.extra['sequence_wall_s'] = round(ctx.extra.get('sequence_wall_s', 0) + time.time() - t0, 2)


KINDS = {'session': k_session, 'store': k_store, 'history': k_history, 'walpending': k_walpending, 'sequence': k_sequence}
CORRESPONDENCES = ['session', 'store', 'history', 'walpending', 'sequence']


# ------------------------------------------------------------------------------------------------
# generators
# ------------------------------------------------------------------------------------------------

class _Fresh:
	def __init__(self):
		self.k = ADD_BASE
		self.v = 0

	def key(self):
		self.k += 1
		return self.k

	def val(self):
		self.v += 1
		return self.v


def _mk_ops(symbols):
	"""symbols: 'a' add, 'm1' modify tracked row 1, 'd2', 'q', 'f', 'c', 'r', 'x' close, 't' txcommit"""
	fr = _Fresh()
	ops = []
	for s in symbols:
		if s == 'a':
			ops.append([0, fr.key(), fr.val()])
		elif s[0] == 'm':
			ops.append([1, int(s[1:]), fr.val()])
		elif s[0] == 'd':
			ops.append([2, int(s[1:])])
		else:
			ops.append([{'q': 3, 'f': 4, 'c': 5, 'r': 6, 'x': 7, 't': 8}[s]])
	return ops


def _rand_ops(rng, n, raw=False):
	alphabet = ['a', 'a', 'm1', 'm2', 'm3', 'm800000', 'd2', 'd3', 'd4', 'q', 'q', 'f', 'c', 'c', 'r', 'x', 't']
	syms = [rng.choice(alphabet) for _ in range(n)]
	ops = _mk_ops(syms)
	if raw:
		fr = 500
		for i in range(len(ops)):
			if rng.random() < 0.25:
				fr += 1
				ops[i] = [9, rng.choice([[1, rng.choice(TRACKED), fr], [2, rng.choice(TRACKED)], [0, ADD_BASE + 5000 + fr, fr]])]
	return ops


def _rand_take(rng):
	"""[6, key, selection, in-place operation, index, width]"""
	return [6, rng.randrange(0, 6), rng.randrange(NSEL), rng.randrange(NMUT), rng.randrange(0, 213), rng.randrange(0, 8)]


def _rand_sops(rng, n, modes, inplace=0.0):
	ops = []
	for _ in range(n):
		if inplace and rng.random() < inplace:
			ops.append(_rand_take(rng) if rng.random() < 0.75 else [7, rng.randrange(NMUT)])
			continue
		c = rng.choice([0, 1, 1, 2, 2, 3, 4, 5])
		if c == 0:
			ops.append([0, rng.choice(modes)])
		elif c == 1:
			ops.append([1, rng.randrange(0, 6)])
		elif c == 2:
			ops.append([2, rng.randrange(0, 6), rng.randrange(1, 100)])
		elif c == 3:
			ops.append([3, rng.randrange(0, 6)])
		else:
			ops.append([c])
	return ops


def _rand_inv(rng, allow_tree):
	kinds = ['query', 'query', 'query', 'querysig', 'dist', 'create', 'info-db', 'info-db', 'info-file', 'load', 'libsession',
	         'libsession', 'libstore']
	if allow_tree:
		kinds.append('tree')
	cmd = rng.choice(kinds)
	inv = dict(cmd=cmd)
	if cmd in ('query', 'dist', 'create', 'load'):
		inv['n'] = rng.randint(1, 3)
		inv['q'] = [rng.randrange(8) for _ in range(inv['n'])]
	if cmd == 'query':
		inv['fmt'] = rng.choice(['csv', 'json', 'archive'])
	if cmd == 'load':
		inv['libquery'] = rng.random() < 0.5
		if rng.random() < 0.7:
			inv['mut'] = [[rng.randrange(NSEL), rng.randrange(NMUT), rng.randrange(0, 213), rng.randrange(0, 8)]
			              for _ in range(rng.randint(1, 3))]
		if inv['libquery'] and rng.random() < 0.5:
			inv['qslice'] = [rng.randrange(0, 213), rng.randrange(0, 3), rng.randrange(NMUT)]
		if rng.random() < 0.4:
			inv['close'] = True
			if rng.random() < 0.6:
				inv['mut_after_close'] = rng.randrange(NMUT)
	if cmd in ('info-db', 'info-file'):
		inv['flags'] = rng.choice([[], ['-j'], ['-i'], ['-j', '-p']])
	if cmd == 'libsession':
		inv['af'] = rng.choice([0, 1, 1])
		inv['ops'] = _rand_ops(rng, rng.randint(1, 8))
	if cmd == 'libstore':
		inv['ops'] = _rand_sops(rng, rng.randint(1, 6), [-1, 0], inplace=0.3)
	# failing variants
	p = rng.random()
	if cmd in ('query', 'querysig', 'load') and p < 0.25:
		inv['fail'] = dict(kind='sql', at=rng.randint(1, 9))
	elif cmd in ('query', 'dist', 'create') and p < 0.35:
		inv['fail'] = dict(kind=rng.choice(['badarg', 'badfile', 'badout']))
	elif cmd in ('query', 'querysig', 'dist', 'info-db') and p < 0.42:
		inv['fail'] = dict(kind='nodb')
	elif cmd in ('info-file', 'tree') and p < 0.2:
		inv['fail'] = dict(kind='badarg')
	return inv


# persistent states enumerated by the stream history-dbstate (every one of them x every use of DBSTATE_USES over the
# tiers; see _build_state for the meaning of the keys)
DBSTATES = [
	dict(jm='wal'), dict(jm='wal', edit='desc'), dict(jm='wal', edit='free', av=2),
	dict(jm='wal', sidecar='ckpt'), dict(jm='wal', sidecar='ckpt-noshm'), dict(jm='wal', sidecar='empty'),
	dict(jm='wal', page=512), dict(jm='wal', page=65536, av=1), dict(jm='wal', ro='file'), dict(jm='wal', ro='dir'),
	dict(jm='wal', enc='utf16be', uv=7), dict(jm='wal', sig='latest', vacuum=1),
	dict(jm='delete', edit='desc'), dict(jm='truncate', edit='desc'), dict(jm='persist', edit='desc'),
	dict(jm='persist', edit='free', page=1024), dict(jm='memory', edit='desc'), dict(jm='off', edit='free'),
	dict(page=512), dict(page=1024, av=2, edit='free'), dict(page=8192, av=1), dict(page=65536), dict(av=2, edit='free'),
	dict(vacuum=1), dict(uv=20210818, appid=0x47414d42), dict(enc='utf16le'), dict(ro='file'), dict(ro='dir'), dict(sig='latest'),
]


def _dbstate_uses():
	"""one of each read-side use (command / library call / failing variant)"""
	return [
		dict(cmd='querysig'),
		dict(cmd='info-db', flags=['-j']),
		dict(cmd='load', n=2, libquery=True, mut=[[0, 0, 3, 0]], close=True),
		dict(cmd='libsession', how='cli', af=1, ops=_mk_ops(['q', 'a', 'm1', 'q', 'f', 'c', 't', 'r'])),
		dict(cmd='query', n=1, q=[0], fmt='json', fail=dict(kind='sql', at=4)),
		dict(cmd='dist', n=1, q=[1]),
		dict(cmd='libsession', how='default', af=1, ops=_mk_ops(['m2', 'd3', 'q', 'c', 'f', 'x'])),
		dict(cmd='query', n=1, q=[2], fmt='csv'),
		dict(cmd='libstore', ops=[[1, 2], [2, 0, 5], [6, 1, 3, 0, 10, 2], [5]]),
		dict(cmd='querysig', fail=dict(kind='sql', at=2)),
		dict(cmd='libsession', how='explicit', af=0, ops=_mk_ops(['a', 'f', 'q', 't', 'c'])),
		dict(cmd='query', n=1, q=[3], fmt='archive', fail=dict(kind='badfile')),
		dict(cmd='info-db', flags=[], fail=dict(kind='nodb')),
		dict(cmd='load', n=1, fail=dict(kind='sql', at=3)),
	]


# size classes / trailing bytes of the signature file enumerated by the stream history-sigsize (see _build_sig_size), alone and
# combined with other dimensions of the persistent state
SIGSIZE_STATES_QUICK = [dict(sig='big-pad'), dict(sig='big'), dict(sig='same-pad'), dict(sig='huge', jm='wal')]
SIGSIZE_STATES = SIGSIZE_STATES_QUICK + [
	dict(sig='huge-pad'), dict(sig='vast'), dict(sig='vast-pad'), dict(sig='big-latest'), dict(sig='big-latest-pad'), dict(sig='huge-latest'),
	dict(sig='big', ro='file'), dict(sig='big-pad', jm='wal', sidecar='ckpt'), dict(sig='huge-pad', page=512, edit='free'),
	dict(sig='big', schema=['drop:taxa']), dict(sig='big-pad', schema=['file:zero']),
]


def _sigsize_uses():
	"""read-side uses that open the signature file (command / library call / handle operations / failing variants)"""
	return [
		dict(cmd='info-db', flags=[]),
		dict(cmd='load', n=2, libquery=True, mut=[[0, 0, 3, 0]], close=True),
		dict(cmd='querysig'),
		dict(cmd='libstore', ops=[[1, 2], [2, 0, 5], [6, 1, 3, 0, 10, 2], [5]]),
		dict(cmd='dist', n=1, q=[1]),
		dict(cmd='load', via='files', n=3, libquery=True, qslice=[40, 1, 1]),
		dict(cmd='query', n=1, q=[2], fmt='csv'),
		dict(cmd='querysig', fail=dict(kind='sql', at=4)),
		dict(cmd='libstore', ops=[[6, 0, 0, 1, 200, 0], [3, 1], [4], [5], [0, 0], [1, 7]]),
		dict(cmd='load', via='cli', n=1, mut=[[3, 1, 100, 1]], close=True, mut_after_close=5),
		dict(cmd='info-file', flags=['-j']),
		dict(cmd='query', n=1, q=[3], fmt='json', fail=dict(kind='badfile')),
	]


def _rand_state(rng, sigs=('latest',)):
	"""a random combination of the state dimensions (mostly two or three away from the shipped state)"""
	st = {}
	jm = rng.choice(['wal', 'wal', 'wal', 'delete', 'truncate', 'persist', 'memory', 'off'])
	st['jm'] = jm
	st['edit'] = rng.choice(['none', 'desc', 'free']) if jm in ('wal', 'delete') else rng.choice(['desc', 'free'])
	if jm == 'wal' and rng.random() < 0.5:
		st['sidecar'] = rng.choice(['ckpt', 'ckpt-noshm', 'empty'])
	if rng.random() < 0.5:
		st['page'] = rng.choice(PAGE_SIZES)
	if rng.random() < 0.35:
		st['av'] = rng.choice([1, 2])
	if rng.random() < 0.2:
		st['vacuum'] = 1
	if rng.random() < 0.3:
		st['uv'] = rng.choice([1, 77, 2 ** 31 - 1])
	if rng.random() < 0.3:
		st['appid'] = rng.choice([1, 0x47414d42, 2 ** 31 - 1])
	if rng.random() < 0.2:
		st['enc'] = rng.choice(['utf16le', 'utf16be'])
	if rng.random() < 0.2:
		st['ro'] = rng.choice(['file', 'dir'])
	if rng.random() < 0.2:
		st['sig'] = rng.choice(sigs)
	return st


# incomplete / foreign genome files enumerated by the stream history-dbschema (see _apply_schema for the modifications); the other
# state dimensions apply as well (a few combinations here, random ones in history-dbschema-random)
SCHEMA_STATES = [
	# one model table missing (a file written by a tool that does not store that part; an older file), several, all of them
	dict(schema=['drop:taxa']), dict(schema=['drop:genomes']), dict(schema=['drop:genome_annotations']), dict(schema=['drop:genome_sets']),
	dict(schema=['drop:taxa', 'drop:genome_annotations']), dict(schema=['drop:genomes', 'drop:genome_annotations', 'drop:taxa']),
	dict(schema=['drop:genome_annotations', 'drop:genomes', 'drop:taxa', 'drop:genome_sets']), dict(schema=['drop:alembic_version']),
	dict(schema=['rename:taxa']), dict(schema=['rename:genome_sets', 'addtable']),
	# indexes missing, extra objects a foreign tool added
	dict(schema=['dropindex:ix_taxa_name']), dict(schema=['dropindex:*']), dict(schema=['addtable']), dict(schema=['addcol:genomes']),
	dict(schema=['addcol:taxa', 'addtable', 'addindex']),
	# an older / other schema: columns missing, a table re-imported without constraints and indexes
	dict(schema=['dropcol:taxa.report']), dict(schema=['dropcol:genomes.extra', 'dropcol:genome_sets.extra']), dict(schema=['dropcol:taxa.ncbi_id']),
	dict(schema=['rebuild:taxa']), dict(schema=['rebuild:genomes', 'dropcol:genome_annotations.organism']),
	# the tables are there, the rows are not what a reference data base has
	dict(schema=['norows:genome_sets']), dict(schema=['twosets']), dict(schema=['norows:genome_annotations', 'drop:taxa']),
	# not a reference data base at all, under the .gdb name
	dict(schema=['file:zero']), dict(schema=['file:notables']), dict(schema=['file:garbage']), dict(schema=['file:truncated']),
	dict(schema=['file:foreign']), dict(schema=['file:schema-only']), dict(schema=['file:schema-only', 'drop:taxa']),
	# ... combined with the other dimensions of the persistent state
	dict(schema=['drop:taxa'], jm='wal'), dict(schema=['file:notables'], jm='wal', sidecar='ckpt'), dict(schema=['drop:genome_annotations'], page=512, av=1),
	dict(schema=['file:zero'], sig='latest'), dict(schema=['drop:genomes', 'addtable'], enc='utf16le'), dict(schema=['file:foreign'], jm='persist', edit='desc'),
	dict(schema=['drop:genome_sets'], ro='file'),
]


def _schema_loads():
	"""the library's ways to load a data base (or its genome file alone), with the things a client does next"""
	return [
		dict(cmd='load', via='dir', n=2),
		dict(cmd='load', via='files', n=1, libquery=True, close=True),
		dict(cmd='load', via='gset', n=3, commit=True),
		dict(cmd='load', via='cli', n=2, libquery=True),
		dict(cmd='load', via='located', n=1, commit=True, mut=[[0, 0, 3, 0]]),
		dict(cmd='load', via='gset', n=1, fail=dict(kind='sql', at=1)),
		dict(cmd='load', via='files', n=1, fail=dict(kind='sql', at=3)),
		dict(cmd='load', via='dir', n=1, libquery=True, commit=True, mut=[[3, 1, 100, 1]], close=True, mut_after_close=5),
	]


def _schema_clis():
	return [
		dict(cmd='querysig'), dict(cmd='query', n=1, q=[0], fmt='csv'), dict(cmd='dist', n=1, q=[1]), dict(cmd='info-db', flags=['-j']),
		dict(cmd='querysig', fail=dict(kind='sql', at=2)), dict(cmd='query', n=1, q=[2], fmt='json', fail=dict(kind='badfile')),
	]


def _schema_sessions():
	return [
		dict(cmd='libsession', how='default', af=1, ops=_mk_ops(['q', 'a', 'm1', 'q', 'f', 'c', 't', 'r'])),
		dict(cmd='libsession', how='explicit', af=0, ops=_mk_ops(['a', 'f', 'q', 't', 'c'])),
		dict(cmd='libsession', how='cli', af=1, ops=_mk_ops(['m2', 'd3', 'q', 'c', 'f', 'x'])),
	]


def _rand_schema(rng):
	"""a random incomplete / foreign genome file"""
	tables = list(MODEL_TABLES)
	r = rng.random()
	if r < 0.15:
		return ['file:' + rng.choice(SCHEMA_RAW_FILES)]
	mods = []
	if r < 0.35:
		mods.append('file:' + rng.choice(SCHEMA_SQLITE_FILES))
	for _ in range(rng.randint(0 if mods else 1, 3)):
		k = rng.random()
		if k < 0.40:
			mods.append('drop:' + rng.choice(tables + ['taxa', 'alembic_version']))
		elif k < 0.50:
			mods.append('dropindex:' + rng.choice(['*', 'ix_taxa_name', 'ix_genome_sets_key', 'ix_genome_annotations_taxon_id', 'ix_taxa_parent_id']))
		elif k < 0.60:
			mods.append(rng.choice(['addtable', 'addindex', 'addcol:' + rng.choice(tables)]))
		elif k < 0.72:
			mods.append('dropcol:' + rng.choice(SCHEMA_DROPCOLS))
		elif k < 0.80:
			mods.append('rename:' + rng.choice(tables))
		elif k < 0.88:
			mods.append('rebuild:' + rng.choice(tables))
		elif k < 0.95:
			mods.append('norows:' + rng.choice(tables))
		else:
			mods.append('twosets')
	return mods


def _rand_schema_state(rng):
	schema = _rand_schema(rng)
	st = _rand_state(rng) if rng.random() < 0.4 else {}
	if schema[0][5:] in SCHEMA_RAW_FILES:
		st = {k: v for k, v in st.items() if k in ('ro', 'sig')}      # no SQLite file: its other dimensions do not exist
	st['schema'] = schema
	return st


def _rand_schema_inv(rng):
	if rng.random() < 0.55:
		inv = dict(cmd='load', via=rng.choice(['dir', 'files', 'gset', 'gset', 'cli', 'located']), n=rng.randint(1, 3))
		if inv['via'] != 'gset':
			inv['libquery'] = rng.random() < 0.4
			if rng.random() < 0.4:
				inv['mut'] = [[rng.randrange(NSEL), rng.randrange(NMUT), rng.randrange(0, 213), rng.randrange(0, 8)]]
			inv['close'] = rng.random() < 0.4
		if rng.random() < 0.4:
			inv['commit'] = True
		if rng.random() < 0.2:
			inv['fail'] = dict(kind='sql', at=rng.randint(1, 6))
		return inv
	return _rand_state_inv(rng)


def _rand_state_inv(rng):
	"""like _rand_inv, without the commands that do not go near the data base directory / are expensive (tree)"""
	while True:
		inv = _rand_inv(rng, False)
		if inv['cmd'] in ('create', 'info-file') and rng.random() < 0.7:
			continue
		if inv['cmd'] == 'libsession':
			inv['how'] = rng.choice(PROPERTY_HOW)
		return inv


SEQ_QIDX = [[3, 40, 7], [100], [212, 5, 5], [17, 60, 130, 199]]


def _seq_ops(rng, n, step):
	"""session operations of one step of a sequence; the keys of added genomes are unique within the case"""
	ops = _rand_ops(rng, n)
	for j, o in enumerate(ops):
		if o[0] == 0:
			o[1] = ADD_BASE + 1000 * (step + 1) + j
	return ops


def _rand_cli_inv(rng):
	# (commands that parse genome files start a pool of worker processes, 0.2 s each: the history streams run many of them)
	cmd = rng.choice(['querysig', 'querysig', 'info-db', 'info-db', 'info-file', 'load', 'load', 'query', 'dist', 'create'])
	inv = dict(cmd=cmd)
	if cmd in ('query', 'dist', 'create', 'load'):
		inv['n'] = 1
		inv['q'] = [rng.randrange(2)]
	if cmd == 'query':
		inv['fmt'] = rng.choice(['csv', 'csv', 'json', 'archive'])
	if cmd == 'load':
		inv['libquery'] = rng.random() < 0.5
		inv['mut'] = [[rng.randrange(NSEL), rng.randrange(NMUT), rng.randrange(0, 150), rng.randrange(0, 8)]]
		inv['close'] = rng.random() < 0.5
	if cmd in ('info-db', 'info-file'):
		inv['flags'] = rng.choice([[], ['-j'], ['-i']])
	p = rng.random()
	if cmd in ('query', 'querysig', 'load') and p < 0.2:
		inv['fail'] = dict(kind='sql', at=rng.randint(1, 9))
	elif cmd in ('query', 'dist', 'create') and p < 0.3:
		inv['fail'] = dict(kind=rng.choice(['badarg', 'badfile', 'badout']))
	elif cmd in ('querysig', 'info-db') and p < 0.3:
		inv['fail'] = dict(kind='nodb')
	elif cmd == 'info-file' and p < 0.2:
		inv['fail'] = dict(kind='badarg')
	return inv


def _rand_step(rng, step, with_w):
	r = rng.random()
	db = rng.choice(['A', 'A', 'B'])
	via = rng.choice(['dir', 'dir', 'files', 'cli', 'cli2', 'fresh'])
	if r < 0.28:
		st = dict(op='query', db=db, via=via, q=[rng.choice(['ref', 'ref', 'qs', 'sa']), rng.choice(SEQ_QIDX)], p=rng.randrange(len(SEQ_PARAMS)))
		if rng.random() < 0.3:
			st['inputs'] = 1
		if rng.random() < 0.3:
			st['exp'] = rng.choice(['csv', 'json', 'archive'])
		if via == 'fresh' and rng.random() < 0.5:
			st['thread'] = 1
		return st
	if r < 0.38:
		st = dict(op='dist', db=db, via=via, q=[rng.choice(['ref', 'qs']), rng.choice(SEQ_QIDX)], chunk=rng.choice([None, 7, 50, 1000]))
		if via == 'fresh' and rng.random() < 0.5:
			st['thread'] = 1
		return st
	if r < 0.50:
		how = rng.choice(['iter', 'dtype', 'object', 'ndim', 'empty', 'inputs', 'sql'])
		return dict(op='qfail', db=db, via=rng.choice(['dir', 'dir', 'files', 'cli', 'cli2']), how=how, at=rng.randint(1, 6) if how == 'sql' else rng.randrange(4),
		            p=rng.randrange(len(SEQ_PARAMS)))
	if r < 0.66:
		st = dict(op='sess', db=rng.choice(['A', 'A', 'B', 'W'] if with_w else ['A', 'A', 'B']), how=rng.choice(['default', 'default', 'explicit', 'cli']),
		          af=rng.choice([0, 1, 1]), slot=rng.randrange(2), ops=_seq_ops(rng, rng.randint(1, 5), step))
		if rng.random() < 0.15:
			st['fail'] = rng.randint(1, 4)
		return st
	if r < 0.78:
		ops = _rand_sops(rng, rng.randint(1, 4), [-1, 0], inplace=0.4)
		if rng.random() < 0.7:
			ops = [[0, rng.choice([-1, 0])]] + ops
		return dict(op='store', f=rng.choice(['A', 'A', 'B', 'Q', 'W'] if with_w else ['A', 'A', 'B', 'Q']), slot=rng.randrange(2), ops=ops)
	if r < 0.89:
		st = dict(op='cli', db=db, inv=_rand_cli_inv(rng))
		if rng.random() < 0.2:
			st['thread'] = 1
		return st
	if r < 0.92:
		return rng.choice([dict(op='badopen', f=rng.choice(SEQ_BAD_FILES)), dict(op='badload', d=rng.choice(SEQ_BAD_DIRS), via=('dir', 'files', 'gset')[step % 3])])
	if r < 0.95:
		return dict(op='edit', db=db, via=rng.choice(['dir', 'files', 'cli']), i=rng.randrange(150), v=rng.randrange(1, 50), flush=rng.choice([0, 1]),
		            commit=rng.choice([0, 1]))
	if r < 0.975:
		return dict(op='close', db=db, via=rng.choice(['dir', 'files', 'cli', 'cli2']))
	return dict(op='contrast', what=rng.choice(['plain', 'cls', 'rplus']), edit=rng.choice([0, 1, 2]), hold=rng.choice([0, 0, 1]))


def _other_db(st):
	st = json.loads(json.dumps(st))
	if st.get('db') in ('A', 'B'):
		st['db'] = 'B' if st['db'] == 'A' else 'A'
	elif st.get('f') in ('A', 'B'):
		st['f'] = 'B' if st['f'] == 'A' else 'A'
	return st


def _rand_seq(rng):
	"""2-6 steps; a step is new, or an earlier step again (same call on the same objects), or an earlier step against the
	OTHER data base (same params object / arrays / slot numbers, other data base)"""
	steps = []
	with_w = rng.random() < 0.25
	if with_w:
		steps.append(dict(op='contrast', what=rng.choice(['plain', 'cls', 'rplus']), edit=rng.choice([0, 1]), hold=rng.choice([0, 0, 1])))
	for i in range(rng.randint(2, 6)):
		r = rng.random()
		again = [s for s in steps if s['op'] in ('query', 'dist', 'cli', 'store', 'qfail')]
		if again and r < 0.22:
			steps.append(json.loads(json.dumps(rng.choice(again))))
		elif again and r < 0.42:
			steps.append(_other_db(rng.choice(again)))
		else:
			steps.append(_rand_step(rng, i, with_w))
	return dict(steps=steps)


def _fixed_seqs():
	"""templates, each for both orders of the two data bases"""
	out = []
	q1, q2 = ['ref', [3, 40, 7]], ['qs', [0, 5]]
	for X, Y in (('A', 'B'), ('B', 'A')):
		# one params object and one list of query arrays against two data bases; the same call again
		out.append([dict(op='query', db=X, via='dir', q=q1, p=1), dict(op='query', db=Y, via='dir', q=q1, p=1), dict(op='query', db=X, via='dir', q=q1, p=1),
		            dict(op='dist', db=Y, via='dir', q=q1, chunk=7), dict(op='dist', db=X, via='dir', q=q1, chunk=7)])
		out.append([dict(op='query', db=X, via='files', q=q2, p=2, inputs=1, exp='json'), dict(op='query', db=Y, via='cli', q=q2, p=2, inputs=1, exp='archive'),
		            dict(op='query', db=X, via='files', q=q2, p=0, exp='csv'), dict(op='query', db=Y, via='cli', q=['sa', [17, 60, 130, 199]], p=3)])
		# sessions of shared makers: two sessions of one maker, makers of two data bases, edits left pending across steps
		for how in ('default', 'explicit', 'cli'):
			out.append([dict(op='sess', db=X, how=how, af=1, slot=0, ops=[[0, ADD_BASE + 1001, 1], [1, 1, 2], [3]]),
			            dict(op='sess', db=Y, how=how, af=1, slot=0, ops=[[0, ADD_BASE + 2001, 3], [5], [4], [8]]),
			            dict(op='sess', db=X, how=how, af=1, slot=0, ops=[[3], [5], [8], [2, 2]]),
			            dict(op='sess', db=X, how=how, af=1, slot=1, ops=[[3], [5], [0, ADD_BASE + 4001, 4], [4]]),
			            dict(op='query', db=X, via='cli' if how == 'cli' else 'dir', q=q1, p=0),
			            dict(op='sess', db=X, how=how, af=1, slot=0, ops=[[4], [3], [6], [3], [7], [5]])])
		# signature handles: two handles on one file, handles on two files, arrays taken earlier modified later
		out.append([dict(op='store', f=X, slot=0, ops=[[0, -1], [1, 2], [6, 1, 3, 0, 10, 2]]), dict(op='store', f=Y, slot=0, ops=[[0, 0], [2, 1, 7], [2, 2, 7]]),
		            dict(op='store', f=X, slot=1, ops=[[0, 0], [3, 1], [6, 2, 0, 4, 10, 0], [5]]), dict(op='store', f=X, slot=0, ops=[[7, 5], [2, 0, 9], [3, 2], [4]]),
		            dict(op='store', f='Q', slot=0, ops=[[0, -1], [2, 0, 1], [6, 0, 13, 1, 0, 3]]), dict(op='store', f=X, slot=0, ops=[[5], [7, 1], [0, -1], [2, 3, 3]])])
		# a call that fails part-way, then the good call again on the same thread and the same objects
		for how in (('iter', 'object', 'empty', 'sql') if X == 'A' else ('dtype', 'ndim', 'inputs', 'sql')):
			out.append([dict(op='query', db=X, via='dir', q=q1, p=1), dict(op='qfail', db=X, via='dir', how=how, at=2, p=1),
			            dict(op='query', db=X, via='dir', q=q1, p=1), dict(op='qfail', db=Y, via='files', how=how, at=1, p=1),
			            dict(op='query', db=Y, via='files', q=q1, p=1), dict(op='dist', db=X, via='dir', q=q1, chunk=5)])
		# a writing tool works on the private data base W in between (same paths)
		out.append([dict(op='contrast', what='plain', edit=1), dict(op='sess', db='W', how='default', af=1, slot=0, ops=[[0, ADD_BASE + 1001, 1], [5], [4], [3], [8]]),
		            dict(op='contrast', what='cls', edit=0, hold=1), dict(op='sess', db='W', how='default', af=1, slot=1, ops=[[1, 1, 5], [8], [5], [3]]),
		            dict(op='sess', db=X, how='default', af=1, slot=0, ops=[[1, 2, 5], [4], [5]]), dict(op='query', db='W', via='dir', q=q1, p=0)])
		out.append([dict(op='contrast', what='rplus', edit=1), dict(op='store', f='W', slot=0, ops=[[0, -1], [2, 0, 5], [3, 1], [5]]),
		            dict(op='contrast', what='rplus', edit=0, hold=1), dict(op='store', f='W', slot=1, ops=[[0, -1], [1, 0], [2, 1, 5]]),
		            dict(op='store', f=X, slot=0, ops=[[0, -1], [2, 0, 5]]), dict(op='cli', db='W', inv=dict(cmd='info-db', flags=['-j']))])
		# commands in process, the same command again, a failing one in between
		cq = dict(cmd='query', n=1, q=[0], fmt='csv')
		out.append([dict(op='cli', db=X, inv=cq), dict(op='cli', db=Y, inv=cq), dict(op='cli', db=X, inv=dict(cq, fail=dict(kind='sql', at=3))),
		            dict(op='cli', db=X, inv=cq), dict(op='cli', db=Y, inv=dict(cmd='dist', n=1, q=[1])), dict(op='cli', db=X, inv=dict(cmd='dist', n=1, q=[1]))])
		# malformed files in between
		out.append([dict(op='badopen', f='trunc'), dict(op='store', f=X, slot=0, ops=[[0, -1], [2, 0, 5], [1, 1]]), dict(op='badopen', f='nothdf'),
		            dict(op='cli', db=X, inv=dict(cmd='info-file', flags=[])), dict(op='badload', d='truncgs'), dict(op='query', db=X, via='dir', q=q2, p=0)])
		out.append([dict(op='badload', d='zerogdb' if X == 'A' else 'truncgdb', via='files'), dict(op='query', db=X, via='files', q=q1, p=0),
		            dict(op='badload', d='twogdb' if X == 'A' else 'notables', via='dir'), dict(op='badopen', f='missing'), dict(op='badload', d='notaxa', via='gset'),
		            dict(op='sess', db=Y, how='default', af=1, slot=0, ops=[[1, 1, 3], [5], [4], [3]]), dict(op='query', db=X, via='files', q=q1, p=0)])
		# one CLI context: data base objects and sessions from it, closed and obtained again
		out.append([dict(op='query', db=X, via='cli', q=q1, p=0), dict(op='sess', db=X, how='cli', af=1, slot=0, ops=[[0, ADD_BASE + 1001, 1], [3], [5]]),
		            dict(op='query', db=X, via='cli2', q=q1, p=0), dict(op='query', db=X, via='cli', q=q1, p=0), dict(op='close', db=X, via='cli'),
		            dict(op='query', db=X, via='cli', q=q1, p=0), dict(op='query', db=Y, via='cli2', q=q1, p=0)])
		# the client edits ORM objects of the data base object in memory; queries (autoflush), flush and commit in between
		out.append([dict(op='query', db=X, via='dir', q=q1, p=0), dict(op='edit', db=X, via='dir', i=3, v=7, flush=1, commit=1),
		            dict(op='query', db=X, via='dir', q=q1, p=0), dict(op='edit', db=Y, via='cli', i=0, v=8, flush=0, commit=1),
		            dict(op='cli', db=X, inv=dict(cmd='querysig')), dict(op='query', db=Y, via='cli', q=q1, p=0)])
		# a second thread that loads the data base itself, while the first keeps its objects
		out.append([dict(op='query', db=X, via='dir', q=q1, p=1), dict(op='query', db=Y, via='fresh', q=q1, p=1, thread=1), dict(op='query', db=X, via='dir', q=q1, p=1),
		            dict(op='cli', db=Y, inv=dict(cmd='querysig'), thread=1), dict(op='dist', db=X, via='fresh', q=q2, chunk=50, thread=1),
		            dict(op='query', db=X, via='dir', q=q1, p=1)])
	return [dict(steps=s) for s in out]


def generate(ctx):
	rng = ctx.rng
	ctx.rule(RULE)
	_env()['campaign'] = True
	# ---- genome file with pending WAL frames (known finding C18-wal-pending-frames on the unchanged repository) ----
	yield 'walpending', dict(name='wal-pending-frames', cmd='query')
	yield 'walpending', dict(name='wal-pending-frames-info', cmd='info')
	# ---- session machine: exhaustive small scope ---------------------------------------------
	alpha = ['a', 'm1', 'd2', 'q', 'f', 'c', 'r', 'x', 't']
	depth = ctx.pick(3, 4)
	n = 0
	for L in range(1, depth + 1):
		for syms in itertools.product(alpha, repeat=L):
			yield 'session', dict(how='default', af=1, ops=_mk_ops(syms))
			n += 1
	for L in range(1, 3):
		for syms in itertools.product(alpha, repeat=L):
			yield 'session', dict(how='default', af=0, ops=_mk_ops(syms))
			yield 'session', dict(how='cli', af=1, ops=_mk_ops(syms))
			yield 'session', dict(how='explicit', af=1, ops=_mk_ops(syms))
			n += 3
	ctx.count('stream:session-exhaustive', n)
	ctx.exhaustive = True
	ctx.extra['exhaustive_scope'] = (f'session: every operation sequence of length <= {depth} over {{add, modify, delete, query, flush, '
	                                 f'commit, rollback, close, transaction-commit}} on the library default session (autoflush on), length <= 2 '
	                                 f'with autoflush off / CLI session / explicit ReadOnlySession; store: every sequence of length <= 3 over '
	                                 f'{{open default, open r, read, write, delete, flush, close}}')
	# ---- session machine: random long histories ------------------------------------------------
	for _ in range(ctx.pick(150, 500)):
		how = rng.choice(['default', 'default', 'cli', 'explicit'])
		yield 'session', dict(how=how, af=rng.choice([0, 1, 1]), ops=_rand_ops(rng, rng.randint(4, 30)))
		ctx.count('stream:session-random')
	# ---- savepoints (begin_nested) on the default / CLI sessions: outside the Coq session machine, judged by
	# the property predicate only (no byte of the genome file changes, no write statement, commit raises) ----
	sp_fixed = [
		[[10], [1, 1, 7], [4], [11]], [[10], [0, 901, 3], [11]], [[13, 1, 5]], [[13, 2, 6], [4], [5]],
		[[1, 1, 7], [10], [4], [11], [5]], [[10], [2, 3], [4], [12]], [[10], [10], [1, 2, 4], [4], [11], [11]],
		[[10], [1, 1, 7], [3], [11]], [[13, 1, 5], [13, 2, 6], [3]], [[10], [1, 4, 2], [4], [6]],
	]
	for how in ('default', 'cli', 'explicit'):
		for ops in sp_fixed:
			yield 'session', dict(how=how, af=1, ops=[list(o) for o in ops])
			ctx.count('stream:session-savepoint')
	for _ in range(ctx.pick(40, 200)):
		ops = []
		for _ in range(rng.randint(2, 10)):
			r = rng.random()
			if r < 0.45:
				ops.append(rng.choice([[10], [11], [12], [13, rng.choice(TRACKED), rng.randint(1, 9)]]))
			else:
				ops.append(_rand_ops(rng, 1)[0])
		yield 'session', dict(how=rng.choice(['default', 'cli', 'explicit']), af=rng.choice([0, 1]), ops=ops)
		ctx.count('stream:session-savepoint')
	# ---- contrast: plain session and raw DML on private copies -----------------------------------
	for syms in (['a', 'c'], ['a', 'q'], ['m1', 'f', 'r'], ['d2', 't'], ['a', 'f', 'x'], ['m1', 'c', 'm1', 'c'], ['a', 'c', 'd2', 'c']):
		yield 'session', dict(how='plain', af=1, ops=_mk_ops(syms))
		ctx.count('stream:session-contrast-plain')
	for _ in range(ctx.pick(25, 250)):
		yield 'session', dict(how='plain', af=rng.choice([0, 1]), ops=_rand_ops(rng, rng.randint(2, 12)))
		ctx.count('stream:session-contrast-plain')
	yield 'session', dict(how='rawdml', af=1, ops=[[9, [1, 1, 99]], [5], [8]])
	for _ in range(ctx.pick(10, 100)):
		yield 'session', dict(how='rawdml', af=1, ops=_rand_ops(rng, rng.randint(2, 10), raw=True))
		ctx.count('stream:session-contrast-rawdml')
	# ---- store: exhaustive small scope, random, contrast ---------------------------------------
	salpha = [[0, -1], [0, 0], [1, 2], [2, 1, 7], [2, 2, 7], [2, 3, 7], [3, 1], [3, 2], [4], [5]]
	n = 0
	for L in range(1, 4):
		for ops in itertools.product(salpha, repeat=L):
			if L == 3 and ops[0][0] != 0:
				continue      # length 3: start with an open (the rest only meets "not open")
			yield 'store', dict(ops=[list(o) for o in ops])
			n += 1
	ctx.count('stream:store-exhaustive', n)
	for _ in range(ctx.pick(40, 400)):
		yield 'store', dict(ops=[[0, rng.choice([-1, 0])]] + _rand_sops(rng, rng.randint(2, 14), [-1, 0]))
		ctx.count('stream:store-random')
	# ---- store: arrays handed out by the opened signature object, modified in place by the caller ------------
	# every (selection form x in-place operation) pair, on a handle opened by default / with an explicit 'r'; in
	# half of the cases the arrays are modified once more after the handle was closed
	n = 0
	for sel in range(NSEL):
		for mut in range(NMUT):
			ix, w = rng.randrange(0, 213), rng.randrange(0, 8)
			ops = [[0, rng.choice([-1, 0])], [6, rng.randrange(0, 6), sel, mut, ix, w], [5]]
			if (sel + mut) % 2:
				ops.append([7, (mut + 1 + sel) % NMUT])
			yield 'store', dict(ops=ops)
			n += 1
	ctx.count('stream:store-inplace', n)
	ctx.extra['exhaustive_scope'] += (f'; store-inplace: every pair (one of {NSEL} ways to obtain arrays from the opened signature '
	                                  f'object, one of {NMUT} numpy in-place operations) at a random index')
	for _ in range(ctx.pick(60, 600)):
		yield 'store', dict(ops=[[0, rng.choice([-1, 0])]] + _rand_sops(rng, rng.randint(2, 12), [-1, 0], inplace=0.6))
		ctx.count('stream:store-inplace-random')
	yield 'store', dict(ops=[[0, 1]])
	yield 'store', dict(ops=[[0, 1], [2, 0, 6], [5]])
	for _ in range(ctx.pick(10, 80)):
		yield 'store', dict(ops=[[0, 1]] + _rand_sops(rng, rng.randint(1, 8), [1], inplace=0.2))
		ctx.count('stream:store-contrast-r+')
	# ---- histories ------------------------------------------------------------------------------
	yield 'history', dict(invs=[dict(cmd='query', n=2, q=[0, 1], fmt='csv'), dict(cmd='dist', n=2, q=[2, 3]),
	                            dict(cmd='info-db', flags=[]), dict(cmd='tree'), dict(cmd='load', n=3, libquery=True),
	                            dict(cmd='libsession', af=1, ops=_mk_ops(['a', 'q', 'm1', 'd2', 'f', 'c', 'q', 't', 'r', 'a', 'c', 'x', 't'])),
	                            dict(cmd='libstore', ops=[[2, 0, 1], [0, 0], [3, 0]]), dict(cmd='query', n=1, q=[4], fmt='json')])
	# ---- histories: a client loads the data base, queries it, inspects signatures and post-processes them in place --
	yield 'history', dict(invs=[dict(cmd='load', n=2, libquery=True, qslice=[40, 1, 1], mut=[[0, 0, 3, 0], [0, 0, 17, 0], [3, 1, 100, 1]],
	                                 close=True, mut_after_close=5),
	                            dict(cmd='query', n=1, q=[0], fmt='csv'), dict(cmd='info-db', flags=['-j'])])
	for _ in range(ctx.pick(14, 100)):
		invs = []
		for _ in range(rng.randint(1, 2)):
			inv = dict(cmd='load', n=rng.randint(1, 3), libquery=rng.random() < 0.35)
			inv['mut'] = [[rng.randrange(NSEL), rng.randrange(NMUT), rng.randrange(0, 213), rng.randrange(0, 8)]
			              for _ in range(rng.randint(1, 4))]
			if inv['libquery'] and rng.random() < 0.6:
				inv['qslice'] = [rng.randrange(0, 213), rng.randrange(0, 3), rng.randrange(NMUT)]
			if rng.random() < 0.5:
				inv['close'] = True
				if rng.random() < 0.6:
					inv['mut_after_close'] = rng.randrange(NMUT)
			if rng.random() < 0.15:
				inv['fail'] = dict(kind='sql', at=rng.randint(1, 9))
			invs.append(inv)
		invs.append(rng.choice([dict(cmd='info-db', flags=['-j']), dict(cmd='info-file', flags=[]),
		                        dict(cmd='libstore', ops=_rand_sops(rng, rng.randint(1, 5), [-1, 0], inplace=0.5)),
		                        dict(cmd='querysig')]))
		rng.shuffle(invs)
		yield 'history', dict(invs=invs)
		ctx.count('stream:history-inplace')
	# ---- histories against a data base whose files are in another persistent state (journal mode WAL / leftover side
	# files / page size / auto_vacuum / freelist / user_version / encoding / read-only on disk / HDF5 format version) ----
	uses = _dbstate_uses()
	per = ctx.pick(2, len(uses))
	rsigs = ctx.pick(('latest', 'latest', 'big', 'big-pad', 'same-pad'),
	                 ('latest', 'latest', 'big', 'big-pad', 'same-pad', 'huge', 'huge-pad', 'big-latest', 'big-latest-pad', 'vast'))
	n = 0
	for k, st in enumerate(DBSTATES):
		# quick: `per` of the uses per state, rotating with the state index and the seed, the first one always a CLI command
		# that opens the genome file; thorough: every use for every state
		start = (k * per + ctx.seed * 5) % len(uses)
		invs = [uses[(start + j) % len(uses)] for j in range(per)]
		if per < len(uses):
			invs = [dict(rng.choice([uses[0], uses[0], uses[7], dict(cmd='query', n=1, q=[rng.randrange(8)], fmt=rng.choice(['csv', 'json']))]))] + invs
		yield 'history', dict(state=dict(st), invs=[dict(i) for i in invs])
		n += 1
	ctx.count('stream:history-dbstate', n)
	ctx.extra['exhaustive_scope'] += (f'; history-dbstate: each of {len(DBSTATES)} persistent states of the data base files x '
	                                  f'{"every one" if per == len(uses) else str(per + 1)} of {len(uses)} read-side uses')
	for _ in range(ctx.pick(10, 150)):
		yield 'history', dict(state=_rand_state(rng, rsigs), invs=[_rand_state_inv(rng) for _ in range(rng.randint(2, ctx.pick(3, 5)))])
		ctx.count('stream:history-dbstate-random')
	# ---- histories against a data base whose SIGNATURE FILE is of another size class (> 1 MiB, > 4 MiB, > 16 MiB: further signatures
	# that match no genome) and / or carries trailing bytes after the HDF5 data: every state x read-side uses, one of them a client
	# PROCESS that is killed while it holds the data base open (a failing command); bytes of both files + open mode after each ----
	suses = _sigsize_uses()
	n = 0
	for k, st in enumerate(ctx.pick(SIGSIZE_STATES_QUICK, SIGSIZE_STATES)):
		j = k + ctx.seed
		if ctx.pick(1, 0):
			invs = [suses[(2 * j) % len(suses)], suses[(2 * j + 1) % len(suses)]]
			if k < 2:
				invs.insert(j % 2, dict(cmd='load', n=2, fail=dict(kind='kill')))
		else:
			invs = suses[j % len(suses):] + suses[:j % len(suses)]
			invs.insert(2 + j % 3, dict(cmd='load', n=1 + j % 3, fail=dict(kind='kill')))
		invs = invs + [dict(cmd='info-db', flags=['-j'])]
		yield 'history', dict(state=json.loads(json.dumps(st)), invs=[json.loads(json.dumps(i)) for i in invs])
		n += 1
	ctx.count('stream:history-sigsize', n)
	ctx.extra['exhaustive_scope'] += (f'; history-sigsize: each of {n} size classes / trailing-byte states of the signature file x '
	                                  f'{"every one" if not ctx.pick(1, 0) else "3-4"} of {len(suses) + 2} read-side uses')
	# ---- histories against an INCOMPLETE / FOREIGN genome file (a model table / an index / a column missing, unknown tables and
	# columns, no or two genome sets, a zero-byte / non-SQLite / truncated / empty / foreign SQLite file under the .gdb name):
	# the library's ways to load a data base, CLI commands, sessions -- most of them FAIL there; bytes compared after each ----
	loads, clis, sess = _schema_loads(), _schema_clis(), _schema_sessions()
	n = 0
	for k, st in enumerate(SCHEMA_STATES):
		j = k + ctx.seed
		if ctx.pick(1, 0):
			# quick: one CLI command, one session, three of the eight loads (always >= 2 entry points, >= 1 of them load_genomeset /
			# ReferenceDatabase.load / load_from_dir), rotating with the state index and the seed
			invs = [clis[j % len(clis)], loads[j % len(loads)], sess[j % len(sess)], loads[(j + 3) % len(loads)], loads[(j + 5) % len(loads)]]
		else:
			invs = loads[j % len(loads):] + loads[:j % len(loads)] + clis + sess
			invs = invs[:3] + [clis[j % len(clis)]] + invs[3:]
		yield 'history', dict(state=json.loads(json.dumps(st)), invs=[json.loads(json.dumps(i)) for i in invs])
		n += 1
	ctx.count('stream:history-dbschema', n)
	ctx.extra['exhaustive_scope'] += (f'; history-dbschema: each of {len(SCHEMA_STATES)} incomplete / foreign genome files x '
	                                  f'{"every one" if not ctx.pick(1, 0) else "5"} of {len(loads) + len(clis) + len(sess)} read-side uses '
	                                  f'({len(loads)} library loads through load_from_dir / load / locate_files + load / load_genomeset / CLIContext.get_database)')
	for _ in range(ctx.pick(14, 200)):
		yield 'history', dict(state=_rand_schema_state(rng), invs=[_rand_schema_inv(rng) for _ in range(rng.randint(2, ctx.pick(4, 6)))])
		ctx.count('stream:history-dbschema-random')
	trees = ctx.pick(2, 8)
	for _ in range(ctx.pick(36, 200)):
		invs = []
		for _ in range(rng.randint(2, 6)):
			inv = _rand_inv(rng, trees > 0)
			if inv['cmd'] == 'tree' and not inv.get('fail'):
				trees -= 1
			invs.append(inv)
		yield 'history', dict(invs=invs)
		ctx.count('stream:history-random')
	# malformed stream: histories made (almost) only of failing invocations
	for _ in range(ctx.pick(12, 100)):
		invs = []
		for _ in range(rng.randint(2, 5)):
			cmd = rng.choice(['query', 'query', 'querysig', 'dist', 'create', 'load', 'info-file'])
			inv = dict(cmd=cmd, n=rng.randint(1, 2), q=[rng.randrange(8), rng.randrange(8)])
			if cmd in ('query', 'querysig', 'load'):
				inv['fail'] = rng.choice([dict(kind='sql', at=rng.randint(1, 12)), dict(kind='badfile'), dict(kind='badarg')]) \
					if cmd == 'query' else dict(kind='sql', at=rng.randint(1, 12))
			elif cmd == 'info-file':
				inv['fail'] = dict(kind='badarg')
			else:
				inv['fail'] = dict(kind=rng.choice(['badarg', 'badfile', 'badout', 'nodb']))
			invs.append(inv)
		invs.append(dict(cmd='info-db', flags=['-j']))
		yield 'history', dict(invs=invs)
		ctx.count('stream:history-malformed')
	# ---- sequences of calls over a pool of shared long-lived objects (docstring: state and aliasing) ---------------
	for c in _fixed_seqs():
		yield 'sequence', c
		ctx.count('stream:sequence-fixed')
	for _ in range(ctx.pick(44, 600)):
		yield 'sequence', _rand_seq(rng)
		ctx.count('stream:sequence-random')
