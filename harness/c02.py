"""C02 -- Jaccard distance = |A xor B| / |A or B|, rounded once to float32.

Tie: T (Gen/MetricPyx.v regenerated from metric.pyx/types.pxd) + B: the compiled kernel through
gambit.metric.jaccarddist / jaccard, the generated model, and an independent integer oracle for
"the exact ratio rounded once to binary32 (nearest, ties to even)" are run on the same pairs."""
import itertools

import numpy as np

PROP = 'C02'
RULE = ('pairs of sorted duplicate-free integer arrays x dtype pairs x both argument orders; non-trivial: '
        'non-empty intersection and neither set contained in the other')
TRUSTED = ['tools/pyx2v.py (Cython subset -> Gallina; C integer / binary32 semantics as documented in its header)',
           'Flocq 4 binary32 model of C float division on this platform (validated bit-for-bit by the run)',
           'harness oracle round_ratio_f32 (exact integer implementation of round-to-nearest-even)']
ASSUMPTIONS = ['inputs are sorted and duplicate-free (outside that the property says nothing)',
               'C comparison of unsigned values of different widths is value-preserving',
               'array lengths < 2^62 (intptr_t arithmetic does not overflow)']

DTYPES = ['u2', 'u4', 'u8', 'i2', 'i4', 'i8']
KIND = {'u': 0, 'i': 1}


def setup(ctx):
	from vf import impl
	impl.check_import()


def round_ratio_f32(s, u):
	"""bits of the binary32 nearest (ties-to-even) to s/u, 0 <= s <= u, u > 0 -- integers only"""
	if s == 0:
		return 0
	# find e with 2^e <= s/u < 2^(e+1)
	e = s.bit_length() - u.bit_length()
	if (s << max(0, -e)) < (u << max(0, e)):
		e -= 1
	# normal range only (s/u >= 2^-126 always holds here for u < 2^100)
	# mantissa m = round(s/u * 2^(23-e)) in [2^23, 2^24]
	sh = 23 - e
	num = s << sh if sh >= 0 else s
	den = u if sh >= 0 else u << (-sh)
	q, r = divmod(num, den)
	if 2 * r > den or (2 * r == den and (q & 1)):
		q += 1
	if q == 1 << 24:
		q >>= 1
		e += 1
	return ((e + 127) << 23) + (q - (1 << 23))


def f32_bits(x):
	return int(np.array([x], dtype=np.float32).view(np.uint32)[0])


def f64_bits(x):
	return int(np.array([x], dtype=np.float64).view(np.uint64)[0])


def _arr(vals, dt):
	"""values (possibly >= 2^63) -> array of dtype dt holding the same bit patterns"""
	a = np.array(vals, dtype='u' + dt[1])
	return a if dt[0] == 'u' else a.view(dt)


def k_pair(ctx, cases):
	from gambit.metric import jaccarddist, jaccard
	small = [i for i, c in enumerate(cases) if len(c['a']) + len(c['b']) <= 600]
	reqs = []
	for i in small:
		c = cases[i]
		ka, sa = KIND[c['da'][0]], int(c['da'][1])
		kb, sb = KIND[c['db'][0]], int(c['db'][1])
		reqs += [(205, [ka, sa, c['a'], kb, sb, c['b']]), (206, [ka, sa, c['a'], kb, sb, c['b']]), (203, [c['a'], c['b']])]
	ans = ctx.model(reqs) if ctx.model_ok else None
	big_reqs = []
	for i, c in enumerate(cases):
		A, B = set(c['a']), set(c['b'])
		s, u = len(A ^ B), len(A | B)
		c['_su'] = (s, u)
		big_reqs.append((204, [s, u]))
	ratios = ctx.model(big_reqs) if ctx.model_ok else None
	pos = {i: n for n, i in enumerate(small)}
	for i, c in enumerate(cases):
		s, u = c.pop('_su')
		a, b = _arr(c['a'], c['da']), _arr(c['b'], c['db'])
		inter = len(c['a']) + len(c['b']) - u
		nontriv = inter > 0 and inter < len(c['a']) and inter < len(c['b'])
		ctx.case(c if len(c['a']) + len(c['b']) < 40 else dict(na=len(c['a']), nb=len(c['b']), da=c['da'], db=c['db'], s=s, u=u),
		         nontrivial=nontriv)
		d1 = jaccarddist(a, b)
		d2 = jaccarddist(b, a)
		j1 = jaccard(a, b)
		bits = f32_bits(d1)
		want = round_ratio_f32(s, u) if u else 0
		if u <= (1 << 24) and bits != want:
			ctx.violation('pair', c, f'jaccarddist = {float(d1)!r} (bits {bits}) but |A^B|/|AuB| = {s}/{u} rounds to bits {want}',
			              impl=bits, spec=want)
			continue
		if f32_bits(d2) != bits:
			ctx.violation('pair', c, f'distance not symmetric: {float(d1)!r} vs {float(d2)!r}', impl=bits, swapped=f32_bits(d2))
			continue
		# the same pair through the bulk entry points (any mix of integer types, any container)
		if len(c['a']) + len(c['b']) <= 4000:
			from gambit.metric import jaccarddist_array
			from gambit.sigs.base import SignatureArray
			bulk = {'jaccarddist_array(a, SignatureArray([b]))': f32_bits(jaccarddist_array(a, SignatureArray([b]))[0]),
			        'jaccarddist_array(b, SignatureArray([a]))': f32_bits(jaccarddist_array(b, SignatureArray([a]))[0]),
			        'jaccarddist_array(a, [b])': f32_bits(jaccarddist_array(a, [b])[0])}
			badb = [k for k, v in bulk.items() if v != bits]
			if badb:
				ctx.violation('pair', c, f'{badb[0]} has bits {bulk[badb[0]]} but jaccarddist(a, b) has bits {bits} (dtypes {c["da"]}, {c["db"]})',
				              impl=bulk, pairwise=bits)
				continue
		jb = f64_bits(j1)
		jwant = f64_bits(1.0 - float(np.float32(d1)))
		if jb != jwant:
			ctx.violation('pair', c, f'jaccard = {j1!r} is not 1 - distance = {1.0 - float(d1)!r}', impl=jb, spec=jwant)
			continue
		if ans is None:
			continue
		if ratios[i] != bits:
			if u <= (1 << 24):
				ctx.violation('pair', c, f'metric.pyx as translated: (float){s}/(float){u} has bits {ratios[i]}, compiled kernel returns {bits}',
				              impl=bits, model=ratios[i], spec=want)
			else:
				ctx.broke('correspondence pair (ratio_f32 beyond 2^24)', f's={s} u={u} impl={bits} model={ratios[i]}')
			continue
		if i in pos:
			md, mj, counts = ans[3 * pos[i]], ans[3 * pos[i] + 1], ans[3 * pos[i] + 2]
			if counts[0] != s or counts[1] != u:
				ctx.broke('harness/spec count mismatch', f'{c}: spec {counts} harness {(s, u)}')
			if md != [0, bits]:
				# the model regenerated from metric.pyx disagrees with the correctly rounded ratio
				if md[0] == 0 and u <= (1 << 24) and md[1] != want:
					ctx.violation('pair', c, f'metric.pyx as translated returns bits {md[1]} for |A^B|/|AuB| = {s}/{u} '
					              f'(correctly rounded: {want}; compiled kernel: {bits})', impl=bits, model=md, spec=want)
				else:
					ctx.broke('correspondence pair (jaccarddist)', f'{c}: impl bits {bits}, model {md}')
			elif mj != [0, jb]:
				ctx.broke('correspondence pair (jaccard)', f'{c}: impl bits {jb}, model {mj}')


def k_dtype(ctx, cases):
	"""dtype acceptance of the wrapper: every call either returns the exact value or raises; native
	16/32/64-bit signed/unsigned integers must be accepted, everything else (other widths, other
	kinds, non-native byte order) must not silently give a different number"""
	from gambit.metric import jaccarddist, jaccard, jaccarddist_array
	A = [1, 2, 3, 256, 300, 1000]
	B = [2, 3, 4, 256, 300, 1001, 4000]
	s, u = len(set(A) ^ set(B)), len(set(A) | set(B))
	want = round_ratio_f32(s, u)
	for c in cases:
		dt = np.dtype(c['dtype'])
		ctx.case(c, nontrivial=True)
		native_int = dt.kind in 'iu' and dt.isnative
		ok_expected = native_int and dt.itemsize in (2, 4, 8)
		try:
			a = np.array(A, dtype=dt)
			b = np.array(B, dtype=dt)
		except Exception:
			continue
		exact_values = dt.kind in 'iuf' and [int(x) for x in a.tolist()] == A and [int(x) for x in b.tolist()] == B
		for other in ('u2', 'i4', 'u8'):
			calls = [('jaccarddist(x,native)', lambda: f32_bits(jaccarddist(a, np.array(B, dtype=other)))),
			         ('jaccarddist(native,x)', lambda: f32_bits(jaccarddist(np.array(A, dtype=other), b))),
			         ('jaccarddist_array(x,[native])', lambda: f32_bits(jaccarddist_array(a, [np.array(B, dtype=other)])[0])),
			         ('jaccarddist_array(native,[x])', lambda: f32_bits(jaccarddist_array(np.array(A, dtype=other), [b])[0]))]
			for name, fn in calls:
				try:
					r = fn()
					ok = True
				except Exception as e:
					r = type(e).__name__
					ok = False
				if ok and exact_values and r != want:
					ctx.violation('dtype', c, f'{name} with dtype {dt.str} (other side {other}) silently returned bits {r}, '
					              f'the distance of the values is {s}/{u} -> bits {want}', impl=r, spec=want)
				elif ok_expected and not ok:
					ctx.violation('dtype', c, f'{name} with dtype {dt.str} raised {r}; 16/32/64-bit native integers must be accepted', impl=r)
		if ctx.model_ok:
			kind = {'u': 0, 'i': 1}.get(dt.kind, 2) if dt.isnative else 2
			m = ctx.model([(205, [kind, dt.itemsize, [0, 1, 2], 0, 2, [0, 1]])])[0]
			try:
				jaccarddist(np.zeros(3, dtype=dt) if dt.kind not in 'iu' else np.arange(3, dtype=dt), np.arange(2, dtype='u2'))
				acc = True
			except Exception:
				acc = False
			if (m[0] == 0) != acc and not (acc and not ok_expected):
				ctx.broke('correspondence dtype', f'{dt.str}: model {m}, implementation accepted={acc}')


def k_big(ctx, cases):
	"""named large inputs (known findings of DESIGN.md section 6-g)"""
	from gambit.metric import jaccarddist
	for c in cases:
		if c['name'] == 'union_2p24_plus_1':
			a = np.arange(0, 2 ** 24 - 1, dtype='u4')
			b = np.arange(2, 2 ** 24 + 1, dtype='u4')
			s, u = 4, 2 ** 24 + 1
		elif c['name'] == 'union_exactly_2p24':
			a = np.arange(0, 2 ** 24 - 1, dtype='u4')
			b = np.arange(1, 2 ** 24, dtype='u4')
			s, u = 2, 2 ** 24
		else:
			continue
		ctx.case(c, nontrivial=True)
		bits = f32_bits(jaccarddist(a, b))
		want = round_ratio_f32(s, u)
		if bits != want:
			ctx.violation('big', c, f'both sets have fewer than 2^24 elements but |AuB| = {u}: jaccarddist bits {bits}, '
			              f'{s}/{u} correctly rounded has bits {want}', impl=bits, spec=want)


KINDS = {'pair': k_pair, 'dtype': k_dtype, 'big': k_big}
SHRINK = False


def _place(sub, base):
	return [base + x for x in sub]


def generate(ctx):
	rng = ctx.rng
	ctx.rule(RULE)
	n = ctx.pick(6, 7)
	subsets = [[i for i in range(n) if m >> i & 1] for m in range(1 << n)]
	# exhaustive: all pairs of subsets of an n-element universe, at the bottom of the range
	combos = [(x, y) for x in DTYPES for y in DTYPES]
	ci = 0
	for A in subsets:
		for B in subsets:
			da, db = combos[ci % 36]
			ci += 1
			yield 'pair', dict(a=A, b=B, da=da, db=db)
	ctx.count('stream:exhaustive-subset-pairs', len(subsets) ** 2)
	ctx.exhaustive = True
	ctx.extra['exhaustive_scope'] = f'all pairs of subsets of a {n}-element universe (dtype pair cycling through all 36); all 36 dtype pairs on a fixed family; top-of-range placements'
	# all 36 dtype pairs x a family of shapes, values at the top of each range
	fam = [([], []), ([0], []), ([0], [0]), ([0, 1, 2], [1, 2, 3]), ([0, 2, 4], [1, 3, 5]), ([0, 1, 2, 3], [1, 2]),
	       ([5], [0, 1, 2, 3, 4, 5]), ([0, 1, 2, 3, 4, 5], [5])]
	for da, db in combos:
		top = min(2 ** (8 * int(da[1])), 2 ** (8 * int(db[1]))) - 8
		for A, B in fam:
			yield 'pair', dict(a=A, b=B, da=da, db=db)
			yield 'pair', dict(a=_place(A, top), b=_place(B, top), da=da, db=db)
		ctx.count('stream:dtype-pairs')
	# values around 2^63 (signed 64-bit arrays viewed as unsigned)
	for da, db in (('u8', 'i8'), ('i8', 'i8'), ('u8', 'u8')):
		for A, B in fam:
			yield 'pair', dict(a=_place(A, 2 ** 63 - 3), b=_place(B, 2 ** 63 - 3), da=da, db=db)
	# one array in a wider type holding values beyond the other's range (residues collide mod 2^16 / 2^32)
	for da, db, lim in (('u4', 'u2', 2 ** 16), ('i4', 'u2', 2 ** 16), ('u8', 'u2', 2 ** 16), ('i8', 'i2', 2 ** 15),
	                    ('u8', 'u4', 2 ** 32), ('i8', 'u4', 2 ** 32), ('u8', 'i4', 2 ** 31)):
		for _ in range(ctx.pick(4, 30)):
			small = sorted(rng.sample(range(min(lim, 3000)), rng.randint(1, 8)))
			big = sorted({lim * rng.randint(1, 3) + x for x in rng.sample(small, rng.randint(1, len(small)))})
			A = sorted(set(rng.sample(small, rng.randint(0, len(small)))) | set(big))
			ctx.count('stream:wider-than-other')
			yield 'pair', dict(a=A, b=small, da=da, db=db)
	# random structured pairs
	nrand = ctx.pick(300, 3000)
	for _ in range(nrand):
		shape = rng.choice(['equal', 'disjoint', 'nested', 'interleaved', 'lasteq', 'short-long', 'random'])
		da, db = rng.choice(DTYPES), rng.choice(DTYPES)
		lim = min(2 ** (8 * int(da[1])), 2 ** (8 * int(db[1])))
		size = rng.choice([1, 2, 3, 8, 50, 400, 3000]) if ctx.quick else rng.choice([1, 2, 3, 8, 50, 400, 3000, 40000])
		size = min(size, lim // 4)
		pool = sorted(rng.sample(range(min(lim, size * 6 + 4)), min(size * 2 + 2, min(lim, size * 6 + 4))))
		if shape == 'equal':
			A = B = pool[:size]
		elif shape == 'disjoint':
			A, B = pool[0::2][:size], pool[1::2][:size]
		elif shape == 'nested':
			A = pool[:size]
			B = sorted(rng.sample(A, max(0, len(A) // 2)))
		elif shape == 'interleaved':
			A = pool[0::2]
			B = sorted(set(pool[1::2]) | set(rng.sample(A, len(A) // 3)))
		elif shape == 'lasteq':
			A = sorted(set(rng.sample(pool[:-1], len(pool) // 3)) | {pool[-1]})
			B = sorted(set(rng.sample(pool[:-1], len(pool) // 2)) | {pool[-1]})
		elif shape == 'short-long':
			A = pool[:2]
			B = pool
		else:
			A = sorted(rng.sample(pool, rng.randint(0, len(pool))))
			B = sorted(rng.sample(pool, rng.randint(0, len(pool))))
		ctx.count('stream:random-' + shape)
		yield 'pair', dict(a=list(A), b=list(B), da=da, db=db)
	# dtype acceptance (malformed stream)
	for dt in ['u1', 'i1', 'u2', 'i2', 'u4', 'i4', 'u8', 'i8', 'f2', 'f4', 'f8', 'bool', 'c8', 'S1', 'O',
	           '>u2', '>i2', '>u4', '>i4', '>u8', '>i8', '<u2', '<i4', '=u8']:
		ctx.count('stream:malformed-dtype')
		yield 'dtype', dict(dtype=dt)
	yield 'big', dict(name='union_exactly_2p24')
	yield 'big', dict(name='union_2p24_plus_1')
