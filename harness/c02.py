"""C02 -- Jaccard distance = |A xor B| / |A or B|, rounded once to float32.

Tie: T (Gen/MetricPyx.v regenerated from metric.pyx/types.pxd) + B: the compiled kernel through
gambit.metric.jaccarddist / jaccard, the generated model, and an independent integer oracle for
"the exact ratio rounded once to binary32 (nearest, ties to even)" are run on the same pairs.

Coverage table (item of the property text -> stream(s) that drive it ON THE IMPLEMENTATION; P = the
property predicate is judged there, M = also compared with the Coq model):
  distance = ratio rounded once        exhaustive-subset-pairs, dtype-pairs, random-* (PM); every new stream (P)
  result IS a binary32 value           pair + every new stream: float(d) == float(float32(d)) (P)  [was hidden by f32_bits]
  bit-exact below 2^24 elements        big (2 named), gen-large: 2*10^4 .. 10^6 elements, full 16-bit range (P, M op 204)
  two empty sets -> 0                  exhaustive, dtype-pairs (all 36), form-layouts (empty strided/offset views) (PM)
  jaccard = 1 - distance               pair: jaccard(a,b) AND jaccard(b,a); form: positional/keyword/extension/self (PM)
  empty/equal/disjoint/nested/interl.  exhaustive (all subset pairs of a 6-universe), random-*, top-of-range, bulk
  top of each integer range            dtype-pairs (2^bits-8), form top-of-range: windows hugging EACH array's own
                                       dtype maximum (signed max 2^(b-1)-1 and unsigned max), 2^15/16/31/32/63 boundaries,
                                       wide array at its own top vs narrow array, residue collisions (PM)
  6x6 dtype pairs x both orders        dtype-pairs, form-layouts (every dtype x every layout, both sides), bulk 6x6
  API jaccarddist / jaccard            positional (pair), keyword coords1=/coords2=, gambit._cython.metric.* on unsigned
                                       views, same object for both arguments, repeated call (form) (P)
  memory layout / container            form-layouts: contiguous, stride 2/3 with misleading garbage, negative stride,
                                       interior slice, 2-D column / row, packed-record field (unaligned), ndarray
                                       subclass, bytearray-backed, np.memmap (w+, c), read-only, read-only memmap
                                       (read-only: exact or ValueError, refusals counted in evidence) (PM)
  caller objects reused across calls   reuse: same buffers / same array objects overwritten in place between calls (same
                                       length, first, last element), reused out= array, reused SignatureArray (P)
  containers MUTATED between calls     mutate: ONE mutable reference container (SignatureList, plain list, AnnotatedSignatures
                                       over a SignatureList, SignatureArray written through its member views) kept across a
                                       SEQUENCE bulk call / mutation / bulk call ...: every container kind x every mutation it
                                       supports -- setitem (int, negative, member of another dtype), slice assignment (equal
                                       length, extended step, other length), reverse, swap, sort (list.sort / sl[:] = sorted),
                                       in-place write into a member array, delitem, delslice, insert, append, extend, +=, pop,
                                       clear-and-refill, the same array object held twice -- members all of the container's
                                       dtype (two thirds), later of other dtypes, or mixed; after the mutations
                                       jaccarddist_array (fresh / kept out=), jaccarddist per member, jaccarddist_matrix
                                       (chunksize), jaccarddist_pairwise (square / flat) and an alias container built at the
                                       start from the same array objects: every cell judged against the CURRENT members (P)
  entry points reaching the kernel     pair: jaccarddist_array x 1 reference; bulk: jaccarddist_array (SignatureArray,
                                       slice view with non-zero base, fancy index, non-intp bounds, list/tuple/
                                       SignatureList, HDF5-backed file, out= contiguous/strided/reused, keywords, empty),
                                       jaccarddist_matrix (chunksize, ref_indices, out=), jaccarddist_pairwise (flat,
                                       indices), 1/2/5/default OpenMP threads, 4 concurrent Python threads (P)
  any mix of types INSIDE a collection mixed: reference / query / pairwise collections (list, tuple, SignatureList and its
                                       slices / fancy indices, reversed) whose ELEMENTS have different dtypes: all 36
                                       ordered (first, later) dtype pairs, narrow-first, wide-first, same width signed /
                                       unsigned, alternating, all six, odd one last, first element empty, empty elements of
                                       another dtype, equal value sets in different dtypes, values at the top of each
                                       element's own range; jaccarddist_array (out=, every element as query), _matrix
                                       (mixed queries x mixed refs, chunksize, ref_indices, mixed queries x SignatureArray),
                                       _pairwise (square, flat, indices); every cell judged (P), query row also (M)
  jaccarddist_matrix argument forms    matrix: nq queries x nr references in every size relation (more queries than references,
                                       fewer, square, one query, one reference, no queries, no references) x the container of
                                       the QUERIES (list, tuple, SignatureList, SignatureArray, SignatureArray view with a
                                       non-zero base) x the container of the REFERENCES (the same five) x chunksize (None, 1,
                                       2, 3, nr-1, nr+1: one chunk, several, ragged last chunk; Python int / np.int64) x
                                       ref_indices (absent / list / intp array, with repeats) x out= (absent / prefilled with
                                       NaN: the array given AND the array returned are judged); either side of one dtype or of
                                       element-wise different dtypes (then without the SignatureArray forms); every cell
                                       (i, j) judged against the pair (queries[i], references[ref_indices[j]]) (P), the pairs
                                       also sent to the model (M op 205).  The container objects of a case are built once and
                                       passed to every call of the case (about 120 calls): a cell is judged after each call, so
                                       anything a call leaves behind in them would show in the next one.
  non-native / non-integer dtypes      malformed-dtype (exact or error)
  NumPy vs Python integers             the two functions take none; bulk passes ref_indices / indices / chunksize both as
                                       Python ints / lists and as NumPy intp arrays / int64 (P)
  not driven here                      `gambit dist` / `gambit query` (cells printed with 4 decimals resp. through a
                                       database: C16, C04, C05 tie them to gambit.metric.jaccarddist); progress= meters;
                                       jaccard_generic / jaccard_bits (separate pure-Python index functions, not named by
                                       the property); options, file names: the two observed functions have none.
Layouts, bulk containers, reuse sequences and gen-large sizes are outside the list-based Coq model: the value
semantics is the same, so form cases are still compared with the model (ops 205/206), gen-large with op 204
(ratio_f32); bulk, reuse and mutate are judged by the property predicate alone; mixed and matrix by the predicate on every
cell, and their (query, element) pairs are also compared with the model (op 205)."""
import itertools

import numpy as np

PROP = 'C02'
RULE = ('pairs of sorted duplicate-free integer arrays x dtype pairs x both argument orders; non-trivial: '
        'non-empty intersection and neither set contained in the other. Audit streams: form-layouts / '
        'top-of-range (in-domain pairs hugging each dtype maximum, in 14 memory layouts, through positional / keyword / '
        'extension / same-object call forms of jaccarddist and jaccard), gen-large (seeded sets of 2*10^4..10^6 '
        'elements), bulk (a collection of signatures through jaccarddist_array / _matrix / _pairwise in every '
        'container, out= form and thread count, every cell judged), reuse (buffers overwritten in place between '
        'calls), mutate (one mutable reference container -- SignatureList, plain list, AnnotatedSignatures over a '
        'SignatureList, SignatureArray member views -- kept across a sequence of bulk calls interleaved with every '
        'mutation it supports: item / negative-index / slice assignment of equal and other length, reverse, swap, sort, '
        'in-place write into a member array, member of another dtype, delete, insert, append, extend, +=, pop, '
        'clear-and-refill, one array object held twice; every cell of every later jaccarddist_array / _matrix / '
        '_pairwise call and of an alias container sharing the array objects is judged against the members held AT THAT '
        'CALL; non-trivial: at least one mutation and some pair of sets of the case is non-trivial), mixed (collections whose ELEMENTS have different integer types -- narrow first, wide first, same width '
        'signed / unsigned, alternating, all six, first element empty, empty elements of another type, each element at '
        'the top of its own range -- as references, queries and pairwise collections in list / tuple / SignatureList '
        'form, every cell judged), matrix (jaccarddist_matrix with more / fewer / as many queries as references, none or one '
        'of either, queries and references each held in a list / tuple / SignatureList / SignatureArray / SignatureArray '
        'view, one chunk / several chunks / ragged last chunk, with and without ref_indices and a NaN-prefilled out=: every '
        'cell of the returned and of the given array judged; non-trivial: some (query, reference) pair is); non-trivial there by the same rule (bulk / reuse: some pair of the case is '
        'non-trivial; mixed: at least two element types differ and some pair is non-trivial)')
TRUSTED = ['tools/pyx2v.py (Cython subset -> Gallina; C integer / binary32 semantics as documented in its header)',
           'Flocq 4 binary32 model of C float division on this platform (validated bit-for-bit by the run)',
           'harness oracle round_ratio_f32 (exact integer implementation of round-to-nearest-even)',
           'NumPy set operations (intersect1d / union1d on uint64 values) as the counting oracle of the gen-large stream',
           'Python set arithmetic on the generated value lists as the counting oracle of every cell of the bulk, mixed, matrix and '
           'reuse streams (the expected pair of a cell is derived from the harness\'s own index lists)',
           'mutate stream: the current members of a container are the harness\'s own replay of the step list on a Python '
           'list of array objects (_mut_model: built-in list semantics for item / slice assignment, del, insert, append, '
           'extend, pop, reverse, stable sort by length; an in-place write changes the object wherever it is held); a '
           'mutation the container itself refuses ends the case unjudged (counted as refused:container-mutation-*)']
ASSUMPTIONS = ['inputs are sorted and duplicate-free (outside that the property says nothing)',
               'C comparison of unsigned values of different widths is value-preserving',
               'array lengths < 2^62 (intptr_t arithmetic does not overflow)']

DTYPES = ['u2', 'u4', 'u8', 'i2', 'i4', 'i8']
KIND = {'u': 0, 'i': 1}


def setup(ctx):
	from vf import impl
	impl.check_import()


def round_ratio_f32(s, u):
	"""bits of the binary32 nearest (ties-to-even) to s/u, 0 <= s <= u, u > 0 -- integers only"""
	if s == 0:
		return 0
	# find e with 2^e <= s/u < 2^(e+1)
	e = s.bit_length() - u.bit_length()
	if (s << max(0, -e)) < (u << max(0, e)):
		e -= 1
	# normal range only (s/u >= 2^-126 always holds here for u < 2^100)
	# mantissa m = round(s/u * 2^(23-e)) in [2^23, 2^24]
	sh = 23 - e
	num = s << sh if sh >= 0 else s
	den = u if sh >= 0 else u << (-sh)
	q, r = divmod(num, den)
	if 2 * r > den or (2 * r == den and (q & 1)):
		q += 1
	if q == 1 << 24:
		q >>= 1
		e += 1
	return ((e + 127) << 23) + (q - (1 << 23))


def f32_bits(x):
	return int(np.array([x], dtype=np.float32).view(np.uint32)[0])


def f64_bits(x):
	return int(np.array([x], dtype=np.float64).view(np.uint64)[0])


def _arr(vals, dt):
	"""values (possibly >= 2^63) -> array of dtype dt holding the same bit patterns"""
	a = np.array(vals, dtype='u' + dt[1])
	return a if dt[0] == 'u' else a.view(dt)


def k_pair(ctx, cases):
	from gambit.metric import jaccarddist, jaccard
	small = [i for i, c in enumerate(cases) if len(c['a']) + len(c['b']) <= 600]
	reqs = []
	for i in small:
		c = cases[i]
		ka, sa = KIND[c['da'][0]], int(c['da'][1])
		kb, sb = KIND[c['db'][0]], int(c['db'][1])
		reqs += [(205, [ka, sa, c['a'], kb, sb, c['b']]), (206, [ka, sa, c['a'], kb, sb, c['b']]), (203, [c['a'], c['b']])]
	ans = ctx.model(reqs) if ctx.model_ok else None
	big_reqs = []
	for i, c in enumerate(cases):
		A, B = set(c['a']), set(c['b'])
		s, u = len(A ^ B), len(A | B)
		c['_su'] = (s, u)
		big_reqs.append((204, [s, u]))
	ratios = ctx.model(big_reqs) if ctx.model_ok else None
	pos = {i: n for n, i in enumerate(small)}
	for i, c in enumerate(cases):
		s, u = c.pop('_su')
		a, b = _arr(c['a'], c['da']), _arr(c['b'], c['db'])
		inter = len(c['a']) + len(c['b']) - u
		nontriv = inter > 0 and inter < len(c['a']) and inter < len(c['b'])
		ctx.case(c if len(c['a']) + len(c['b']) < 40 else dict(na=len(c['a']), nb=len(c['b']), da=c['da'], db=c['db'], s=s, u=u),
		         nontrivial=nontriv)
		d1 = jaccarddist(a, b)
		d2 = jaccarddist(b, a)
		j1 = jaccard(a, b)
		bits = f32_bits(d1)
		want = round_ratio_f32(s, u) if u else 0
		if u <= (1 << 24) and bits != want:
			ctx.violation('pair', c, f'jaccarddist = {float(d1)!r} (bits {bits}) but |A^B|/|AuB| = {s}/{u} rounds to bits {want}',
			              impl=bits, spec=want)
			continue
		# "rounded once to single precision": the reported number itself is a binary32 value (f32_bits above
		# would silently round a double-precision result)
		if not float(d1) == float(np.float32(d1)):
			ctx.violation('pair', c, f'jaccarddist = {float(d1)!r} is not a single-precision value ({s}/{u} rounded once to '
			              f'binary32 is {float(np.array([want], dtype=np.uint32).view(np.float32)[0])!r})', impl=float(d1), spec=want)
			continue
		if f32_bits(d2) != bits:
			ctx.violation('pair', c, f'distance not symmetric: {float(d1)!r} vs {float(d2)!r}', impl=bits, swapped=f32_bits(d2))
			continue
		# the same pair through the bulk entry points (any mix of integer types, any container)
		if len(c['a']) + len(c['b']) <= 4000:
			from gambit.metric import jaccarddist_array
			from gambit.sigs.base import SignatureArray
			bulk = {'jaccarddist_array(a, SignatureArray([b]))': f32_bits(jaccarddist_array(a, SignatureArray([b]))[0]),
			        'jaccarddist_array(b, SignatureArray([a]))': f32_bits(jaccarddist_array(b, SignatureArray([a]))[0]),
			        'jaccarddist_array(a, [b])': f32_bits(jaccarddist_array(a, [b])[0])}
			badb = [k for k, v in bulk.items() if v != bits]
			if badb:
				ctx.violation('pair', c, f'{badb[0]} has bits {bulk[badb[0]]} but jaccarddist(a, b) has bits {bits} (dtypes {c["da"]}, {c["db"]})',
				              impl=bulk, pairwise=bits)
				continue
		jb = f64_bits(j1)
		jwant = f64_bits(1.0 - float(np.float32(d1)))
		if jb != jwant:
			ctx.violation('pair', c, f'jaccard = {j1!r} is not 1 - distance = {1.0 - float(d1)!r}', impl=jb, spec=jwant)
			continue
		j2 = jaccard(b, a)
		if f64_bits(j2) != jwant:
			ctx.violation('pair', c, f'jaccard(b, a) = {j2!r} is not 1 - distance = {1.0 - float(d1)!r} (jaccard(a, b) = {j1!r})',
			              impl=f64_bits(j2), spec=jwant)
			continue
		if ans is None:
			continue
		if ratios[i] != bits:
			if u <= (1 << 24):
				ctx.violation('pair', c, f'metric.pyx as translated: (float){s}/(float){u} has bits {ratios[i]}, compiled kernel returns {bits}',
				              impl=bits, model=ratios[i], spec=want)
			else:
				ctx.broke('correspondence pair (ratio_f32 beyond 2^24)', f's={s} u={u} impl={bits} model={ratios[i]}')
			continue
		if i in pos:
			md, mj, counts = ans[3 * pos[i]], ans[3 * pos[i] + 1], ans[3 * pos[i] + 2]
			if counts[0] != s or counts[1] != u:
				ctx.broke('harness/spec count mismatch', f'{c}: spec {counts} harness {(s, u)}')
			if md != [0, bits]:
				# the model regenerated from metric.pyx disagrees with the correctly rounded ratio
				if md[0] == 0 and u <= (1 << 24) and md[1] != want:
					ctx.violation('pair', c, f'metric.pyx as translated returns bits {md[1]} for |A^B|/|AuB| = {s}/{u} '
					              f'(correctly rounded: {want}; compiled kernel: {bits})', impl=bits, model=md, spec=want)
				else:
					ctx.broke('correspondence pair (jaccarddist)', f'{c}: impl bits {bits}, model {md}')
			elif mj != [0, jb]:
				ctx.broke('correspondence pair (jaccard)', f'{c}: impl bits {jb}, model {mj}')


def k_dtype(ctx, cases):
	"""dtype acceptance of the wrapper: every call either returns the exact value or raises; native
	16/32/64-bit signed/unsigned integers must be accepted, everything else (other widths, other
	kinds, non-native byte order) must not silently give a different number"""
	from gambit.metric import jaccarddist, jaccard, jaccarddist_array
	A = [1, 2, 3, 256, 300, 1000]
	B = [2, 3, 4, 256, 300, 1001, 4000]
	s, u = len(set(A) ^ set(B)), len(set(A) | set(B))
	want = round_ratio_f32(s, u)
	for c in cases:
		dt = np.dtype(c['dtype'])
		ctx.case(c, nontrivial=True)
		native_int = dt.kind in 'iu' and dt.isnative
		ok_expected = native_int and dt.itemsize in (2, 4, 8)
		try:
			a = np.array(A, dtype=dt)
			b = np.array(B, dtype=dt)
		except Exception:
			continue
		exact_values = dt.kind in 'iuf' and [int(x) for x in a.tolist()] == A and [int(x) for x in b.tolist()] == B
		for other in ('u2', 'i4', 'u8'):
			calls = [('jaccarddist(x,native)', lambda: f32_bits(jaccarddist(a, np.array(B, dtype=other)))),
			         ('jaccarddist(native,x)', lambda: f32_bits(jaccarddist(np.array(A, dtype=other), b))),
			         ('jaccarddist_array(x,[native])', lambda: f32_bits(jaccarddist_array(a, [np.array(B, dtype=other)])[0])),
			         ('jaccarddist_array(native,[x])', lambda: f32_bits(jaccarddist_array(np.array(A, dtype=other), [b])[0]))]
			for name, fn in calls:
				try:
					r = fn()
					ok = True
				except Exception as e:
					r = type(e).__name__
					ok = False
				if ok and exact_values and r != want:
					ctx.violation('dtype', c, f'{name} with dtype {dt.str} (other side {other}) silently returned bits {r}, '
					              f'the distance of the values is {s}/{u} -> bits {want}', impl=r, spec=want)
				elif ok_expected and not ok:
					ctx.violation('dtype', c, f'{name} with dtype {dt.str} raised {r}; 16/32/64-bit native integers must be accepted', impl=r)
		if ctx.model_ok:
			kind = {'u': 0, 'i': 1}.get(dt.kind, 2) if dt.isnative else 2
			m = ctx.model([(205, [kind, dt.itemsize, [0, 1, 2], 0, 2, [0, 1]])])[0]
			try:
				jaccarddist(np.zeros(3, dtype=dt) if dt.kind not in 'iu' else np.arange(3, dtype=dt), np.arange(2, dtype='u2'))
				acc = True
			except Exception:
				acc = False
			if (m[0] == 0) != acc and not (acc and not ok_expected):
				ctx.broke('correspondence dtype', f'{dt.str}: model {m}, implementation accepted={acc}')


def k_big(ctx, cases):
	"""named large inputs (known findings of DESIGN.md section 6-g)"""
	from gambit.metric import jaccarddist
	for c in cases:
		if c['name'] == 'union_2p24_plus_1':
			a = np.arange(0, 2 ** 24 - 1, dtype='u4')
			b = np.arange(2, 2 ** 24 + 1, dtype='u4')
			s, u = 4, 2 ** 24 + 1
		elif c['name'] == 'union_exactly_2p24':
			a = np.arange(0, 2 ** 24 - 1, dtype='u4')
			b = np.arange(1, 2 ** 24, dtype='u4')
			s, u = 2, 2 ** 24
		else:
			continue
		ctx.case(c, nontrivial=True)
		bits = f32_bits(jaccarddist(a, b))
		want = round_ratio_f32(s, u)
		if bits != want:
			ctx.violation('big', c, f'both sets have fewer than 2^24 elements but |AuB| = {u}: jaccarddist bits {bits}, '
			              f'{s}/{u} correctly rounded has bits {want}', impl=bits, spec=want)


# ------------------------------------------------------------------------------------------------
# audit streams: memory layouts / call forms, large generated sets, bulk entry points, reuse
# ------------------------------------------------------------------------------------------------

LAYOUTS = ['c', 'stride2', 'stride3', 'rev', 'offset', 'col', 'row', 'field', 'sub', 'bytearray', 'memmap', 'memmap-c',
           'ro', 'memmap-r']
# layouts that a correct implementation may refuse (read-only buffers); it must never return another number
REFUSABLE = {'ro', 'memmap-r'}
_SCRATCH = []


class _Sub(np.ndarray):
	"""an ndarray subclass (what array wrappers hand around)"""


def _dmax(dt):
	bits = 8 * int(dt[1])
	return (1 << (bits - 1)) - 1 if dt[0] == 'i' else (1 << bits) - 1


def _su(a, b):
	A, B = set(a), set(b)
	return len(A ^ B), len(A | B)


def _garbage(n, dt, own, other):
	"""n filler elements of dtype dt that would change the count if they were read: the other array's and the
	own values (and neighbours), cycled"""
	pool = [v for x in list(other) + list(own) for v in (x, x + 1) if 0 <= v <= _dmax(dt)] or [0, 1, 2]
	return _arr([pool[i % len(pool)] for i in range(n)], dt)


def _layout(vals, dt, how, other=()):
	"""an array object of dtype dt whose elements are vals, stored as `how` says"""
	base = _arr(vals, dt)
	n = len(base)
	if how == 'c':
		return base
	if how in ('stride2', 'stride3'):
		k = int(how[-1])
		buf = _garbage(n * k + 2, dt, vals, other)
		v = buf[1:1 + n * k:k]
		v[...] = base
		return v
	if how == 'rev':
		buf = base[::-1].copy()
		return buf[::-1]
	if how == 'offset':
		buf = _garbage(n + 7, dt, vals, other)
		buf[3:3 + n] = base
		return buf[3:3 + n]
	if how == 'col':
		m = _garbage(n * 3, dt, vals, other).reshape(n, 3)
		m[:, 1] = base
		return m[:, 1]
	if how == 'row':
		m = _garbage(n * 3, dt, vals, other).reshape(3, n)
		m[1] = base
		return m[1]
	if how == 'field':
		rec = np.zeros(n, dtype=[('p', 'u1'), ('x', dt), ('y', 'u2')])   # packed: x is not aligned
		rec['p'] = 255
		rec['y'] = 65535
		rec['x'] = base
		return rec['x']
	if how == 'sub':
		return base.view(_Sub)
	if how == 'bytearray':
		return np.frombuffer(bytearray(base.tobytes()), dtype=dt)
	if how == 'ro':
		base.flags.writeable = False
		return base
	if how.startswith('memmap'):
		if n == 0:
			return base[0:0]      # an empty file cannot be mapped
		import os
		from vf import impl
		if not _SCRATCH:
			_SCRATCH.append(impl.scratch_dir())
		path = os.path.join(_SCRATCH[0], f'mm{len(os.listdir(_SCRATCH[0]))}.bin')
		mm = np.memmap(path, dtype=dt, mode='w+', shape=(n,))
		mm[:] = base
		if how == 'memmap':
			return mm
		mm.flush()
		del mm
		return np.memmap(path, dtype=dt, mode='c' if how == 'memmap-c' else 'r', shape=(n,))
	raise ValueError(how)


def _dist_problem(r, s, u):
	"""None when r is what the property says for |A^B| = s, |AuB| = u, else a description"""
	try:
		x = float(r)
	except Exception:
		return f'{r!r} is not a number'
	if x != x:
		return 'nan (not a distance; an output cell that was never written reads like this)'
	if not x == float(np.float32(x)):
		return f'{x!r} is not a single-precision value'
	want = round_ratio_f32(s, u) if u else 0
	if u <= (1 << 24) and f32_bits(x) != want:
		return f'{x!r} (bits {f32_bits(x)}) but |A^B|/|AuB| = {s}/{u} rounds to bits {want}'
	return None


def _index_problem(j, d):
	"""None when the index j is one minus the distance d (double arithmetic on the binary32 distance)"""
	try:
		jb = f64_bits(float(j))
	except Exception:
		return f'{j!r} is not a number'
	if jb != f64_bits(1.0 - float(np.float32(d))):
		return f'{float(j)!r} is not 1 - distance = {1.0 - float(np.float32(d))!r}'
	return None


def k_form(ctx, cases):
	"""one in-domain pair (non-negative values inside each array's own dtype) stored in the given memory layouts,
	through every call form of the two observed functions"""
	from gambit.metric import jaccarddist, jaccard
	import gambit._cython.metric as cm
	reqs = []
	for c in cases:
		ka, sa = KIND[c['da'][0]], int(c['da'][1])
		kb, sb = KIND[c['db'][0]], int(c['db'][1])
		reqs += [(205, [ka, sa, c['a'], kb, sb, c['b']]), (206, [ka, sa, c['a'], kb, sb, c['b']])]
	ans = ctx.model(reqs) if ctx.model_ok and max(len(c['a']) + len(c['b']) for c in cases) <= 600 else None
	for ci, c in enumerate(cases):
		s, u = _su(c['a'], c['b'])
		inter = len(c['a']) + len(c['b']) - u
		ctx.case(c, nontrivial=0 < inter < min(len(c['a']), len(c['b'])))
		x = _layout(c['a'], c['da'], c['la'], c['b'])
		y = _layout(c['b'], c['db'], c['lb'], c['a'])
		if x.tolist() != c['a'] or y.tolist() != c['b'] or x.dtype != np.dtype(c['da']) or y.dtype != np.dtype(c['db']):
			raise RuntimeError(f'harness layout {c["la"]}/{c["lb"]} does not hold the case values')
		refusable = c['la'] in REFUSABLE or c['lb'] in REFUSABLE

		def uv(z):
			return z.view('u' + str(z.dtype.itemsize))
		calls = [('jaccarddist(a, b)', 'd', s, u, lambda: jaccarddist(x, y)),
		         ('jaccarddist(b, a)', 'd', s, u, lambda: jaccarddist(y, x)),
		         ('jaccarddist(coords1=a, coords2=b)', 'd', s, u, lambda: jaccarddist(coords1=x, coords2=y)),
		         ('jaccarddist(coords2=b, coords1=a)', 'd', s, u, lambda: jaccarddist(coords2=y, coords1=x)),
		         ('gambit._cython.metric.jaccarddist(unsigned views of a, b)', 'd', s, u, lambda: cm.jaccarddist(uv(x), uv(y))),
		         ('jaccarddist(a, a) [same object twice]', 'd', 0, len(c['a']), lambda: jaccarddist(x, x)),
		         ('jaccarddist(b, b) [same object twice]', 'd', 0, len(c['b']), lambda: jaccarddist(y, y)),
		         ('jaccard(a, b)', 'j', s, u, lambda: jaccard(x, y)),
		         ('jaccard(b, a)', 'j', s, u, lambda: jaccard(y, x)),
		         ('jaccard(coords1=a, coords2=b)', 'j', s, u, lambda: jaccard(coords1=x, coords2=y)),
		         ('gambit._cython.metric.jaccard(unsigned views of b, a)', 'j', s, u, lambda: cm.jaccard(uv(y), uv(x))),
		         ('jaccard(a, a) [same object twice]', 'j', 0, len(c['a']), lambda: jaccard(x, x)),
		         ('jaccarddist(a, b) [second call on the same objects]', 'd', s, u, lambda: jaccarddist(x, y))]
		first = None
		bad = False
		for name, what, s_, u_, fn in calls:
			try:
				r = fn()
			except Exception as e:
				if refusable and isinstance(e, (ValueError, TypeError, BufferError)):
					ctx.count('refused:read-only-array')
					continue
				ctx.violation('form', c, f'{name} with layouts {c["la"]}/{c["lb"]}, dtypes {c["da"]}/{c["db"]} raised '
				              f'{type(e).__name__}: {e}; the distance of these sorted sets is {s_}/{u_}', impl=type(e).__name__)
				bad = True
				break
			if what == 'd':
				msg = _dist_problem(r, s_, u_)
				if first is None and name == 'jaccarddist(a, b)':
					first = r
			else:
				want = round_ratio_f32(s_, u_) if u_ else 0
				d = float(np.array([want], dtype=np.uint32).view(np.float32)[0])
				msg = _index_problem(r, d) if u_ <= (1 << 24) else None
			if msg:
				ctx.violation('form', c, f'{name} with layouts {c["la"]}/{c["lb"]}, dtypes {c["da"]}/{c["db"]} = {msg}',
				              impl=repr(r), spec=[s_, u_])
				bad = True
				break
		if bad or first is None or ans is None:
			continue
		md, mj = ans[2 * ci], ans[2 * ci + 1]
		if md != [0, f32_bits(first)]:
			ctx.broke('correspondence form (jaccarddist)', f'{c}: impl bits {f32_bits(first)}, model {md}')
		elif mj != [0, f64_bits(1.0 - float(np.float32(first)))]:
			ctx.broke('correspondence form (jaccard)', f'{c}: model {mj}')


def _gen_sets(c):
	"""the two sets of a 'gen' case as sorted uint64 value arrays (legacy RandomState: stable streams)"""
	r = np.random.RandomState(c['seed'])
	m = min(_dmax(c['da']), _dmax(c['db']))
	n = min(c['n'], m + 1)
	if c['place'] == 'full':
		pool = np.arange(0, n, dtype=np.uint64) + np.uint64(m + 1 - n)        # every value up to the narrower maximum
	else:
		span = m + 1 if c['place'] == 'spread' else min(m + 1, 3 * n)
		pool = np.unique(r.randint(0, span, size=n + n // 2, dtype=np.uint64))[:n]
		if c['place'] == 'top':
			pool = (np.uint64(m) - pool)[::-1]
	tag = r.randint(0, 8, size=len(pool))
	both = tag < c['ov']
	if c['shape'] == 'nested':
		in_a, in_b = np.ones(len(pool), bool), both
	elif c['shape'] == 'equal':
		in_a = in_b = np.ones(len(pool), bool)
	elif c['shape'] == 'disjoint':
		in_a, in_b = tag % 2 == 0, tag % 2 == 1
	else:
		in_a, in_b = both | (tag % 2 == 0), both | (tag % 2 == 1)
	return pool[in_a], pool[in_b]


def k_gen(ctx, cases):
	"""large seeded sets (described by parameters, built with NumPy; |A|, |B| < 2^24)"""
	from gambit.metric import jaccarddist, jaccard, jaccarddist_array
	for c in cases:
		va, vb = _gen_sets(c)
		inter = int(np.intersect1d(va, vb, assume_unique=True).size)
		u = len(va) + len(vb) - inter
		s = u - inter
		if int(np.union1d(va, vb).size) != u:
			raise RuntimeError('harness oracle: union count mismatch')
		ctx.case(c, nontrivial=0 < inter < min(len(va), len(vb)))
		a = va.astype('u' + c['da'][1]).view(c['da'])
		b = vb.astype('u' + c['db'][1]).view(c['db'])
		if c.get('strided'):
			buf = np.zeros(2 * len(a) + 1, dtype=a.dtype)      # a's elements at the odd positions, zeros between
			buf[1::2] = a
			a = buf[1::2]
		calls = [('jaccarddist(a, b)', lambda: jaccarddist(a, b)), ('jaccarddist(b, a)', lambda: jaccarddist(b, a)),
		         ('jaccarddist_array(a, [b])[0]', lambda: jaccarddist_array(a, [b])[0])]
		d = None
		for name, fn in calls:
			r = fn()
			msg = _dist_problem(r, s, u)
			if msg:
				ctx.violation('gen', c, f'{name} on seeded sets of {len(va)} and {len(vb)} elements (dtypes {c["da"]}/{c["db"]}) = {msg}',
				              impl=repr(r), spec=[s, u])
				break
			d = r if d is None else d
		else:
			for name, fn in (('jaccard(a, b)', lambda: jaccard(a, b)), ('jaccard(b, a)', lambda: jaccard(b, a))):
				msg = _index_problem(fn(), d)
				if msg:
					ctx.violation('gen', c, f'{name} on seeded sets of {len(va)} and {len(vb)} elements = {msg}', spec=[s, u])
					break
			else:
				if ctx.model_ok and u:
					m = ctx.model([(204, [s, u])])[0]
					if m != f32_bits(d):
						ctx.broke('correspondence gen (ratio_f32)', f's={s} u={u} impl={f32_bits(d)} model={m}')


def k_bulk(ctx, cases):
	"""a collection of signatures (all of dtype dr) and a query (dtype dq) through every bulk entry point that
	reaches the kernel; every cell must be the property value of the pair it stands for.  Property predicate only."""
	from concurrent.futures import ThreadPoolExecutor
	from gambit.metric import jaccarddist_array, jaccarddist_matrix, jaccarddist_pairwise
	from gambit.sigs.base import SignatureArray, SignatureList
	from gambit._cython.threads import omp_set_num_threads, omp_get_max_threads
	for c in cases:
		sigs, qv = c['sigs'], c['q']
		n = len(sigs)
		refs = [_arr(x, c['dr']) for x in sigs]
		q = _arr(qv, c['dq'])
		su = {}

		def exp(i, j):
			"""(s, u) of the pair: index -1 is the query"""
			key = (min(i, j), max(i, j))
			if key not in su:
				su[key] = _su(qv if key[0] < 0 else sigs[key[0]], qv if key[1] < 0 else sigs[key[1]])
			return su[key]
		nontriv = any(0 < len(set(qv) & set(x)) < min(len(qv), len(x)) for x in sigs)
		ctx.case(c, nontrivial=nontriv)
		sa = SignatureArray(refs, dtype=np.dtype(c['dr']))
		perm = np.array(c['perm'], dtype=np.intp) if c.get('npidx') else c['perm']      # index list or NumPy index array
		lo = min(1, n)
		nan = np.float32('nan')
		forms = []     # (name, callable -> flat sequence of cells, list of (i, j) pairs the cells stand for)

		def add(name, fn, pairs):
			forms.append((name, fn, pairs))
		qrow = [(-1, j) for j in range(n)]
		add('jaccarddist_array(q, SignatureArray)', lambda: jaccarddist_array(q, sa), qrow)
		add('jaccarddist_array(query=q, refs=SignatureArray, out=new array)',
		    lambda: jaccarddist_array(query=q, refs=sa, out=np.full(n, nan, dtype=np.float32)), qrow)

		def strided_out():
			big = np.full(2 * n + 1, nan, dtype=np.float32)
			r = jaccarddist_array(q, sa, out=big[1::2])
			return list(big[1::2]) + list(r)
		add('jaccarddist_array(q, SignatureArray, out=strided view): out then returned', strided_out, qrow + qrow)

		def reused_out():
			o = np.full(n, nan, dtype=np.float32)
			first = list(jaccarddist_array(refs[0], sa, out=o)) if n else []
			return first + list(jaccarddist_array(q, refs, out=o)) + list(o)
		add('out= array reused for a second query (list path)', reused_out, ([(0, j) for j in range(n)] if n else []) + qrow + qrow)
		add('jaccarddist_array(q, SignatureArray[1:]) [view, non-zero base]', lambda: jaccarddist_array(q, sa[lo:]), qrow[lo:])
		add('jaccarddist_array(q, SignatureArray[perm])', lambda: jaccarddist_array(q, sa[perm]), [(-1, j) for j in c['perm']])
		for bt in ('i4', 'u8', 'u2'):
			if sa.bounds[-1] <= 60000:
				add(f'jaccarddist_array(q, SignatureArray with {bt} bounds)',
				    lambda bt=bt: jaccarddist_array(q, SignatureArray.from_arrays(sa.values, sa.bounds.astype(bt), None)), qrow)
		add('jaccarddist_array(q, list)', lambda: jaccarddist_array(q, list(refs)), qrow)
		add('jaccarddist_array(q, tuple)', lambda: jaccarddist_array(q, tuple(refs)), qrow)
		add('jaccarddist_array(q, SignatureList)', lambda: jaccarddist_array(q, SignatureList(refs, dtype=np.dtype(c['dr']))), qrow)
		add('jaccarddist_array(ref[i], SignatureArray) for every i',
		    lambda: [v for i in range(n) for v in jaccarddist_array(refs[i], sa)], [(i, j) for i in range(n) for j in range(n)])
		queries = [q] + refs[:2]
		qidx = [-1] + list(range(min(2, n)))
		for cs in c['chunks']:
			add(f'jaccarddist_matrix(queries, SignatureArray, chunksize={cs})',
			    lambda cs=cs: jaccarddist_matrix(queries, sa, chunksize=np.int64(cs) if cs and c.get('npidx') else cs).ravel(),
			    [(i, j) for i in qidx for j in range(n)])
		add('jaccarddist_matrix(queries=list, refs=list, ref_indices=perm, chunksize=2, out=given)',
		    lambda: jaccarddist_matrix(queries=queries, refs=list(refs), ref_indices=perm, chunksize=2,
		                               out=np.full((len(queries), len(perm)), nan, dtype=np.float32)).ravel(),
		    [(i, j) for i in qidx for j in c['perm']])
		add('jaccarddist_pairwise(SignatureArray)', lambda: jaccarddist_pairwise(sa).ravel(), [(i, j) for i in range(n) for j in range(n)])
		add('jaccarddist_pairwise(list, flat=True)', lambda: jaccarddist_pairwise(list(refs), flat=True),
		    [(i, j) for i in range(n) for j in range(i + 1, n)])
		add('jaccarddist_pairwise(SignatureArray, indices=perm, flat=True)', lambda: jaccarddist_pairwise(sa, indices=perm, flat=True),
		    [(c['perm'][i], c['perm'][j]) for i in range(len(perm)) for j in range(i + 1, len(perm))])

		def threaded():
			with ThreadPoolExecutor(4) as ex:
				rows = list(ex.map(lambda z: list(jaccarddist_array(z, sa)) + list(jaccarddist_array(z, refs)), [q] + refs))
			return [v for row in rows for v in row]
		add('jaccarddist_array from 4 concurrent Python threads', threaded, [(i, j) for i in [-1] + list(range(n)) for _ in (0, 1) for j in range(n)])
		if c.get('hdf5') and c['dr'][0] == 'u' and n:
			def hdf5():
				import os
				from vf import impl
				from gambit.kmers import KmerSpec
				from gambit.sigs.base import AnnotatedSignatures, SignaturesMeta, dump_signatures, load_signatures
				if not _SCRATCH:
					_SCRATCH.append(impl.scratch_dir())
				ks = KmerSpec({'2': 8, '4': 16, '8': 32}[c['dr'][1]], 'ATGAC')
				path = os.path.join(_SCRATCH[0], f'sigs{len(os.listdir(_SCRATCH[0]))}.gs')
				dump_signatures(path, AnnotatedSignatures(SignatureArray(refs, kmerspec=ks, dtype=np.dtype(c['dr'])),
				                                          np.array([f's{i}' for i in range(n)]), SignaturesMeta()))
				with load_signatures(path) as ld:
					return list(jaccarddist_array(q, ld)) + list(jaccarddist_array(q, ld[lo:])) + list(jaccarddist_matrix([q], ld, chunksize=2).ravel())
			add('signature file written and loaded back (HDF5Signatures): jaccarddist_array / [1:] / jaccarddist_matrix chunksize=2',
			    hdf5, qrow + qrow[lo:] + qrow)
		before = omp_get_max_threads()
		try:
			if c.get('omp'):
				omp_set_num_threads(c['omp'])
			for name, fn, pairs in forms:
				try:
					cells = list(fn())
				except Exception as e:
					ctx.violation('bulk', c, f'{name} (reference dtype {c["dr"]}, query dtype {c["dq"]}, OpenMP threads '
					              f'{c.get("omp") or "default"}) raised {type(e).__name__}: {e}', impl=type(e).__name__)
					break
				if len(cells) != len(pairs):
					ctx.violation('bulk', c, f'{name} returned {len(cells)} cells for {len(pairs)} pairs', impl=len(cells), spec=len(pairs))
					break
				msgs = [(k, _dist_problem(v, *exp(*pairs[k]))) for k, v in enumerate(cells)]
				msgs = [(k, m) for k, m in msgs if m]
				if msgs:
					k, m = msgs[0]
					i, j = pairs[k]
					ctx.violation('bulk', c, f'{name} (reference dtype {c["dr"]}, query dtype {c["dq"]}, OpenMP threads '
					              f'{c.get("omp") or "default"}): cell {k} for the pair ({"query" if i < 0 else "signature %d" % i}, '
					              f'{"query" if j < 0 else "signature %d" % j}) = {m}', impl=[float(v) for v in cells][:200])
					break
		finally:
			omp_set_num_threads(before)


def k_mixed(ctx, cases):
	"""a collection whose ELEMENTS have different dtypes (sigs[i] stored as dts[i]) and a query (dtype dq), as the
	references, the queries and the pairwise collection of the three bulk entry points, in every container that
	can hold such a collection (list, tuple, SignatureList and its slices / fancy indices; a SignatureArray is
	homogeneous by construction).  Every cell must be the property value of the pair it stands for; the
	(query, element) pairs are also compared with the model."""
	from gambit.metric import jaccarddist, jaccarddist_array, jaccarddist_matrix, jaccarddist_pairwise
	from gambit.sigs.base import SignatureArray, SignatureList
	from gambit._cython.threads import omp_set_num_threads, omp_get_max_threads
	reqs = []
	for c in cases:
		kq, sq = KIND[c['dq'][0]], int(c['dq'][1])
		reqs += [(205, [kq, sq, c['q'], KIND[d[0]], int(d[1]), x]) for x, d in zip(c['sigs'], c['dts'])]
	small = max([len(c['q']) + len(x) for c in cases for x in c['sigs']] or [0]) <= 600
	ans = ctx.model(reqs) if ctx.model_ok and small and reqs else None
	pos = 0
	before = omp_get_max_threads()
	omp_set_num_threads(1)
	try:
		for c in cases:
			sigs, dts, qv = c['sigs'], c['dts'], c['q']
			n = len(sigs)
			refs = [_arr(x, d) for x, d in zip(sigs, dts)]
			q = _arr(qv, c['dq'])
			if any(r.tolist() != x or r.dtype != np.dtype(d) for r, x, d in zip(refs, sigs, dts)) or q.tolist() != qv:
				raise RuntimeError('harness: an element does not hold the case values in its own dtype')
			su = {}

			def exp(i, j):
				key = (min(i, j), max(i, j))
				if key not in su:
					su[key] = _su(qv if key[0] < 0 else sigs[key[0]], qv if key[1] < 0 else sigs[key[1]])
				return su[key]
			every = [qv] + sigs
			nontriv = len(set(dts)) > 1 and any(0 < len(set(x) & set(y)) < min(len(x), len(y))
			                                     for x, y in itertools.combinations(every, 2))
			ctx.case(c, nontrivial=nontriv)
			perm = np.array(c['perm'], dtype=np.intp) if c.get('npidx') else c['perm']
			lo = min(1, n)
			nan = np.float32('nan')
			qrow = [(-1, j) for j in range(n)]
			allidx = [-1] + list(range(n))
			queries = [q] + refs                 # a query collection of mixed dtypes
			forms = []

			def add(name, fn, pairs):
				forms.append((name, fn, pairs))

			def _sl(x):
				# dtype defaults to the first element's; an empty list has none to take
				return SignatureList(x) if len(x) else SignatureList(x, dtype=np.dtype('u8'))
			add('jaccarddist_array(q, list)', lambda: jaccarddist_array(q, list(refs)), qrow)
			add('jaccarddist_array(q, tuple)', lambda: jaccarddist_array(q, tuple(refs)), qrow)
			add('jaccarddist_array(q, SignatureList(refs))', lambda: jaccarddist_array(q, _sl(refs)), qrow)
			if n:
				add('jaccarddist_array(q, SignatureList(refs, dtype=dtype of the LAST element))',
				    lambda: jaccarddist_array(q, SignatureList(refs, dtype=refs[-1].dtype)), qrow)

			def with_out():
				o = np.full(n, nan, dtype=np.float32)
				r = jaccarddist_array(query=q, refs=list(refs), out=o)
				return list(o) + list(r)
			add('jaccarddist_array(query=q, refs=list, out=new array): out then returned', with_out, qrow + qrow)
			add('jaccarddist_array(q, reversed list)', lambda: jaccarddist_array(q, refs[::-1]), qrow[::-1])
			add('jaccarddist_array(q, SignatureList[1:])', lambda: jaccarddist_array(q, _sl(refs)[lo:]), qrow[lo:])
			add('jaccarddist_array(q, SignatureList[perm])', lambda: jaccarddist_array(q, _sl(refs)[perm]),
			    [(-1, j) for j in c['perm']])
			add('jaccarddist_array(element i, list) for every i',
			    lambda: [v for i in range(n) for v in jaccarddist_array(refs[i], list(refs))], [(i, j) for i in range(n) for j in range(n)])
			add('jaccarddist_array(element i, [q]) and jaccarddist(element i, q) for every i',
			    lambda: [v for i in range(n) for v in (jaccarddist_array(refs[i], [q])[0], jaccarddist(refs[i], q), jaccarddist(q, refs[i]))],
			    [(i, -1) for i in range(n) for _ in range(3)])
			for cs in c['chunks']:
				add(f'jaccarddist_matrix(mixed queries, mixed list, chunksize={cs})',
				    lambda cs=cs: jaccarddist_matrix(queries, list(refs), chunksize=cs).ravel(), [(i, j) for i in allidx for j in range(n)])
			add('jaccarddist_matrix(queries=tuple, refs=SignatureList, ref_indices=perm, chunksize=2, out=given)',
			    lambda: jaccarddist_matrix(queries=tuple(queries), refs=_sl(refs), ref_indices=perm, chunksize=2,
			                               out=np.full((n + 1, len(perm)), nan, dtype=np.float32)).ravel(),
			    [(i, j) for i in allidx for j in c['perm']])
			add('jaccarddist_matrix(mixed queries as SignatureList, [q])',
			    lambda: jaccarddist_matrix(_sl(queries), [q]).ravel(), [(i, -1) for i in allidx])
			# the same mixed queries against a (necessarily homogeneous) SignatureArray of the widest element type
			wide = max(dts + [c['dq']], key=lambda d: (_dmax(d), d))
			add(f'jaccarddist_matrix(mixed queries, SignatureArray of dtype {wide}, chunksize=2)',
			    lambda: jaccarddist_matrix(queries, SignatureArray([_arr(x, wide) for x in sigs], dtype=np.dtype(wide)), chunksize=2).ravel(),
			    [(i, j) for i in allidx for j in range(n)])
			add('jaccarddist_pairwise(list)', lambda: jaccarddist_pairwise(list(refs)).ravel(), [(i, j) for i in range(n) for j in range(n)])
			add('jaccarddist_pairwise([q] + list, flat=True)', lambda: jaccarddist_pairwise(list(queries), flat=True),
			    [(i, j) for a, i in enumerate(allidx) for j in allidx[a + 1:]])
			add('jaccarddist_pairwise(tuple + (q,))', lambda: jaccarddist_pairwise(tuple(refs) + (q,)).ravel(),
			    [(i, j) for i in allidx[1:] + [-1] for j in allidx[1:] + [-1]])
			add('jaccarddist_pairwise(SignatureList, indices=perm, flat=True)',
			    lambda: jaccarddist_pairwise(SignatureList(refs), indices=perm, flat=True),
			    [(c['perm'][i], c['perm'][j]) for i in range(len(perm)) for j in range(i + 1, len(perm))])
			desc = f'element dtypes {dts}, query dtype {c["dq"]}'
			row = None
			for name, fn, pairs in forms:
				try:
					cells = list(fn())
				except Exception as e:
					ctx.violation('mixed', c, f'{name} ({desc}) raised {type(e).__name__}: {e}; every element is a sorted '
					              f'duplicate-free array of an accepted integer type', impl=type(e).__name__)
					break
				if len(cells) != len(pairs):
					ctx.violation('mixed', c, f'{name} ({desc}) returned {len(cells)} cells for {len(pairs)} pairs', impl=len(cells), spec=len(pairs))
					break
				msgs = [(k, _dist_problem(v, *exp(*pairs[k]))) for k, v in enumerate(cells)]
				msgs = [(k, m) for k, m in msgs if m]
				if msgs:
					k, m = msgs[0]
					i, j = pairs[k]

					def who(i):
						return f'query {qv} ({c["dq"]})' if i < 0 else f'element {i} {sigs[i]} ({dts[i]})'
					ctx.violation('mixed', c, f'{name} ({desc}): cell {k} for the pair ({who(i)}, {who(j)}) = {m}',
					              impl=[float(v) for v in cells][:200], spec=list(exp(i, j)))
					break
				if row is None:
					row = [f32_bits(v) for v in cells]
			else:
				if ans is not None and row is not None:
					for j in range(n):
						if ans[pos + j] != [0, row[j]]:
							ctx.broke('correspondence mixed (jaccarddist)', f'{desc}: q={qv} element {j}={sigs[j]}: impl bits {row[j]}, model {ans[pos + j]}')
							break
			pos += n
	finally:
		omp_set_num_threads(before)


def k_matrix(ctx, cases):
	"""jaccarddist_matrix over the product of its argument FORMS: nq queries x nr references (every size relation:
	more queries than references, fewer, square, a single one, none) x the container holding the queries (list,
	tuple, SignatureList, SignatureArray, SignatureArray view with a non-zero base) x the container holding the
	references (the same five) x chunk size (None, 1, 2, 3, nr-1, nr+1: one chunk, several chunks, a ragged last chunk)
	x ref_indices (absent, or a list / index array with repeats) x out= (absent, or given and prefilled with NaN: both
	the array given and the array returned are judged).  Cell (i, j) must be the property value of the pair
	(queries[i], references[j]) resp. (queries[i], references[ref_indices[j]]); the pairs are also sent to the model."""
	from gambit.metric import jaccarddist_matrix
	from gambit.sigs.base import SignatureArray, SignatureList
	from gambit._cython.threads import omp_set_num_threads, omp_get_max_threads
	reqs = []
	for c in cases:
		for x, dx in zip(c['qs'], c['qdts']):
			reqs += [(205, [KIND[dx[0]], int(dx[1]), x, KIND[dy[0]], int(dy[1]), y]) for y, dy in zip(c['rs'], c['rdts'])]
	small = max([len(x) for c in cases for x in c['qs'] + c['rs']] or [0]) <= 300
	ans = ctx.model(reqs) if ctx.model_ok and small and reqs else None
	pos = 0
	before = omp_get_max_threads()
	omp_set_num_threads(1)
	try:
		for c in cases:
			qs, qdts, rs, rdts = c['qs'], c['qdts'], c['rs'], c['rdts']
			nq, nr = len(qs), len(rs)
			Q = [_arr(x, d) for x, d in zip(qs, qdts)]
			R = [_arr(x, d) for x, d in zip(rs, rdts)]
			if any(a.tolist() != x or a.dtype != np.dtype(d) for a, x, d in zip(Q + R, qs + rs, qdts + rdts)):
				raise RuntimeError('harness: an element does not hold the case values in its own dtype')
			su = [[_su(x, y) for y in rs] for x in qs]
			want = np.array([[round_ratio_f32(s, u) if u else 0 for s, u in row] for row in su], dtype=np.uint32).reshape(nq, nr)
			ctx.case(c, nontrivial=any(0 < len(set(x) & set(y)) < min(len(x), len(y)) for x in qs for y in rs))

			def containers(arrs, dts):
				"""(name, object holding exactly arrs in order) for every container that can hold them"""
				d0 = np.dtype(dts[0]) if dts else np.dtype('u8')
				out = [('list', list(arrs)), ('tuple', tuple(arrs)), ('SignatureList', SignatureList(list(arrs), dtype=d0))]
				if len(set(dts)) <= 1:
					pad = [_arr([0, 1, 2], d0.str[1:]), _arr([1], d0.str[1:])]
					out.append(('SignatureArray', SignatureArray(list(arrs), dtype=d0)))
					out.append(('SignatureArray[2:-1] (view, non-zero base)',
					            SignatureArray(pad + list(arrs) + pad[:1], dtype=d0)[2:len(arrs) + 2]))
				return out
			perm = c['perm']
			perms = [None] if perm is None else [None, np.array(perm, dtype=np.intp) if c.get('npidx') else list(perm)]
			cols = {False: list(range(nr)), True: perm}
			bad = False
			k = 0
			first = None
			for qn, qc in containers(Q, qdts):
				for rn, rc in containers(R, rdts):
					for cs in c['chunks']:
						for ri in perms:
							if bad:
								break
							k += 1
							col = cols[ri is not None]
							exp = want[:, np.array(col, dtype=np.intp)]
							kw = {}
							if ri is not None:
								kw['ref_indices'] = ri
							if cs is not None:
								kw['chunksize'] = np.int64(cs) if c.get('npidx') and k % 2 else cs
							given = None
							if k % 3:
								given = kw['out'] = np.full((nq, len(col)), np.float32('nan'), dtype=np.float32)
							name = (f'jaccarddist_matrix({nq} queries in a {qn} of dtypes {sorted(set(qdts))}, {nr} references in a {rn} of '
							        f'dtypes {sorted(set(rdts))}, ref_indices={None if ri is None else list(perm)}, chunksize={cs}, '
							        f'out={"array prefilled with NaN" if given is not None else "None"})')
							try:
								ret = jaccarddist_matrix(qc, rc, **kw)
							except Exception as e:
								ctx.violation('matrix', c, f'{name} raised {type(e).__name__}: {e}; every signature is a sorted '
								              f'duplicate-free array of an accepted integer type', impl=type(e).__name__)
								bad = True
								break
							for what, m in (('returned array', ret), ('out= array', given)):
								if m is None:
									continue
								m = np.asarray(m)
								if m.shape != exp.shape:
									ctx.violation('matrix', c, f'{name}: {what} has shape {m.shape} for {nq} queries x {len(col)} references',
									              impl=list(m.shape), spec=[nq, len(col)])
									bad = True
									break
								if m.dtype == np.float32 and np.array_equal(np.ascontiguousarray(m).view(np.uint32), exp):
									continue
								for i in range(nq):
									for j in range(len(col)):
										msg = _dist_problem(m[i, j], *su[i][col[j]])
										if msg:
											ctx.violation('matrix', c, f'{name}: {what}[{i}, {j}] for the pair (query {i} {qs[i]} ({qdts[i]}), '
											              f'reference {col[j]} {rs[col[j]]} ({rdts[col[j]]})) = {msg}',
											              impl=[float(v) for v in m.ravel()][:200], spec=list(su[i][col[j]]))
											bad = True
											break
									if bad:
										break
								if bad:
									break
							if first is None and not bad and ri is None:
								first = np.ascontiguousarray(ret).view(np.uint32) if np.asarray(ret).dtype == np.float32 else None
			ctx.extra['matrix_calls'] = ctx.extra.get('matrix_calls', 0) + k
			if ans is not None and first is not None and not bad:
				for i in range(nq):
					for j in range(nr):
						if ans[pos + i * nr + j] != [0, int(first[i, j])]:
							ctx.broke('correspondence matrix (jaccarddist)', f'query {qs[i]} ({qdts[i]}) reference {rs[j]} ({rdts[j]}): '
							          f'impl bits {int(first[i, j])}, model {ans[pos + i * nr + j]}')
							bad = True
							break
					if bad:
						break
			pos += nq * nr
	finally:
		omp_set_num_threads(before)


def k_reuse(ctx, cases):
	"""the caller keeps ONE pair of buffers (and one out array, one SignatureArray) and overwrites them in place
	between calls; every call must report the distance of the values present at that call.  Predicate only."""
	from gambit.metric import jaccarddist, jaccard, jaccarddist_array
	from gambit.sigs.base import SignatureArray
	from gambit._cython.threads import omp_set_num_threads, omp_get_max_threads
	before = omp_get_max_threads()
	omp_set_num_threads(1)
	try:
		for c in cases:
			steps = c['steps']
			na, nb = max(len(a) for a, _ in steps), max(len(b) for _, b in steps)
			bufa, bufb = _arr([0] * na, c['da']), _arr([0] * nb, c['db'])
			out = np.zeros(1, dtype=np.float32)
			sab = SignatureArray.from_arrays(bufb, np.array([0, 0], dtype=np.intp), None)
			x = y = None
			ctx.case(c, nontrivial=any(0 < len(set(a) & set(b)) < min(len(a), len(b)) for a, b in steps))
			for k, (av, bv) in enumerate(steps):
				# the very same array objects whenever the lengths allow, else fresh views of the same memory
				if x is None or len(x) != len(av):
					x = bufa[:len(av)]
				if y is None or len(y) != len(bv):
					y = bufb[:len(bv)]
				x[...] = _arr(av, c['da'])
				y[...] = _arr(bv, c['db'])
				sab.bounds[1] = len(bv)
				s, u = _su(av, bv)
				calls = [('jaccarddist(a, b)', 'd', lambda: jaccarddist(x, y)), ('jaccarddist(b, a)', 'd', lambda: jaccarddist(y, x)),
				         ('jaccard(a, b)', 'j', lambda: jaccard(x, y)),
				         ('jaccarddist_array(a, [b], out=reused)[0]', 'd', lambda: jaccarddist_array(x, [y], out=out)[0]),
				         ('jaccarddist_array(a, reused SignatureArray over b)[0]', 'd', lambda: jaccarddist_array(x, sab)[0])]
				bad = False
				for name, what, fn in calls:
					try:
						r = fn()
					except Exception as e:
						msg = f'raised {type(e).__name__}: {e}'
					else:
						want = round_ratio_f32(s, u) if u else 0
						msg = _dist_problem(r, s, u) if what == 'd' else \
							_index_problem(r, float(np.array([want], dtype=np.uint32).view(np.float32)[0]))
					if msg:
						ctx.violation('reuse', c, f'step {k} (buffers overwritten in place, dtypes {c["da"]}/{c["db"]}): {name} on '
						              f'a={av[:12]}{"..." if len(av) > 12 else ""} b={bv[:12]}{"..." if len(bv) > 12 else ""} = {msg}',
						              step=k, spec=[s, u])
						bad = True
						break
				if bad:
					break
	finally:
		omp_set_num_threads(before)


CONTAINERS = ['SignatureList', 'list', 'AnnotatedSignatures', 'SignatureArray']
# every mutation a mutable reference container supports (a SignatureArray has a fixed layout: only 'write')
MUT_OPS = ['setitem', 'setitem-neg', 'setitem-other-dtype', 'setslice-equal', 'setslice-step', 'setslice-other', 'reverse',
           'swap', 'sort', 'write', 'delitem', 'delslice', 'insert', 'append', 'extend', 'iadd', 'pop', 'pop-last',
           'clear-refill', 'dup']
KEEP_LENGTH = {'setitem', 'setitem-neg', 'setitem-other-dtype', 'setslice-equal', 'setslice-step', 'reverse', 'swap', 'sort',
               'write'}


class _Obj:
	"""one signature ARRAY OBJECT of a mutate case: a container holds references to such objects (possibly the same
	one twice, possibly shared with a second container), an in-place write changes the object itself"""
	__slots__ = ('dt', 'vals', 'arr')

	def __init__(self, sig, build=True):
		self.dt, self.vals = sig[0], list(sig[1])
		self.arr = _arr(self.vals, self.dt) if build else None


def _mut_model(state, st, mk):
	"""what the step does to a Python list of references (the harness's own reading of list / MutableSequence
	semantics); mk turns a [dtype, values] description into a new object"""
	op = st['op']
	if op in ('setitem', 'setitem-neg', 'setitem-other-dtype'):
		state[st['i']] = mk(st['sig'])
	elif op in ('setslice-equal', 'setslice-step', 'setslice-other'):
		state[st['lo']:st['hi']:st['step']] = [mk(s) for s in st['sigs']]
	elif op == 'reverse':
		state.reverse()
	elif op == 'swap':
		state[st['i']], state[st['j']] = state[st['j']], state[st['i']]
	elif op == 'sort':
		state.sort(key=lambda o: len(o.vals), reverse=st['rev'])
	elif op == 'write':
		state[st['i']].vals = list(st['vals'])
	elif op == 'delitem':
		del state[st['i']]
	elif op == 'delslice':
		del state[st['lo']:st['hi']:st['step']]
	elif op == 'insert':
		state.insert(st['i'], mk(st['sig']))
	elif op == 'append':
		state.append(mk(st['sig']))
	elif op in ('extend', 'iadd'):
		state.extend([mk(s) for s in st['sigs']])
	elif op == 'pop':
		state.pop(st['i'])
	elif op == 'pop-last':
		state.pop()
	elif op == 'clear-refill':
		state[:] = [mk(s) for s in st['sigs']]
	elif op == 'dup':
		state.append(state[st['i']])
	else:
		raise ValueError(op)


def _mut_impl(inner, st, state, plain):
	"""the same step on the implementation's container (state: the harness list BEFORE the step, for 'write' / 'dup').
	Returns the new array objects in the order _mut_model creates them, so both sides hold the same objects."""
	op = st['op']
	new = [_Obj(s) for s in ([st['sig']] if 'sig' in st else st.get('sigs', []))]
	arrs = [o.arr for o in new]
	if op in ('setitem', 'setitem-neg', 'setitem-other-dtype'):
		inner[st['i']] = arrs[0]
	elif op in ('setslice-equal', 'setslice-step', 'setslice-other'):
		inner[st['lo']:st['hi']:st['step']] = arrs
	elif op == 'reverse':
		inner.reverse()
	elif op == 'swap':
		inner[st['i']], inner[st['j']] = inner[st['j']], inner[st['i']]
	elif op == 'sort':
		if plain:
			inner.sort(key=len, reverse=st['rev'])
		else:
			inner[:] = sorted(inner, key=len, reverse=st['rev'])      # a MutableSequence has no sort()
	elif op == 'write':
		o = state[st['i']]
		o.arr[...] = _arr(st['vals'], o.dt)          # in place, into the member array object itself
	elif op == 'delitem':
		del inner[st['i']]
	elif op == 'delslice':
		del inner[st['lo']:st['hi']:st['step']]
	elif op == 'insert':
		inner.insert(st['i'], arrs[0])
	elif op == 'append':
		inner.append(arrs[0])
	elif op == 'extend':
		inner.extend(arrs)
	elif op == 'iadd':
		inner += arrs
	elif op == 'pop':
		inner.pop(st['i'])
	elif op == 'pop-last':
		inner.pop()
	elif op == 'clear-refill':
		inner.clear()
		inner.extend(arrs)
	elif op == 'dup':
		inner.append(state[st['i']].arr)
	else:
		raise ValueError(op)
	return new


def k_mutate(ctx, cases):
	"""ONE mutable reference container (plain list, SignatureList, AnnotatedSignatures over a SignatureList, or a
	SignatureArray whose member views are written in place) kept across a SEQUENCE of bulk calls and mutations; a second
	container (alias) built at the start from the same array objects is carried along.  Every cell of every call must be
	the property value of the query and the member the container holds AT THAT CALL.  Property predicate only."""
	from gambit.metric import jaccarddist, jaccarddist_array, jaccarddist_matrix, jaccarddist_pairwise
	from gambit.sigs.base import SignatureArray, SignatureList, AnnotatedSignatures
	from gambit._cython.threads import omp_set_num_threads, omp_get_max_threads
	before = omp_get_max_threads()
	omp_set_num_threads(1)
	nan = np.float32('nan')
	try:
		for c in cases:
			cont = c['cont']
			state = [_Obj(s) for s in c['init']]
			queries = [_Obj(s) for s in c['queries']]
			dl = np.dtype(c['dl']) if c.get('dl') else None
			arrs = [o.arr for o in state]
			if cont == 'list':
				inner = target = list(arrs)
			elif cont == 'SignatureList':
				inner = target = SignatureList(arrs, dtype=dl)
			elif cont == 'AnnotatedSignatures':
				inner = SignatureList(arrs, dtype=dl)
				target = AnnotatedSignatures(inner, [f's{i}' for i in range(len(arrs))])
			elif cont == 'SignatureArray':
				inner = target = SignatureArray(arrs, dtype=dl)
				for i, o in enumerate(state):
					o.arr = target[i]                    # the member views: writes go into the array's own memory
			else:
				raise ValueError(cont)
			# the alias holds the same array objects (resp. the same memory): in-place writes show through it,
			# structural changes of the main container do not
			alias = target[0:] if cont == 'SignatureArray' and len(state) else \
				SignatureList(list(arrs), dtype=dl or (arrs[0].dtype if arrs else np.dtype('u8')))
			alias_state = list(state)
			everv = [o.vals for o in queries + state] + [s[1] for st in c['steps'] for s in ([st['sig']] if 'sig' in st else st.get('sigs', []))]
			nontriv = any(st['op'] != 'check' for st in c['steps']) and \
				any(0 < len(set(x) & set(y)) < min(len(x), len(y)) for x, y in itertools.combinations(everv, 2))
			ctx.case(c, nontrivial=nontriv)
			out = None
			done = []
			bad = False
			for k, st in enumerate(c['steps']):
				if st['op'] != 'check':
					try:
						new = iter(_mut_impl(inner, st, state, cont == 'list'))
					except Exception as e:
						# what a container accepts as a mutation is not the property's business
						ctx.count(f'refused:container-mutation-{st["op"]}-{type(e).__name__}')
						break
					_mut_model(state, st, lambda s: next(new))
					done.append(st['op'])
					continue
				qo = queries[st['q'] % len(queries)]
				q2 = queries[(st['q'] + 1) % len(queries)]
				n = len(state)
				if out is None or len(out) != n:
					out = np.full(n, nan, dtype=np.float32)      # else: the out array of the previous call again
				row = [(qo, o) for o in state]
				forms = [('jaccarddist_array(q, container)', lambda: jaccarddist_array(qo.arr, target), row),
				         ('jaccarddist_array(q, container, out=kept array): out then returned',
				          lambda: (lambda r: list(out) + list(r))(jaccarddist_array(qo.arr, target, out=out)), row + row),
				         ('jaccarddist(q, container[i]) for every i', lambda: [jaccarddist(qo.arr, target[i]) for i in range(n)], row),
				         (f'jaccarddist_matrix([q, q2], container, chunksize={st["cs"]})',
				          lambda: jaccarddist_matrix([qo.arr, q2.arr], target, chunksize=st['cs']).ravel(),
				          row + [(q2, o) for o in state]),
				         (f'jaccarddist_pairwise(container, flat={st["flat"]})',
				          lambda: jaccarddist_pairwise(target, flat=st['flat']).ravel(),
				          [(state[i], state[j]) for i in range(n) for j in range(i + 1, n)] if st['flat'] else
				          [(x, y) for x in state for y in state]),
				         ('jaccarddist_array(q, alias container built at the start from the same array objects)',
				          lambda: jaccarddist_array(qo.arr, alias), [(qo, o) for o in alias_state]),
				         ('jaccarddist_array(q, container) [again]', lambda: jaccarddist_array(qo.arr, target), row)]
				where = (f'step {k} ({cont}' + (f' of dtype {c["dl"]}' if c.get('dl') else '') + f', after {done or "no mutation"}; '
				         f'current members {[(o.dt, o.vals) for o in state]}, query {qo.vals} ({qo.dt}))')
				for name, fn, pairs in forms:
					try:
						cells = list(fn())
					except Exception as e:
						ctx.violation('mutate', c, f'{where}: {name} raised {type(e).__name__}: {e}', step=k, impl=type(e).__name__)
						bad = True
						break
					if len(cells) != len(pairs):
						ctx.violation('mutate', c, f'{where}: {name} returned {len(cells)} cells for {len(pairs)} pairs',
						              step=k, impl=len(cells), spec=len(pairs))
						bad = True
						break
					msgs = [(i, _dist_problem(v, *_su(pairs[i][0].vals, pairs[i][1].vals))) for i, v in enumerate(cells)]
					msgs = [(i, m) for i, m in msgs if m]
					if msgs:
						i, m = msgs[0]
						x, y = pairs[i]
						ctx.violation('mutate', c, f'{where}: {name}: cell {i} for the pair ({x.vals} ({x.dt}), {y.vals} ({y.dt})) = {m}',
						              step=k, impl=[float(v) for v in cells][:200], spec=list(_su(x.vals, y.vals)))
						bad = True
						break
				if bad:
					break
	finally:
		omp_set_num_threads(before)


def _timed(kind, fn):
	"""wall seconds spent per kind go into the evidence (coverage.seconds_by_kind): the cost of each stream is measured"""
	import time

	def run(ctx, cases):
		t0 = time.time()
		try:
			return fn(ctx, cases)
		finally:
			sec = ctx.extra.setdefault('seconds_by_kind', {})
			sec[kind] = round(sec.get(kind, 0) + time.time() - t0, 2)
	run.__doc__ = fn.__doc__
	return run


KINDS = {k: _timed(k, f) for k, f in dict(pair=k_pair, dtype=k_dtype, big=k_big, form=k_form, gen=k_gen, bulk=k_bulk,
                                           reuse=k_reuse, mixed=k_mixed, mutate=k_mutate, matrix=k_matrix).items()}
SHRINK = False


def _place(sub, base):
	return [base + x for x in sub]


def _universe(rng, top, mode, k):
	"""k distinct values of [0, top] (sorted): a window hugging top / hugging 0 / around a power of two where a
	narrower or a signed reading of the bits would change value or order / spread over all magnitudes"""
	if top + 1 <= k:
		return list(range(top + 1))
	if mode == 'pow2':
		ps = [p for p in (2 ** 15, 2 ** 16, 2 ** 31, 2 ** 32, 2 ** 63) if p - 1 <= top]
		if ps:
			p = rng.choice(ps)
			lo, hi = max(0, p - 2 * k), min(top, p + 2 * k)
			return sorted(set(rng.sample(range(lo, hi + 1), min(k, hi - lo + 1))) | {p - 1})
		mode = 'hug-top'
	if mode == 'hug-top':
		return sorted(set(rng.sample(range(max(0, top - 3 * k), top), k - 1)) | {top})
	if mode == 'hug-bottom':
		return sorted(set(rng.sample(range(1, min(top, 3 * k) + 1), k - 1)) | {0})
	vals = {top} if rng.random() < 0.3 else set()
	while len(vals) < k:
		vals.add(min(top, rng.randrange(0, 1 << rng.randint(1, top.bit_length()))))
	return sorted(vals)


def _shape_pair(rng, pool, shape):
	half = max(1, len(pool) // 2)
	if shape == 'equal':
		A = B = pool[:half]
	elif shape == 'disjoint':
		A, B = pool[0::2], pool[1::2]
	elif shape == 'nested':
		A = pool
		B = sorted(rng.sample(A, len(A) // 2))
	elif shape == 'interleaved':
		A = pool[0::2]
		B = sorted(set(pool[1::2]) | set(rng.sample(A, len(A) // 3)))
	elif shape == 'lasteq':
		A = sorted(set(rng.sample(pool[:-1], len(pool) // 3)) | {pool[-1]})
		B = sorted(set(rng.sample(pool[:-1], len(pool) // 2)) | {pool[-1]})
	elif shape == 'firsteq':
		A = sorted(set(rng.sample(pool[1:], len(pool) // 3)) | {pool[0]})
		B = sorted(set(rng.sample(pool[1:], len(pool) // 2)) | {pool[0]})
	elif shape == 'one-empty':
		A, B = [], pool[:half]
	else:
		A = sorted(rng.sample(pool, rng.randint(0, len(pool))))
		B = sorted(rng.sample(pool, rng.randint(0, len(pool))))
	return list(A), list(B)


SHAPES = ['equal', 'disjoint', 'nested', 'interleaved', 'lasteq', 'firsteq', 'one-empty', 'random']


def _beyond(rng, m, mx, shared):
	"""values of (m, mx]: the wider array's own top, just above the narrower maximum, and values whose low bits
	collide with elements of the other array"""
	if mx <= m:
		return set()
	out = set()
	if rng.random() < 0.7:
		out |= {mx - i for i in rng.sample(range(0, 6), rng.randint(1, 3))}
	if rng.random() < 0.5:
		out |= {m + 1 + i for i in rng.sample(range(0, 6), rng.randint(1, 3)) if m + 1 + i <= mx}
	bits = -(-m.bit_length() // 8) * 8          # width of the narrower dtype
	mod = 1 << rng.choice([bits, bits, bits - 1])
	for x in rng.sample(shared, min(len(shared), 3)) if shared else []:
		v = x + mod * rng.randint(1, 3)
		if m < v <= mx:
			out.add(v)
	return out


def _domain_pair(rng, da, db, mode, shape, k):
	"""an in-domain pair: every value is non-negative and inside the dtype of the array that holds it"""
	ma, mb = _dmax(da), _dmax(db)
	m = min(ma, mb)
	pool = _universe(rng, m, mode, 2 * k)
	A, B = _shape_pair(rng, pool, shape)
	if rng.random() < 0.5:
		A, B = B, A
	if rng.random() < 0.8:
		A = sorted(set(A) | _beyond(rng, m, ma, B))
		B = sorted(set(B) | _beyond(rng, m, mb, A))
	return A, B


def _reuse_steps(rng, da, db):
	m = min(_dmax(da), _dmax(db))
	base = rng.choice([0, max(0, m - 60), max(0, m // 2 - 30)])
	U = list(range(base, min(m, base + 60) + 1))

	def interior(X):
		"""same length, same first and last element, another interior"""
		X = list(X)
		if 1 <= len(X) < 3:
			# too short for an interior: same length and first element (or same length only), another last element
			cand = [v for v in U if v != X[-1] and (len(X) == 1 or v > X[0])]
			X[-1] = rng.choice(cand) if cand else X[-1]
		for _ in range(rng.randint(1, 3)):
			if len(X) < 3:
				break
			i = rng.randrange(1, len(X) - 1)
			cand = [v for v in range(X[i - 1] + 1, X[i + 1]) if v != X[i]]
			if cand:
				X[i] = rng.choice(cand)
		return X
	steps = []
	for _ in range(rng.randint(2, 3)):
		A = sorted(rng.sample(U[::2] + U[1::7], rng.randint(0, 7)))
		B = sorted(rng.sample(U[::3] + U[1::5], rng.randint(0, 7)))
		A, B = sorted(set(A)), sorted(set(B))
		steps.append([A, B])
		for _ in range(rng.randint(1, 3)):
			how = rng.choice(['a', 'b', 'both', 'swap'])
			if how == 'swap' and len(A) == len(B):
				A, B = B, A
			else:
				A = interior(A) if how in ('a', 'both', 'swap') else A
				B = interior(B) if how in ('b', 'both') else B
			steps.append([list(A), list(B)])
	return steps


def _mutate_case(rng, cont, first_op, mode):
	"""a sequence on one container: bulk call, mutation(s), bulk call, ...  mode 'uniform': every member ever held has
	the container's dtype (what lets an implementation keep a concatenated / converted copy); 'other': uniform at
	first, later members of other dtypes; 'mixed': any dtypes.  The first mutation is first_op (when the container
	supports it at that point), the others are drawn with the length-preserving ones favoured."""
	d0 = rng.choice(DTYPES)
	dq = [rng.choice(DTYPES) for _ in range(rng.randint(1, 3))]
	used = [d0] + dq + ([] if mode == 'uniform' and first_op != 'setitem-other-dtype' else DTYPES)
	m = min(_dmax(d) for d in used)
	pool = _universe(rng, m, rng.choice(['hug-top', 'hug-top', 'hug-bottom', 'pow2', 'spread']), rng.choice([6, 10, 16]))

	def sig(dt, nonempty=False):
		x = set(rng.sample(pool, rng.randint(1 if nonempty else 0, min(len(pool), 8))))
		if rng.random() < 0.4:
			x |= _beyond(rng, m, _dmax(dt), pool)
		x = sorted(v for v in x if v <= _dmax(dt))          # in-domain: inside the dtype of the array that holds it
		return [dt, x or ([min(pool[0], _dmax(dt))] if nonempty else [])]

	def member(later=True):
		if mode == 'mixed' or (mode == 'other' and later and rng.random() < 0.4):
			return sig(rng.choice(DTYPES))
		return sig(d0, nonempty=cont == 'SignatureArray')
	n0 = rng.choice([1, 2, 3, 3, 4, 5, 6]) if first_op or cont == 'SignatureArray' else rng.choice([0, 1, 2, 3, 4, 6])
	init = [member(False) for _ in range(n0)]
	state = [_Obj(s, build=False) for s in init]
	queries = [sig(d) for d in dq]
	if rng.random() < 0.3 and state and all(v <= _dmax(dq[0]) for v in state[0].vals):
		queries[0] = [dq[0], list(state[0].vals)]

	def check():
		return dict(op='check', q=rng.randrange(3), cs=rng.choice([None, 1, 2, 3]), flat=rng.random() < 0.5)
	steps = [check()] if rng.random() < 0.9 else []
	nops = rng.randint(1, 5)
	t = 0
	while t < nops:
		n = len(state)
		op = first_op if t == 0 and first_op else rng.choice(sorted(KEEP_LENGTH)) if rng.random() < 0.55 else rng.choice(MUT_OPS)
		if cont == 'SignatureArray':
			op = 'write'
		t += 1
		if op == 'setitem-other-dtype' and mode == 'uniform' and op != first_op:
			continue
		st = dict(op=op)
		if op in ('setitem', 'setitem-neg', 'setitem-other-dtype', 'delitem', 'pop', 'dup', 'write') and n == 0 or \
		   op == 'swap' and n < 2 or op == 'pop-last' and n == 0:
			continue
		if op in ('setitem', 'setitem-neg'):
			st.update(i=rng.randrange(n) - (n if op == 'setitem-neg' else 0), sig=member())
		elif op == 'setitem-other-dtype':
			i = rng.randrange(n)
			st.update(i=i, sig=sig(rng.choice([d for d in DTYPES if d != state[i].dt])))
		elif op in ('setslice-equal', 'setslice-other'):
			lo = rng.randint(0, n)
			hi = rng.randint(lo, n)
			k = hi - lo if op == 'setslice-equal' else rng.choice([x for x in range(0, hi - lo + 3) if x != hi - lo])
			st.update(lo=lo if rng.random() < 0.7 else lo - n if lo < n else lo, hi=hi if rng.random() < 0.7 or hi == 0 else hi - n if hi < n else None, step=None,
			          sigs=[member() for _ in range(k)])
		elif op == 'setslice-step':
			step = rng.choice([2, -1, -2, 3])
			lo, hi = (None, None) if rng.random() < 0.6 else (rng.randrange(n + 1), None)
			st.update(lo=lo, hi=hi, step=step, sigs=[member() for _ in range(len(range(n)[lo:hi:step]))])
		elif op == 'swap':
			i, j = rng.sample(range(n), 2)
			st.update(i=i, j=j - n if rng.random() < 0.3 else j)
		elif op == 'sort':
			st.update(rev=rng.random() < 0.5)
		elif op == 'write':
			cand = [i for i in range(n) if state[i].vals]
			if not cand:
				continue
			i = rng.choice(cand)
			o = state[i]
			U = sorted({v for v in pool if v <= _dmax(o.dt)} | set(o.vals) | {v + 1 for v in o.vals if v + 1 <= _dmax(o.dt)})
			vals = sorted(rng.sample(U, len(o.vals)))
			st.update(i=i if rng.random() < 0.7 else i - n, vals=vals)
		elif op in ('delitem', 'pop'):
			st.update(i=rng.randrange(n) - (n if rng.random() < 0.3 else 0))
		elif op == 'delslice':
			lo = rng.randint(0, n)
			st.update(lo=lo, hi=rng.choice([None, rng.randint(lo, n)]), step=rng.choice([None, None, 2]))
		elif op == 'insert':
			st.update(i=rng.randint(-n - 1, n + 1), sig=member())
		elif op == 'append':
			st.update(sig=member())
		elif op in ('extend', 'iadd'):
			st.update(sigs=[member() for _ in range(rng.randint(0, 3))])
		elif op == 'clear-refill':
			st.update(sigs=[member() for _ in range(rng.choice([n, n, rng.randint(0, 5)]))])
		elif op == 'dup':
			st.update(i=rng.randrange(n))
		_mut_model(state, st, lambda s: _Obj(s, build=False))
		steps.append(st)
		if rng.random() < 0.75:
			steps.append(check())
	if not steps or steps[-1]['op'] != 'check':
		steps.append(check())
	# the declared dtype of the container: mostly stated, sometimes left to the constructor (taken from the first member)
	dl = d0 if cont == 'SignatureArray' or n0 == 0 or mode != 'mixed' and rng.random() < 0.7 else init[0][0] if mode == 'mixed' and rng.random() < 0.5 else None
	return dict(cont=cont, dl=dl, mode=mode, init=init, queries=queries, steps=steps)


MIXED_PATTERNS = ['narrow-first', 'wide-first', 'same-width', 'alternating', 'all-six', 'odd-one-last', 'first-empty',
                  'empty-other-dtype', 'random']


def _mixed_dtypes(rng, pattern):
	"""the element dtypes of a heterogeneous collection (at least two different ones, except sometimes for 'random')"""
	def width(d):
		return int(d[1])
	if pattern in ('narrow-first', 'wide-first'):
		ds = [rng.choice(DTYPES) for _ in range(rng.randint(2, 5))]
		if len({width(d) for d in ds}) == 1:
			ds.append(rng.choice([d for d in DTYPES if width(d) != width(ds[0])]))
		rng.shuffle(ds)
		return sorted(ds, key=width, reverse=pattern == 'wide-first')
	if pattern == 'same-width':
		w = rng.choice('248')
		ds = [rng.choice('ui') + w for _ in range(rng.randint(0, 3))] + ['u' + w, 'i' + w]
		rng.shuffle(ds)
		return ds
	if pattern == 'alternating':
		d1 = rng.choice(DTYPES)
		d2 = rng.choice([d for d in DTYPES if width(d) != width(d1)])
		return [d1, d2] * rng.randint(1, 3) + ([d1] if rng.random() < 0.5 else [])
	if pattern == 'all-six':
		return rng.sample(DTYPES, 6)
	if pattern == 'odd-one-last':
		d1 = rng.choice(DTYPES)
		return [d1] * rng.randint(1, 4) + [rng.choice([d for d in DTYPES if d != d1])]
	if pattern in ('first-empty', 'empty-other-dtype'):
		d1 = rng.choice(DTYPES)
		rest = [rng.choice([d for d in DTYPES if d != d1]) for _ in range(rng.randint(1, 2))]
		return [d1] + [rng.choice(rest) for _ in range(rng.randint(1, 4))]
	return [rng.choice(DTYPES) for _ in range(rng.randint(1, 6))]


def _mixed_case(rng, dts, dq, pattern, chunks):
	"""value sets for a collection stored element-wise as dts and a query stored as dq: a pool every array can hold,
	plus for each array values of its OWN upper range (beyond the narrowest type of the case: its own maximum, just
	above the narrowest maximum, low-bit collisions with pool values); some elements empty, some repeating the
	value set of an earlier element (stored in another type)"""
	n = len(dts)
	m = min(_dmax(d) for d in dts + [dq])
	pool = _universe(rng, m, rng.choice(['hug-top', 'hug-top', 'hug-bottom', 'pow2', 'spread']), rng.choice([4, 8, 16]))
	even = rng.random() < 0.25          # even lengths only: a narrower element read as a wider type need not fail
	sigs = []
	for i, d in enumerate(dts):
		x = set(rng.sample(pool, rng.randint(0, len(pool))))
		if rng.random() < 0.75:
			x |= _beyond(rng, m, _dmax(d), pool)
		x = sorted(x)
		prev = [y for y in sigs if not y or y[-1] <= _dmax(d)]
		if prev and rng.random() < 0.15:
			x = list(rng.choice(prev))
		if rng.random() < 0.08:
			x = []
		if even:
			x = x[:len(x) - len(x) % (4 if len(x) >= 8 else 2)]
		sigs.append(x)
	if pattern == 'first-empty':
		sigs[0] = []
	elif pattern == 'empty-other-dtype':
		for i in rng.sample(range(1, n), rng.randint(1, max(1, (n - 1) // 2))):
			if dts[i] != dts[0]:
				sigs[i] = []
	q = sorted(set(rng.sample(pool, rng.randint(0, len(pool)))) | (_beyond(rng, m, _dmax(dq), pool) if rng.random() < 0.6 else set()))
	fits = [y for y in sigs if not y or y[-1] <= _dmax(dq)]
	if fits and rng.random() < 0.1:
		q = list(rng.choice(fits))
	perm = [rng.randrange(n) for _ in range(rng.randint(1, n + 1))]
	return dict(sigs=sigs, dts=list(dts), q=q, dq=dq, perm=perm, chunks=chunks, npidx=rng.random() < 0.3, pattern=pattern)


MATRIX_SHAPES = ['more-queries', 'more-queries', 'fewer-queries', 'square', 'one-query', 'one-reference', 'no-queries', 'no-references']


def _matrix_case(rng, shape):
	"""nq query sets and nr reference sets in the size relation `shape`, each side either all of one dtype (so that it
	can also be held in a SignatureArray) or element-wise of different dtypes; values as in _mixed_case"""
	if shape == 'more-queries':
		nr = rng.randint(1, 5)
		nq = nr + rng.randint(1, 4)
	elif shape == 'fewer-queries':
		nq = rng.randint(1, 4)
		nr = nq + rng.randint(1, 4)
	elif shape == 'square':
		nq = nr = rng.randint(2, 5)
	elif shape == 'one-query':
		nq, nr = 1, rng.randint(2, 6)
	elif shape == 'one-reference':
		nq, nr = rng.randint(2, 6), 1
	elif shape == 'no-queries':
		nq, nr = 0, rng.randint(1, 4)
	else:
		nq, nr = rng.randint(1, 4), 0

	def dtypes(n, p_uniform):
		d = rng.choice(DTYPES)
		return [d] * n if rng.random() < p_uniform else [rng.choice(DTYPES) for _ in range(n)]
	qdts, rdts = dtypes(nq, 0.8), dtypes(nr, 0.5)
	m = min(_dmax(d) for d in qdts + rdts)
	pool = _universe(rng, m, rng.choice(['hug-top', 'hug-top', 'hug-bottom', 'pow2', 'spread']), rng.choice([4, 8, 16]))
	made = []

	def member(d):
		x = set(rng.sample(pool, rng.randint(0, len(pool))))
		if rng.random() < 0.6:
			x |= _beyond(rng, m, _dmax(d), pool)
		x = sorted(x)
		prev = [y for y in made if not y or y[-1] <= _dmax(d)]
		if prev and rng.random() < 0.12:
			x = list(rng.choice(prev))
		if rng.random() < 0.08:
			x = []
		made.append(x)
		return x
	qs = [member(d) for d in qdts]
	rs = [member(d) for d in rdts]
	perm = [rng.randrange(nr) for _ in range(rng.randint(1, nr + 2))] if nr and rng.random() < 0.5 else None
	chunks = [None] + sorted({1, 2, 3, max(1, nr - 1), nr + 1})
	return dict(qs=qs, qdts=qdts, rs=rs, rdts=rdts, perm=perm, chunks=chunks, npidx=rng.random() < 0.3, shape=shape)


def generate(ctx):
	rng = ctx.rng
	ctx.rule(RULE)
	n = ctx.pick(6, 7)
	subsets = [[i for i in range(n) if m >> i & 1] for m in range(1 << n)]
	# exhaustive: all pairs of subsets of an n-element universe, at the bottom of the range
	combos = [(x, y) for x in DTYPES for y in DTYPES]
	ci = 0
	for A in subsets:
		for B in subsets:
			da, db = combos[ci % 36]
			ci += 1
			yield 'pair', dict(a=A, b=B, da=da, db=db)
	ctx.count('stream:exhaustive-subset-pairs', len(subsets) ** 2)
	ctx.exhaustive = True
	ctx.extra['exhaustive_scope'] = f'all pairs of subsets of a {n}-element universe (dtype pair cycling through all 36); all 36 dtype pairs on a fixed family; top-of-range placements'
	# all 36 dtype pairs x a family of shapes, values at the top of each range
	fam = [([], []), ([0], []), ([0], [0]), ([0, 1, 2], [1, 2, 3]), ([0, 2, 4], [1, 3, 5]), ([0, 1, 2, 3], [1, 2]),
	       ([5], [0, 1, 2, 3, 4, 5]), ([0, 1, 2, 3, 4, 5], [5])]
	for da, db in combos:
		top = min(2 ** (8 * int(da[1])), 2 ** (8 * int(db[1]))) - 8
		for A, B in fam:
			yield 'pair', dict(a=A, b=B, da=da, db=db)
			yield 'pair', dict(a=_place(A, top), b=_place(B, top), da=da, db=db)
		ctx.count('stream:dtype-pairs')
	# values around 2^63 (signed 64-bit arrays viewed as unsigned)
	for da, db in (('u8', 'i8'), ('i8', 'i8'), ('u8', 'u8')):
		for A, B in fam:
			yield 'pair', dict(a=_place(A, 2 ** 63 - 3), b=_place(B, 2 ** 63 - 3), da=da, db=db)
	# one array in a wider type holding values beyond the other's range (residues collide mod 2^16 / 2^32)
	for da, db, lim in (('u4', 'u2', 2 ** 16), ('i4', 'u2', 2 ** 16), ('u8', 'u2', 2 ** 16), ('i8', 'i2', 2 ** 15),
	                    ('u8', 'u4', 2 ** 32), ('i8', 'u4', 2 ** 32), ('u8', 'i4', 2 ** 31)):
		for _ in range(ctx.pick(4, 30)):
			small = sorted(rng.sample(range(min(lim, 3000)), rng.randint(1, 8)))
			big = sorted({lim * rng.randint(1, 3) + x for x in rng.sample(small, rng.randint(1, len(small)))})
			A = sorted(set(rng.sample(small, rng.randint(0, len(small)))) | set(big))
			ctx.count('stream:wider-than-other')
			yield 'pair', dict(a=A, b=small, da=da, db=db)
	# random structured pairs
	nrand = ctx.pick(300, 3000)
	for _ in range(nrand):
		shape = rng.choice(['equal', 'disjoint', 'nested', 'interleaved', 'lasteq', 'short-long', 'random'])
		da, db = rng.choice(DTYPES), rng.choice(DTYPES)
		lim = min(2 ** (8 * int(da[1])), 2 ** (8 * int(db[1])))
		size = rng.choice([1, 2, 3, 8, 50, 400, 3000]) if ctx.quick else rng.choice([1, 2, 3, 8, 50, 400, 3000, 40000])
		size = min(size, lim // 4)
		pool = sorted(rng.sample(range(min(lim, size * 6 + 4)), min(size * 2 + 2, min(lim, size * 6 + 4))))
		if shape == 'equal':
			A = B = pool[:size]
		elif shape == 'disjoint':
			A, B = pool[0::2][:size], pool[1::2][:size]
		elif shape == 'nested':
			A = pool[:size]
			B = sorted(rng.sample(A, max(0, len(A) // 2)))
		elif shape == 'interleaved':
			A = pool[0::2]
			B = sorted(set(pool[1::2]) | set(rng.sample(A, len(A) // 3)))
		elif shape == 'lasteq':
			A = sorted(set(rng.sample(pool[:-1], len(pool) // 3)) | {pool[-1]})
			B = sorted(set(rng.sample(pool[:-1], len(pool) // 2)) | {pool[-1]})
		elif shape == 'short-long':
			A = pool[:2]
			B = pool
		else:
			A = sorted(rng.sample(pool, rng.randint(0, len(pool))))
			B = sorted(rng.sample(pool, rng.randint(0, len(pool))))
		ctx.count('stream:random-' + shape)
		yield 'pair', dict(a=list(A), b=list(B), da=da, db=db)
	# dtype acceptance (malformed stream)
	for dt in ['u1', 'i1', 'u2', 'i2', 'u4', 'i4', 'u8', 'i8', 'f2', 'f4', 'f8', 'bool', 'c8', 'S1', 'O',
	           '>u2', '>i2', '>u4', '>i4', '>u8', '>i8', '<u2', '<i4', '=u8']:
		ctx.count('stream:malformed-dtype')
		yield 'dtype', dict(dtype=dt)
	yield 'big', dict(name='union_exactly_2p24')
	yield 'big', dict(name='union_2p24_plus_1')

	# ---- audit streams ----------------------------------------------------------------------------
	# every dtype x every memory layout, on either side, through all call forms
	for rep in range(ctx.pick(3, 12)):
		for d in DTYPES:
			for lay in LAYOUTS:
				for side in (0, 1):
					od, ol = rng.choice(DTYPES), rng.choice(LAYOUTS)
					da, db, la, lb = (d, od, lay, ol) if side == 0 else (od, d, ol, lay)
					A, B = _domain_pair(rng, da, db, rng.choice(['hug-top', 'hug-bottom', 'pow2', 'spread']), rng.choice(SHAPES),
					                    rng.choice([1, 2, 3, 5, 8, 20]))
					ctx.count('stream:form-layouts')
					yield 'form', dict(a=A, b=B, da=da, db=db, la=la, lb=lb)
	# every dtype pair: in-domain sets hugging each array's own maximum / power-of-two boundaries / all magnitudes
	for rep in range(ctx.pick(3, 12)):
		for da, db in combos:
			for mode in ('hug-top', 'hug-top', 'pow2', 'spread'):
				A, B = _domain_pair(rng, da, db, mode, rng.choice(SHAPES), rng.choice([1, 2, 3, 5, 8, 20]))
				la, lb = (rng.choice(LAYOUTS), rng.choice(LAYOUTS)) if rng.random() < 0.3 else ('c', 'c')
				ctx.count('stream:top-of-range-' + mode)
				yield 'form', dict(a=A, b=B, da=da, db=db, la=la, lb=lb)
	# buffers overwritten in place between calls
	for i in range(ctx.pick(180, 1500)):
		da, db = combos[i % 36] if i < 36 else (rng.choice(DTYPES), rng.choice(DTYPES))
		ctx.count('stream:reuse')
		yield 'reuse', dict(da=da, db=db, steps=_reuse_steps(rng, da, db))
	# one mutable reference container kept across bulk calls and mutations: every container kind x every mutation it
	# supports as the first one (then random ones), two thirds with members of the container's own dtype throughout
	combos_m = [(cont, op) for op in MUT_OPS for cont in CONTAINERS if cont != 'SignatureArray' or op == 'write']
	for i in range(ctx.pick(330, 3000)):
		cont, op = combos_m[i % len(combos_m)] if i < 3 * len(combos_m) else (rng.choice(CONTAINERS), None)
		mode = 'uniform' if cont == 'SignatureArray' else ['uniform', 'other', 'uniform', 'mixed', 'uniform', 'uniform'][(i // len(combos_m)) % 6 if op else rng.randrange(6)]
		ctx.count('stream:mutated-container-' + cont)
		yield 'mutate', _mutate_case(rng, cont, op, mode)
	# collections through the bulk entry points (all 36 reference x query dtype pairs)
	nb = ctx.pick(112, 600)
	for i in range(nb):
		dr, dq = combos[i % 36]
		mr, mq = _dmax(dr), _dmax(dq)
		m = min(mr, mq)
		pool = _universe(rng, m, rng.choice(['hug-top', 'hug-bottom', 'pow2', 'spread']), rng.choice([4, 8, 16]))
		nsig = rng.choice([0, 1, 2, 3, 4, 6]) if i >= 2 else 3
		extra_r = sorted(_beyond(rng, m, mr, pool))
		sigs = []
		for _ in range(nsig):
			x = sorted(set(rng.sample(pool, rng.randint(0, len(pool)))) | set(rng.sample(extra_r, rng.randint(0, len(extra_r)))))
			sigs.append(x if rng.random() > 0.15 or not sigs else list(rng.choice(sigs)))
		q = sorted(set(rng.sample(pool, rng.randint(0, len(pool)))) | (_beyond(rng, m, mq, pool) if rng.random() < 0.6 else set()))
		if sigs and rng.random() < 0.15 and all(v <= mq for v in sigs[0]):
			q = list(sigs[0])
		perm = [rng.randrange(nsig) for _ in range(rng.randint(1, nsig + 1))] if nsig else []
		# the default thread count costs ~0.1 s per parallel call on a busy machine: few such cases, small ones
		# (and even two threads cost ~0.01 s there, against microseconds for one)
		omp = None if i < ctx.pick(1, 12) else 5 if i < ctx.pick(2, 24) else 2 if i % 8 == 2 else 1
		chunks = [2] if omp in (None, 5) else [None, 1, 2, nsig + 3]
		ctx.count('stream:bulk-omp-' + str(omp or 'default'))
		yield 'bulk', dict(sigs=sigs, dr=dr, q=q, dq=dq, perm=perm, omp=omp, chunks=chunks, hdf5=(i % 5 == 0), npidx=(i % 3 == 1))
	# collections whose ELEMENTS have different dtypes, as references / queries / pairwise collection: first all 36
	# ordered (first element, later elements) dtype pairs, then each ordering pattern in several variations
	qi = 0
	for rep in range(ctx.pick(1, 6)):
		for d1, d2 in combos:
			dq = DTYPES[(qi + rep) % 6]
			qi += 1
			dts = [d1, d2, d2] if rep % 2 == 0 else [d1, d1, d2]
			ctx.count('stream:mixed-dtype-collection-first-later')
			yield 'mixed', _mixed_case(rng, dts, dq, 'first-later', [2])
	for i in range(ctx.pick(108, 900)):
		pattern = MIXED_PATTERNS[i % len(MIXED_PATTERNS)]
		ctx.count('stream:mixed-dtype-collection-' + pattern)
		yield 'mixed', _mixed_case(rng, _mixed_dtypes(rng, pattern), DTYPES[(i // len(MIXED_PATTERNS)) % 6] if i < 54 else rng.choice(DTYPES),
		                           pattern, [None, 1, 2] if i % 4 == 0 else [rng.choice([None, 1, 2, 3])])
	# large seeded sets (|A|, |B| < 2^24): sizes between the random streams (<= 3000) and the two named 2^24 cases
	fixed = [dict(seed=1, n=65536, da='u2', db='u2', place='full', shape='random', ov=3, strided=False),
	         dict(seed=2, n=32768, da='i2', db='u8', place='full', shape='nested', ov=5, strided=True),
	         dict(seed=3, n=65536, da='u4', db='u2', place='full', shape='equal', ov=0, strided=False)]
	for c in fixed:
		ctx.count('stream:gen-large')
		yield 'gen', c
	for i in range(ctx.pick(27, 200)):
		da, db = rng.choice(DTYPES), rng.choice(DTYPES)
		c = dict(seed=rng.randrange(1 << 30), n=rng.choice([20000, 60000, 250000, 1000000] + ([] if ctx.quick else [6000000])),
		         da=da, db=db, place=rng.choice(['low', 'top', 'spread', 'full']),
		         shape=rng.choice(['random', 'random', 'nested', 'equal', 'disjoint']), ov=rng.randint(0, 8), strided=rng.random() < 0.3)
		ctx.count('stream:gen-large')
		yield 'gen', c
	# jaccarddist_matrix over its argument forms: size relation of queries / references x container of either side x
	# chunk size x ref_indices x out=
	for i in range(ctx.pick(64, 480)):
		shape = MATRIX_SHAPES[i % len(MATRIX_SHAPES)]
		ctx.count('stream:matrix-' + shape)
		yield 'matrix', _matrix_case(rng, shape)
